"""Fold ThreadSanitizer report files into a leg result.

A report counts only if one of its stack frames is in a /repo crate (see DESIGN section 6);
reports are de-duplicated by the pair of first in-repo frames with line numbers stripped.
"""
import glob, os, re

REPO_FRAME = re.compile(r"#\d+ (\S+) (/repo/[^ :]+)")

def parse(path):
    txt = open(path, errors="replace").read()
    blocks = txt.split("WARNING: ThreadSanitizer:")[1:]
    out = []
    for b in blocks:
        kind = b.split("\n", 1)[0].strip()
        # stacks are separated by blank lines; take first in-repo frame of first two stacks
        stacks = re.split(r"\n\s*\n", b)
        firsts = []
        for s in stacks:
            m = REPO_FRAME.search(s)
            if m:
                firsts.append("%s@%s" % (m.group(1), os.path.basename(m.group(2))))
            if len(firsts) == 2:
                break
        out.append((kind, tuple(firsts), b[:3000]))
    return out

def fold_into(result, scratch, prefix, pid, leg):
    reports = []
    for f in glob.glob(os.path.join(scratch, prefix + ".*")):
        reports += parse(f)
    seen = {}
    for kind, firsts, text in reports:
        if not firsts:
            continue  # no /repo frame: not attributed to the code under test
        if "data race" not in kind:
            continue
        key = (kind, tuple(sorted(firsts)))
        seen.setdefault(key, text)
    c = result.setdefault("counters", {})
    c["tsan_reports_total"] = len(reports)
    c["tsan_reports_in_repo_distinct"] = len(seen)
    allow = leg.get("tsan_ignore", [])
    for (kind, firsts), text in seen.items():
        sig = "tsan:" + "|".join(firsts)
        if any(a in sig for a in allow):
            c["tsan_ignored"] = c.get("tsan_ignored", 0) + 1
            continue
        result.setdefault("violations", []).append(
            {"signature": sig, "detail": "ThreadSanitizer: %s\n%s" % (kind, text), "replay": {"tsan": True}})
        result["violations_total"] = result.get("violations_total", 0) + 1
