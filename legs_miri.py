"""C20 Miri leg: the pure codecs (tensor_compress ids / rle / tensor-train / snapshot container,
SparseVector) under the Miri interpreter with tree borrows. Undefined behaviour, out-of-bounds
reads or a failed round-trip oracle make the run fail."""
import os, re, subprocess, time


def c20_miri(ctx):
    t0 = time.time()
    cases = 24 if ctx["tier"] == "quick" else 160
    pkg = os.path.join(ctx["harness"], "miri_c20")
    env = dict(ctx["env"])
    env["CARGO_TARGET_DIR"] = os.path.join(os.environ.get("VERIF_TARGET_DIR", os.path.join(ctx["harness"], "target")), "..", "target-miri")
    env["MIRIFLAGS"] = "-Zmiri-tree-borrows -Zmiri-env-forward=MIRI_C20_CASES -Zmiri-env-forward=MIRI_C20_SEED"
    env["MIRI_C20_CASES"] = str(cases)
    env["MIRI_C20_SEED"] = str(ctx["seed"])
    res = {"evaluations": 0, "distinct_nontrivial": 0, "samples": [], "counters": {}, "violations": [], "violations_total": 0,
           "inconclusive": 0, "inconclusive_reasons": {}, "floors_unmet": [],
           "rule": "cargo +nightly miri run (tree borrows) of harness/miri_c20: %d seeded cases, each round-tripping id lists / RLE / sparse vectors / tensor-train / the compressed-snapshot container and decoding truncated and bit-flipped encodings; distinct = cases x hostile inputs decoded as reported by the program" % cases,
           "assumptions": ["Miri cannot construct a TensorStore (EmbeddingSlab allocates ~4M cells) and cannot cross FFI (zstd): only the pure codecs run here"]}
    try:
        p = subprocess.run(["cargo", "+nightly", "miri", "run"], cwd=pkg, env=env, stdout=subprocess.PIPE, stderr=subprocess.PIPE, text=True,
                           timeout=1500 if ctx["tier"] == "quick" else 7200)
    except subprocess.TimeoutExpired:
        res["inconclusive_fatal"] = "miri run timed out"
        return res
    m = re.search(r"MIRI-C20 ok cases=(\d+) seed=\d+ hostile_inputs_decoded=(\d+) rejected=(\d+)", p.stdout)
    if p.returncode == 0 and m:
        res["evaluations"] = int(m.group(1))
        res["distinct_nontrivial"] = int(m.group(1))
        res["counters"] = {"miri_cases": int(m.group(1)), "hostile_inputs_decoded": int(m.group(2)), "hostile_inputs_rejected": int(m.group(3))}
        res["samples"] = [{"miri_stdout_tail": p.stdout.strip().splitlines()[-3:]}]
    elif "Undefined Behavior" in p.stderr or "error: unsupported operation" in p.stderr or "panicked" in p.stderr:
        first = [l for l in p.stderr.splitlines() if "Undefined Behavior" in l or "panicked" in l or l.startswith("error")]
        sig = "miri:" + (re.sub(r"\d+", "#", first[0])[:100] if first else "failure")
        res["violations"].append({"signature": sig, "detail": p.stderr[-3000:], "replay": {"miri": True, "cases": cases, "seed": ctx["seed"]}})
        res["violations_total"] = 1
        res["evaluations"] = 1
    else:
        res["inconclusive_fatal"] = "miri leg failed to run: rc=%s %s" % (p.returncode, p.stderr[-800:])
    res["wall_s"] = time.time() - t0
    return res
