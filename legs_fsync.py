"""Syscall-order monitor: "persist before answering".

A child of the property's harness binary (`<bin> child-ack <dir> <seed> <mode>`) performs durable
operations and writes an `ACK n ...` line to fd 1 immediately after each call that acknowledges
durability. The whole child runs under `strace -f -y`; this module replays the recorded syscall
log: every write to a log file marks it dirty, fsync/fdatasync (or truncation) cleans it, and at
every ACK marker no log file may be dirty.
"""
import os, re, subprocess, shutil, time, random

W = re.compile(r'^(?:\d+\s+)?(write|pwrite64|writev)\((\d+)<([^>]*)>')
S = re.compile(r'^(?:\d+\s+)?(fsync|fdatasync)\((\d+)<([^>]*)>')
O = re.compile(r'^(?:\d+\s+)?openat\([^,]*, "([^"]*)", ([A-Z_|]+)')
T = re.compile(r'^(?:\d+\s+)?ftruncate\((\d+)<([^>]*)>')


def check_trace(lines, is_log):
    """returns (acks, violations[list of str], stats)"""
    dirty = {}
    acks = 0
    bad = []
    nsync = 0
    for l in lines:
        m = W.match(l)
        if m:
            path = m.group(3)
            if m.group(2) == "1" and '"ACK ' in l:
                acks += 1
                d = [p for p, v in dirty.items() if v and is_log(p)]
                if d:
                    bad.append("ack #%d (%s) while %s holds writes that were not fsynced" % (acks, l.split('"')[1].strip()[:40], ",".join(os.path.basename(p) for p in d)))
                continue
            if is_log(path):
                dirty[path] = True
            continue
        m = S.match(l)
        if m:
            nsync += 1
            dirty[m.group(3)] = False
            continue
        m = O.match(l)
        if m and "O_TRUNC" in m.group(2):
            dirty[m.group(1)] = False
            continue
        m = T.match(l)
        if m:
            dirty[m.group(2)] = False
    return acks, bad, nsync


def leg(ctx, pid, modes, is_log, min_acks):
    binp = ctx["build"]({"name": "native", "build": "native"})
    t0 = time.time()  # the budget covers the workload, not a (re)build of the binary
    rnd = random.Random(ctx["seed"] * 7919 + 13)
    runs = 12 if ctx["tier"] == "quick" else 90
    res = {"evaluations": 0, "distinct_nontrivial": 0, "samples": [], "counters": {}, "violations": [], "violations_total": 0,
           "inconclusive": 0, "inconclusive_reasons": {}, "floors_unmet": [],
           "rule": "strace -f -y of a child performing seeded durable operations in sync modes %s; offline checker over the syscall log: at each ACK marker (written to fd 1 right after the acknowledging call returned) the log file has no write that is not followed by fsync/fdatasync. Distinct = (mode, seed) runs with at least one ack." % (modes,),
           "assumptions": ["fsync on the log's file descriptor is what makes an acknowledged record durable; directory fsyncs are not demanded"]}
    c = res["counters"]
    seen = set()
    for i in range(runs):
        mode = modes[i % len(modes)]
        seed = rnd.randrange(1 << 40)
        d = os.path.join(ctx["scratch"], "ack-%s-%d" % (pid, i))
        shutil.rmtree(d, ignore_errors=True)
        os.makedirs(d)
        tr = os.path.join(d, "trace.txt")
        try:
            p = subprocess.run(["strace", "-f", "-y", "-s", "48", "-o", tr, "-e", "trace=write,pwrite64,writev,fsync,fdatasync,openat,ftruncate,rename",
                                binp, "child-ack", d, str(seed), mode], stdout=subprocess.PIPE, stderr=subprocess.PIPE, text=True, timeout=300)
        except subprocess.TimeoutExpired:
            res["inconclusive"] += 1
            continue
        if p.returncode != 0:
            res["inconclusive"] += 1
            res["inconclusive_reasons"]["child failed"] = res["inconclusive_reasons"].get("child failed", 0) + 1
            continue
        lines = open(tr, errors="replace").read().splitlines()
        acks, bad, nsync = check_trace(lines, is_log)
        res["evaluations"] += 1
        c["acks_checked"] = c.get("acks_checked", 0) + acks
        c["fsyncs_seen"] = c.get("fsyncs_seen", 0) + nsync
        c["syscalls_logged"] = c.get("syscalls_logged", 0) + len(lines)
        if acks:
            seen.add((mode, seed))
        for b in bad[:2]:
            res["violations_total"] += 1
            if len(res["violations"]) < 10:
                res["violations"].append({"signature": "ack-before-fsync:%s" % mode, "detail": b + " [mode %s seed %d]" % (mode, seed),
                                          "replay": {"strace": True, "mode": mode, "seed": seed}})
        if len(res["samples"]) < 2:
            res["samples"].append({"mode": mode, "seed": seed, "acks": acks,
                                   "log_head": [l[:120] for l in lines if ("ACK" in l or "fsync" in l or ".wal" in l)][:10]})
        shutil.rmtree(d, ignore_errors=True)
    res["distinct_nontrivial"] = len(seen)
    if c.get("acks_checked", 0) < min_acks:
        res["floors_unmet"].append({"what": "acks_checked", "have": c.get("acks_checked", 0), "need": min_acks})
    res["wall_s"] = time.time() - t0
    return res


def c02_leg(ctx):
    return leg(ctx, "C02", ["immediate", "batched", "manual"], lambda p: p.endswith(".wal"), 20)


def c10_leg(ctx):
    return leg(ctx, "C10", ["immediate"], lambda p: p.endswith(".wal") or "raft" in os.path.basename(p), 10)


def c13_leg(ctx):
    return leg(ctx, "C13", ["immediate"], lambda p: p.endswith(".wal") or "tx" in os.path.basename(p), 10)
