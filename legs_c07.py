"""C07 strace leg: kill a real snapshot save at every write/open/rename syscall and load the
destination afterwards; also check the temp+rename protocol on the recorded syscall log.

The child (`c07 child-save <dir> <fmt> <seedA> <seedB>`) saves store A to <dir>/dest.snap, prints the
observation hashes of A and B, then (between two marker syscalls) saves store B over it. Traces are
deterministic, so `-e inject=<syscall>:signal=KILL:when=k` enumerates a real crash before the k-th
such syscall. After the kill, `c07 child-hash <dir> <fmt>` loads dest.snap in a fresh process and
prints the hash of what it observes: it must be A's or B's, never an error or anything else.
"""
import os, re, subprocess, shutil, time, random, json

TRACE = "trace=openat,write,writev,pwrite64,rename,renameat,renameat2,fsync,fdatasync,unlink,unlinkat,newfstatat,statx,stat,ftruncate,truncate"
CLASSES = ["write", "openat", "rename", "renameat", "renameat2", "writev", "pwrite64"]


def run(cmd, timeout=120):
    return subprocess.run(cmd, stdout=subprocess.PIPE, stderr=subprocess.PIPE, text=True, timeout=timeout)


def region(lines):
    b = e = None
    for i, l in enumerate(lines):
        if "MARK-BEGIN-SAVE-B" in l and b is None:
            b = i
        if "MARK-END-SAVE-B" in l:
            e = i
    return b, e


def sysname(line):
    m = re.match(r"^(?:\d+\s+)?(\w+)\(", line)
    return m.group(1) if m else None


def strace_leg(ctx):
    binp = ctx["build"]({"name": "native", "build": "native"})
    t0 = time.time()  # the budget covers the workload, not a (re)build of the binary
    rnd = random.Random(ctx["seed"])
    tier = ctx["tier"]
    budget = ctx["budget"] or (40 if tier == "quick" else 600)
    trials = 6 if tier == "quick" else 60
    res = {"evaluations": 0, "distinct_nontrivial": 0, "samples": [], "counters": {}, "violations": [], "violations_total": 0,
           "inconclusive": 0, "inconclusive_reasons": {}, "floors_unmet": [],
           "rule": "strace kill-injection: for each format (file, quantising) and trial (two different seeded stores A,B), the save of B over A is killed before its k-th write / openat / rename syscall for every k inside the save, then dest.snap is loaded in a fresh process; plus a protocol check on the un-injected syscall log (destination never opened for writing, rename after the last write). Distinct = (format, syscall class, k, trial).",
           "assumptions": ["process kill model: file contents are what the completed syscalls wrote; the page cache is not lost"]}
    c = res["counters"]
    seen = set()

    def over_budget():
        # the budget ends the workload only once the non-vacuity floor is met (a loaded machine
        # must not turn the leg into 'observed nothing'); hard stop at six times the budget
        el = time.time() - t0
        return el > budget and (c.get("kills_injected", 0) >= 16 or el > 6 * budget)

    def viol(sig, detail, replay):
        res["violations_total"] += 1
        if len(res["violations"]) < 20:
            res["violations"].append({"signature": sig, "detail": detail, "replay": replay})

    for fmt in ("file", "quantising"):
        for trial in range(trials):
            if over_budget():
                c["budget_stops"] = c.get("budget_stops", 0) + 1
                break
            sa, sb = rnd.randrange(1 << 40), rnd.randrange(1 << 40)
            d = os.path.join(ctx["scratch"], "c07s-%s-%d" % (fmt, trial))
            shutil.rmtree(d, ignore_errors=True)
            os.makedirs(d)
            tr = os.path.join(d, "trace.txt")
            p = run(["strace", "-f", "-y", "-o", tr, "-e", TRACE, binp, "child-save", d, fmt, str(sa), str(sb)])
            m = re.search(r"HASH_A=(\d+) HASH_B=(\d+)", p.stdout)
            if p.returncode != 0 or not m or "SAVED_B" not in p.stdout:
                res["inconclusive"] += 1
                res["inconclusive_reasons"]["baseline child failed"] = res["inconclusive_reasons"].get("baseline child failed", 0) + 1
                continue
            ha, hb = m.group(1), m.group(2)
            lines = open(tr).read().splitlines()
            b, e = region(lines)
            if b is None or e is None:
                res["inconclusive"] += 1
                res["inconclusive_reasons"]["markers not found in trace"] = 1
                continue
            reg = lines[b + 1:e]
            # ---- protocol monitor on the recorded log
            dest = os.path.join(d, "dest.snap")
            last_write = -1
            rename_at = -1
            for i, l in enumerate(reg):
                n = sysname(l)
                if n in ("write", "writev", "pwrite64"):
                    last_write = i
                    if "<%s>" % dest in l:
                        viol("crash:%s:destination-written-in-place" % fmt, "save wrote to the destination path itself: " + l[:200], {"strace": True, "fmt": fmt, "sa": sa, "sb": sb})
                if n == "openat" and '"%s"' % dest in l and ("O_WRONLY" in l or "O_RDWR" in l or "O_TRUNC" in l):
                    viol("crash:%s:destination-opened-for-writing" % fmt, "save opened the destination for writing: " + l[:200], {"strace": True, "fmt": fmt, "sa": sa, "sb": sb})
                if n in ("rename", "renameat", "renameat2") and dest in l:
                    rename_at = i
            c["protocol_logs_checked"] = c.get("protocol_logs_checked", 0) + 1
            c["syscalls_in_save_region"] = c.get("syscalls_in_save_region", 0) + len(reg)
            if rename_at >= 0 and last_write > rename_at:
                viol("crash:%s:write-after-rename" % fmt, "a write to the snapshot follows the rename", {"strace": True, "fmt": fmt, "sa": sa, "sb": sb})
            if rename_at < 0:
                viol("crash:%s:no-rename-into-place" % fmt, "save never renamed a temp file onto the destination", {"strace": True, "fmt": fmt, "sa": sa, "sb": sb})
            if len(res["samples"]) < 3:
                res["samples"].append({"fmt": fmt, "save_region_syscalls": [l[:140] for l in reg[:12]]})
            # ---- the completed save (crash right after the rename) loads as the new store
            hdone = run([binp, "child-hash", d, fmt])
            md = re.search(r"LOADED_HASH=(\d+)", hdone.stdout)
            res["evaluations"] += 1
            if not md or md.group(1) != hb:
                viol("crash:%s:completed-save-does-not-load-as-new" % fmt, "after the save returned, dest.snap loads as %s" % hdone.stdout.strip()[:200], {"strace": True, "fmt": fmt, "sa": sa, "sb": sb})
            else:
                c["loaded_new"] = c.get("loaded_new", 0) + 1
            # ---- kill injection
            for cls in CLASSES:
                names = (cls,)
                before = sum(1 for l in lines[:b + 1] if sysname(l) in names)
                inside = sum(1 for l in reg if sysname(l) in names)
                for k in range(before + 1, before + inside + 1):
                    if over_budget():
                        break
                    d2 = os.path.join(ctx["scratch"], "c07k")
                    shutil.rmtree(d2, ignore_errors=True)
                    os.makedirs(d2)
                    inj = "inject=%s:signal=SIGKILL:when=%d" % (",".join(names), k)
                    q = run(["strace", "-f", "-o", "/dev/null", "-e", "trace=" + cls, "-e", inj, binp, "child-save", d2, fmt, str(sa), str(sb)])
                    if "SAVED_B" in q.stdout:
                        res["inconclusive"] += 1
                        res["inconclusive_reasons"]["injection did not kill"] = res["inconclusive_reasons"].get("injection did not kill", 0) + 1
                        continue
                    mq = re.search(r"HASH_A=(\d+) HASH_B=(\d+)", q.stdout)
                    if not mq:
                        res["inconclusive"] += 1
                        res["inconclusive_reasons"]["killed before the hashes were printed"] = res["inconclusive_reasons"].get("killed before the hashes were printed", 0) + 1
                        continue
                    ha, hb = mq.group(1), mq.group(2)  # graph timestamps make every build unique
                    h = run([binp, "child-hash", d2, fmt])
                    res["evaluations"] += 1
                    c["kills_injected"] = c.get("kills_injected", 0) + 1
                    c["kills_at_" + cls] = c.get("kills_at_" + cls, 0) + 1
                    seen.add((fmt, cls, k - before, trial))
                    mh = re.search(r"LOADED_HASH=(\d+)", h.stdout)
                    rp = {"strace": True, "fmt": fmt, "sa": sa, "sb": sb, "class": cls, "k": k}
                    if not mh:
                        viol("crash:%s:unreadable-after-kill" % fmt, "killed before %s #%d of the save: %s" % (cls, k - before, h.stdout.strip()[:300]), rp)
                    elif mh.group(1) == ha:
                        c["loaded_old"] = c.get("loaded_old", 0) + 1
                    elif mh.group(1) == hb:
                        c["loaded_new"] = c.get("loaded_new", 0) + 1
                    else:
                        viol("crash:%s:mixture-after-kill" % fmt, "killed before %s #%d: loaded store is neither the old nor the new one" % (cls, k - before), rp)
    res["distinct_nontrivial"] = len(seen)
    for what, need in (("kills_injected", 8), ("protocol_logs_checked", 2)):
        if c.get(what, 0) < need:
            res["floors_unmet"].append({"what": what, "have": c.get(what, 0), "need": need})
    res["wall_s"] = time.time() - t0
    return res
