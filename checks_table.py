"""Which harness binary / legs decide which property. Read by ./check."""

def native(name="native", **kw):
    d = {"name": name, "build": "native"}
    d.update(kw)
    return d

CHECKS = {
    "C17": {"crate": "h_chain", "bin": "c17", "level": "exploration", "legs": [native()]},
}
