"""Which harness binary / legs decide which property. Read by ./check."""

def native(name="native", **kw):
    d = {"name": name, "build": "native"}
    d.update(kw)
    return d

def tsan(name="tsan", **kw):
    d = {"name": name, "build": "tsan"}
    d.update(kw)
    return d

def asan(name="asan", **kw):
    d = {"name": name, "build": "asan"}
    d.update(kw)
    return d

def script(name, module, func, **kw):
    d = {"name": name, "kind": "script", "module": module, "func": func}
    d.update(kw)
    return d

CHECKS = {
    "C07": {"crate": "h_store", "bin": "c07", "level": "exploration", "legs": [
        native(),
        script("strace-kill", "legs_c07", "strace_leg"),
    ]},
    "C10": {"crate": "h_chain", "bin": "c10", "level": "fault_enumeration", "legs": [
        native(),
        script("strace-ack", "legs_fsync", "c10_leg"),
    ]},
    "C11": {"crate": "h_store", "bin": "c11", "level": "exploration", "legs": [
        native(),
        tsan(args={"quick": {"part": "stress", "budget-s": 25}, "thorough": {"part": "stress", "budget-s": 300}}),
    ]},
    "C02": {"crate": "h_store", "bin": "c02", "level": "fault_enumeration", "legs": [
        native(),
        script("strace-ack", "legs_fsync", "c02_leg"),
        asan(tiers=["thorough"], args={"thorough": {"budget-s": 240, "images": 24, "chains": 1, "threads": 8}}),
    ]},
    "C17": {"crate": "h_chain", "bin": "c17", "level": "exploration", "legs": [native()]},
}
