"""Which harness binary / legs decide which property. Read by ./check."""

def native(name="native", **kw):
    d = {"name": name, "build": "native"}
    d.update(kw)
    return d

def tsan(name="tsan", **kw):
    d = {"name": name, "build": "tsan"}
    d.update(kw)
    return d

def asan(name="asan", **kw):
    d = {"name": name, "build": "asan"}
    d.update(kw)
    return d

def script(name, module, func, **kw):
    d = {"name": name, "kind": "script", "module": module, "func": func}
    d.update(kw)
    return d

CHECKS = {
    "C03": {"crate": "h_chain", "bin": "c03", "level": "exploration", "legs": [
        native(),
        tsan(tiers=["thorough"], args={"thorough": {"mode": "threaded", "budget-s": 300}}),
    ]},
    "C04": {"crate": "h_engines", "bin": "c04", "level": "exploration", "legs": [native()]},
    "C05": {"crate": "h_engines", "bin": "c05", "level": "exploration", "legs": [
        native(),
        tsan(tiers=["thorough"], args={"all": {"part": "concurrent", "budget-s": 240}}),
    ]},
    "C06": {"crate": "h_engines", "bin": "c06", "level": "exploration", "legs": [native()]},
    "C07": {"crate": "h_store", "bin": "c07", "level": "exploration", "legs": [
        native(),
        script("strace-kill", "legs_c07", "strace_leg"),
    ]},
    "C08": {"crate": "h_engines", "bin": "c08", "level": "exploration", "legs": [native()]},
    "C09": {"crate": "h_engines", "bin": "c09", "level": "exploration", "legs": [
        native(),
        tsan(tiers=["thorough"], args={"all": {"only": "threads", "budget-s": 240}}),
    ]},
    "C10": {"crate": "h_chain", "bin": "c10", "level": "fault_enumeration", "legs": [
        native(),
        script("strace-ack", "legs_fsync", "c10_leg"),
    ]},
    "C11": {"crate": "h_store", "bin": "c11", "level": "exploration", "legs": [
        native(),
        tsan(args={"quick": {"part": "stress", "budget-s": 25}, "thorough": {"part": "stress", "budget-s": 300}}),
    ]},
    "C01": {"crate": "h_chain", "bin": "c01", "level": "exploration", "legs": [
        native(args={"quick": {"drain": 1}, "thorough": {"drain": 1}}),
        asan(tiers=["thorough"], args={"thorough": {"budget-s": 240, "cases": 4000, "floor-pct": 2, "threads": 8}}),
    ]},
    "C02": {"crate": "h_store", "bin": "c02", "level": "fault_enumeration", "legs": [
        native(),
        script("strace-ack", "legs_fsync", "c02_leg"),
        script("strace-ckpt-kill", "legs_c02", "ckpt_kill_leg"),
        asan(tiers=["thorough"], args={"thorough": {"budget-s": 240, "images": 24, "chains": 1, "threads": 8}}),
    ]},
    "C18": {"crate": "h_engines", "bin": "c18", "level": "exploration", "legs": [native()]},
    "C12": {"crate": "h_chain", "bin": "c12", "level": "exploration", "legs": [
        native(),
        tsan(tiers=["thorough"], args={"thorough": {"part": "threads", "budget-s": 300}}),
    ]},
    "C13": {"crate": "h_chain", "bin": "c13", "level": "fault_enumeration", "legs": [
        native(),
        script("strace-ack", "legs_fsync", "c13_leg"),
    ]},
    "C14": {"crate": "h_misc", "bin": "c14", "level": "exploration", "legs": [native()]},
    "C15": {"crate": "h_engines", "bin": "c15", "level": "exploration", "legs": [native()]},
    "C19": {"crate": "h_misc", "bin": "c19", "level": "exploration", "legs": [
        native(),
        tsan(tiers=["thorough"], args={"thorough": {"part": "concurrent", "budget-s": 300}}),
    ]},
    "C16": {"crate": "h_chain", "bin": "c16", "level": "exploration", "legs": [
        native(args={"all": {"strict-endorsement-list": 1}}),
        tsan(tiers=["thorough"], args={"thorough": {"part": "concurrent", "budget-s": 300}}),
    ]},
    "C20": {"crate": "h_misc", "bin": "c20", "level": "exploration", "legs": [
        native(),
        asan(tiers=["thorough"], args={"all": {"part": "garbage"}}),
        script("miri", "legs_miri", "c20_miri", tiers=["thorough"]),
    ]},
    "C17": {"crate": "h_chain", "bin": "c17", "level": "exploration", "legs": [native()]},
}
