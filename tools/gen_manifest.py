#!/usr/bin/env python3
"""Regenerates /verif/MANIFEST.json from the table below (run after adding a check)."""
import json, os, subprocess, sys

VERIF = os.path.dirname(os.path.dirname(os.path.abspath(__file__)))
sys.path.insert(0, VERIF)
from checks_table import CHECKS  # noqa

TEXT = {
 "C01": ("Deterministic discrete-event simulation of 3 and 5 real RaftNode objects (capture transport, real WAL files) under seeded delivery/duplication/loss/reordering, election timeouts, proposals, partitions and crash/restart; an online monitor holds the committed (index -> term,payload) map, leader-per-term map and log-matching relation and checks every step.",
         "Held on the schedules explored; fixed membership, no snapshot install / compaction in the cluster simulation (those are driven on a single node by the C10 monitor); crashes are process kills at record boundaries (the WAL file keeps only the bytes that were on disk).",
         "runtime monitoring: online trace checker over a seeded fault-injecting cluster simulation of the real node"),
 "C02": ("Real TensorStore histories (all value kinds/key classes/sync modes) with crash images taken from what was really on disk: after every call, at sampled or all byte cuts inside each call's log growth, inside checkpoint() and WAL rotation via hook callbacks, partial snapshot temp files; every image is recovered with the real recover() and compared with the recorded live states S_lo..S_hi; recovered stores are written to and crashed again (3 crashes). Large (multi-write) records and checkpoints to changing snapshot paths (also back to back without a write in between) are part of the workload. A strace leg checks on the syscall log that every acknowledgement is preceded by fsync of the log; a second one kills a real checkpoint() at every write/rename/fsync and recovers.",
         "Process-crash model (file = prefix of bytes written); power-loss reordering is out of reach, fsync ordering is checked instead. Byte cuts are sampled for large records.",
         "runtime monitoring: crash-image fault injection with record-and-compare oracle + syscall-order monitor (strace)"),
 "C03": ("Message-level simulation of one real DistributedTxCoordinator and 2-3 real TxParticipants with loss, duplication, reordering, timeouts, late/duplicate votes, concurrent transactions, messages of one transaction handled on several threads at once (duplicate PREPARE during COMMIT, PREPARE of another transaction during COMMIT or during a rollback), coordinator and participant restarts through their persisted state, and a coordinator log that refuses appends followed by a coordinator restart; clause-wise oracle over decisions (also across the restart), applied writes and pre-images.",
         "Held on the schedules explored; participant lock expiry left at its default (never fires).",
         "runtime monitoring: online oracle over a seeded message-fault simulation of the real coordinator/participants"),
 "C04": ("Model-based differential testing of the real RelationalEngine: Condition::evaluate on the harness's own row model defines 'satisfies'; every query path (scan, hash index, ordered index, columnar, limit/offset, cursor, aggregates, update, delete, text via the router with the query cache off and on, minimal-parentheses WHERE text) is compared on random schemas, data with edge-case values and condition trees.",
         "Held on the programs explored; <=200 rows, <=4 columns, depth <=5.",
         "runtime monitoring: reference-model oracle + cross-path differential on randomized programs"),
 "C05": ("Real GraphEngine under sequential model-based programs and 2-8 thread stress on hub nodes (seeded jitter and deterministic parking at the adjacency read-modify-write hook); batch creations/deletions from several threads on mostly disjoint nodes and racing delete_node; single-threaded bulk programs (batch_delete_nodes/edges on adjacent nodes around the 100-edge parallel threshold) against a reference multigraph; structural invariant walker and no-lost-edge conservation at quiescence; TSan leg on the concurrent part.",
         "Held on the programs/interleavings explored.",
         "runtime monitoring: invariant walker at quiescence + conservation oracle under stress and forced interleavings; ThreadSanitizer"),
 "C06": ("Real VectorEngine/HNSW against an f64 reference scorer: exhaustive-search exactness, cached-index soundness after every mutation API, re-ranking searches under every extended metric, queries of another dimension on every index-assisted path, failing operations followed by a re-read of the model (partial effects), huge k / ef in child processes, searches in flight on several threads while every mutation API runs and index builds overlapping mutations (judged from call brackets and after the join), read-back exactness, on random stores (dense/sparse/zero/duplicate/mixed dimensions) and operation programs.",
         "Held on the programs explored; <=300 vectors, dim <=64 (+ some 384/768); epsilon for f32-vs-f64.",
         "runtime monitoring: reference-scorer oracle over randomized operation programs"),
 "C07": ("Stores filled through the real engines and raw puts (including cache-ring keys and incompressible payloads) are saved/loaded through 9 paths (plus routers built with SlabRouter::with_config at embedding dimensions 1-600) and re-observed through store and engine read APIs including relational-slab index reads after random schema/index histories, key reads (exists, prefix scan) over keys of every UTF-8 class, stores filled past slab chunk / blob segment / cache-ring capacities, and text that looks like the textual form of another value kind (typed comparison of strings, bytes, pointers, relational cells, graph properties) (deep equality, documented tolerance for tensor-train vectors); atomic replacement is checked by killing a real save at every write/open/rename syscall under strace and loading the destination, by a protocol check on the syscall log, by enumerating temp-file prefixes and stale temp files, and by re-snapshotting after further writes.",
         "Process-kill model; dense random >=256-dim vectors are not judged (no documented bound when the rank cap binds).",
         "runtime monitoring: record-and-compare oracle + strace kill injection and syscall-log protocol monitor"),
 "C08": ("Random statement programs through the real QueryRouter (sync, async and parsed-statement entry points, query cache on/off, plain and Bloom-filter stores) with CHECKPOINT / ROLLBACK TO; the observation vector (table, graph, embedding queries) recorded at checkpoint time must be reproduced after rollback; further writes must work; retention keeps the newest N, also over repeated checkpoint/rollback cycles that reuse names of purged checkpoints and after rollbacks far back followed by a full turnover of the list.",
         "Held on the programs explored; retention judged only at the 1 s granularity of the code's stamps.",
         "runtime monitoring: record-and-compare oracle at the query interface"),
 "C09": ("Real RelationalEngine transactions: sequential and interleaved multi-transaction programs over tables with hash and ordered indexes; pre-transaction recordings must be reproduced after rollback through every access path, commits must persist, conflicting writers must get LockConflict, no locks may remain; statements failing half-way under tight index capacity; lock expiry and take-over scenarios; real threads: one wide multi-row statement against small transactions that commit on its rows between its scan and its locks; the time-out reaper (clock-free and timed variants).",
         "Held on the programs/interleavings explored; lock timeouts exercised at 1 s granularity with don't-care windows.",
         "runtime monitoring: model + record-and-compare oracle, lock-table monitor"),
 "C10": ("A real RaftNode with a real WAL is driven through elections, votes, appends, truncations, leader careers, log compaction and snapshot installs; every reply/ack adds obligations (term, vote, entries) stamped with the WAL length; every byte-prefix crash image (chains of 3 crashes) is restarted with with_wal and must honour all obligations stamped before the cut.",
         "Process-crash model; see C02.",
         "runtime monitoring: promise-ledger oracle over byte-granular crash images of the real WAL"),
 "C11": ("2-8 OS threads on 1-4 contended keys of every key class on one real TensorStore (durable and not); client-boundary history with atomic ticks; self-describing values detect torn/mixed reads; per-key Wing-Gong linearizability check; scan atomicity over >2000 keys against real-time ordered write pairs; recovered-state == live-state after quiescence with checkpoints concurrent to the writers; deterministic two-writer schedule at the put_durable hook; rounds in which every key has a single writer thread (exact judgement of each read), rounds in which the durable log refuses records (refused writes are open operations; the files a crash would leave must recover to the live state); the same workload under ThreadSanitizer.",
         "Held on the interleavings observed; delete's Ok/NotFound result is not judged; scan atomicity is judged for keys of one class.",
         "runtime monitoring: linearizability checking of recorded histories + ThreadSanitizer + forced interleavings at hooks"),
 "C12": ("Real LockManager under 2-6 threads with a sound shadow-owner table, key-lock leases that run out and are taken over (aged lock tables, short real leases), model-based sequential programs with expiry and serialize/restore, the real coordinator and a real TxParticipant under retransmitted PREPAREs, stray decisions, stale sweeps and save/load against a reference key->holder table, preparing threads against an orphan-lock sweeper thread, requester threads taking over expired locks while expiry sweeps and late completions run, and the real WaitForGraph/DeadlockDetector against a reference SCC on all digraphs over <=4 transactions and random ones up to 8.",
         "Held on what was explored; expiry windows are don't-care.",
         "runtime monitoring: shadow-state monitor + reference oracle (exhaustive for <=4 transactions)"),
 "C13": ("Real coordinator with a real TxWal: byte-granular crash images (chains of 3) are recovered and probed (commit/abort/timeouts/pending decisions/new transactions) against a classification the harness decodes itself from the durable prefix (including lock handles of completed transactions, completions logged after the restart, outcomes announced by commit/abort/cleanup_timeouts/complete_* or handed out by get_pending_decisions before the crash, re-delivered votes and PREPAREs after the restart, every later completion record, decided transactions passing their deadlines on the restarted coordinator, locks read off the lock table itself, and transactions whose log says Prepared although a participant had not voted).",
         "Process-crash model; see C02.",
         "runtime monitoring: crash-image fault injection with independent log-decoding oracle"),
 "C14": ("Random programs of vault operations by root and 3-5 identities (grants, TTLs, delegation DAGs with plain and cascading revocation, rotation, restarts) compared decision-by-decision with an independent access model (only-if direction), plus byte-substring scans for unique secret names/values in the store image, snapshots, audit records and error messages.",
         "Held on the programs explored; TTL decisions ignored within a margin of the expiry instant.",
         "runtime monitoring: reference access-model oracle + at-rest marker scan"),
 "C15": ("Totality/determinism/span checks of the real lexer/parsers on random, token-soup, mutated and deeply nested inputs (child processes catch stack overflow/abort), sessions of re-spelled texts on one thread compared with the same text on a fresh thread (no dependence on earlier input), composite nesting ladders, precedence round-trips of generated expression trees through both expression parsers against the documented table, and text-vs-direct-call equivalence through the router.",
         "Held on the inputs explored; <=4 KiB strings, depth <=8 trees.",
         "runtime monitoring: grammar-based generation with round-trip and differential oracles, crash containment in child processes"),
 "C16": ("Real TensorChain: sequential workspace programs, tamper matrix over every stored block and field, concurrent commits (stress and parked at the commit hook), replica replay on two stores, re-opening the chain on crash images with the persisted height behind/ahead of the stored blocks; verify() must accept built chains and reject tampered ones, commits must be atomic.",
         "Held on the programs/interleavings explored.",
         "runtime monitoring: tamper-injection oracle + atomicity/conservation checks under forced interleavings"),
 "C17": ("Real LWWMembershipState / GossipMembershipManager on every multiset of <=4 (quick) / <=5 (thorough) updates over a small universe in every permutation and batching, plus random larger multisets and random programs of merges and local events (Syncs also sent by observed members reporting on themselves), with an online monitor for view equality, monotonicity and retention of every delivered incarnation; the receiving node as an observed member; delivery interleaved with local events (re-delivery leaves the view unchanged, a fresh replica given the same reports agrees); observer threads asserting that what they read never decreases while other threads deliver; hybrid-logical-clock programs.",
         "Universe bounded (2 members, incarnation 0-2, timestamp 1-2 for the exhaustive part).",
         "runtime monitoring: online oracle over enumerated delivery orders and randomized programs"),
 "C18": ("Real GraphEngine path queries and algorithms against independent reference implementations (BFS, Bellman-Ford, DFS enumeration, Tarjan, Kruskal, peeling, triangle enumeration, exhaustive enumeration of variable-length pattern matches) on random multigraphs with self-loops, parallel edges, mixed direction, filters, and on the graphs left behind by random create/delete/update histories.",
         "Held on the graphs explored (<=40 nodes).",
         "runtime monitoring: reference-algorithm oracle on randomized inputs"),
 "C19": ("Real BlobStore against a byte-exact model with chunk reference-count conservation at quiescence, sizes around chunk boundaries, damage injection for verify, and concurrent writers/deleters/collectors.",
         "Held on the programs/interleavings explored.",
         "runtime monitoring: model + conservation oracle under concurrency"),
 "C20": ("Round-trip oracles for every codec over generated values (incl. ids and gaps at every varint group boundary 2^k-1, 2^k, 2^k+1 and runs of up to 2^22+1 elements), and robustness of every decoder on truncated/bit-flipped/random bytes and on structurally valid encodings of hostile values (unsorted/duplicate/out-of-range position lists, mismatched counts, extreme dimensions, inconsistent tensor-train cores; in memory and through snapshot files) with a counting allocator for allocation limits; tensor-train accuracy on dense full-rank inputs and prescribed clustered / degenerate spectra; crash containment in child processes; Miri on the pure codecs.",
         "Held on the inputs explored.",
         "runtime monitoring: round-trip and robustness oracles with allocation monitor; Miri on pure codecs"),
}

LEVEL = {"exploration": "exploration", "fault_enumeration": "fault_enumeration"}


def main():
    props = [json.loads(l) for l in open(os.path.join(VERIF, "properties.jsonl"))]
    old = json.load(open(os.path.join(VERIF, "MANIFEST.json")))
    commits = subprocess.run(["git", "-C", "/repo", "log", "--format=%h %s"], capture_output=True, text=True).stdout.splitlines()
    hook_commits = [c.split()[0] for c in commits if c.split(" ", 1)[1].startswith("verif hooks:")]
    m = {
        "version": 1,
        "setup_cmd": "cd /verif && ./check --setup",
        "hooks": {
            "guard": "cargo feature neumann_verif (tensor_store, graph_engine, tensor_chain)",
            "enable": "the harness workspace /verif/harness depends on the /repo crates by path with features=[\"neumann_verif\"]; every ./check invocation runs `cargo build --release -p <harness crate>` which rebuilds the /repo crates from the current working tree",
            "baseline_off_cmd": "cd /repo && cargo nextest run --workspace --no-fail-fast --tool-config-file pb:/w/lib/nextest.toml --profile pb --test-threads 8 --offline",
            "source_commits": list(reversed(hook_commits)),
            "add_only": True,
        },
        "engines": [],
        "checks": [],
        "notes": old.get("notes", ""),
        "not_applicable": [],
    }
    for p in props:
        pid = p["id"]
        if pid in CHECKS:
            spec = CHECKS[pid]
            text, note, tech = TEXT[pid]
            legs = ", ".join(l["name"] + ("(" + l["build"] + ")" if l.get("build") not in (None, "native") else "") for l in spec["legs"])
            m["checks"].append({
                "property_id": pid,
                "quick_cmd": "./check %s --tier quick" % pid,
                "thorough_cmd": "./check %s --tier thorough" % pid,
                "evidence_file": "evidence/%s.json" % pid,
                "replay_cmd_template": "./check %s --replay {path}" % pid,
                "engine": "%s/%s" % (spec["crate"], spec["bin"]),
                "level_claimed": {"category": spec["level"], "text": text, "design_ref": "DESIGN.md section 4 (%s), section 9" % pid},
                "level_note": note + " Legs: " + legs + ".",
                "technique": tech,
            })
            m["engines"].append({"name": "%s/%s" % (spec["crate"], spec["bin"]), "path": "harness/%s/src/bin/%s.rs" % (spec["crate"], spec["bin"]),
                                 "serves_properties": [pid], "kind_free_text": "harness binary driving the real /repo code with monitors"})
        else:
            m["not_applicable"].append({"property_id": pid, "reason": "check still under construction in this session (runtime monitor designed in DESIGN.md section 4); not claimed until it is silent on the unchanged tree"})
    json.dump(m, open(os.path.join(VERIF, "MANIFEST.json"), "w"), indent=1)
    print("claimed:", [c["property_id"] for c in m["checks"]])


if __name__ == "__main__":
    main()
