#!/usr/bin/env python3
"""Confirm seeded changes produced by an independent agent and run our check against them.

usage: eval_mutations.py <ID> [--wt /tmp/mut-<ID>] [--only k]

For every /tmp/mut-<ID>/mutations/<k>/ (patch.diff, meta.json with demo_cmd, demo file):
  1. clean tree: the demonstration must PASS;
  2. apply the patch: it must compile, the demonstration must FAIL, and the touched crates' own lib
     tests must still pass (the root-only permission tests that fail on the pinned tree are ignored);
  3. run `./check <ID> --tier quick` against the changed tree (tools/run_on_tree.sh) and record the verdict;
  4. undo the patch.
Confirmed changes are copied to /verif/seeded/<ID>-<k>/ with meta.json extended by what was run here.
"""
import json, os, re, shutil, subprocess, sys, time

VERIF = os.path.dirname(os.path.dirname(os.path.abspath(__file__)))
KNOWN_ROOT_FAILS = {
    "raft_wal::tests::test_raft_wal_append_returns_io_error_on_failure",
    "tx_wal::tests::test_tx_wal_append_disk_full_simulation",
    "tx_wal::tests::test_tx_wal_open_permission_denied",
    "tx_wal::tests::test_tx_wal_truncate_error_handling",
    "embedding_slab::tests::test_no_resize_stall",   # timing test, fails only under heavy load
    "entity_index::tests::test_no_resize_stall",
    "partition_merge::tests::test_pending_tx_is_timed_out",   # asserts that no millisecond boundary passes between two statements
    "distributed_tx::tests::test_participant_recover_exact_timeout_not_expired",   # listed as flaky in BASELINE.json
    "distributed_tx::tests::test_key_lock_is_expired_exact_boundary",   # listed as flaky in BASELINE.json
}


def sh(cmd, cwd, timeout=3600, env=None):
    e = dict(os.environ)
    e["CARGO_NET_OFFLINE"] = "true"
    if env:
        e.update(env)
    t0 = time.time()
    try:
        p = subprocess.run(cmd, shell=True, cwd=cwd, env=e, stdout=subprocess.PIPE, stderr=subprocess.STDOUT, text=True, timeout=timeout)
        return p.returncode, p.stdout, time.time() - t0
    except subprocess.TimeoutExpired as ex:
        return 124, (ex.stdout or "") + "\n[timeout]", time.time() - t0


def crates_of(patch):
    cr = set()
    for l in open(patch):
        m = re.match(r"^\+\+\+ b/([^/]+)/", l)
        if m:
            cr.add(m.group(1))
    return sorted(cr)


def lib_tests(wt, crate, target):
    rc, out, dt = sh("cargo test -p %s --lib --offline 2>&1 | tail -60" % crate, wt, env={"CARGO_TARGET_DIR": target})
    failed = set(re.findall(r"^test (\S+) \.\.\. FAILED", out, re.M)) | set(re.findall(r"^    (\S+::\S+)$", out, re.M))
    failed = {f for f in failed if "::" in f}
    unexpected = sorted(f for f in failed if f not in KNOWN_ROOT_FAILS and not f.endswith('test_no_resize_stall'))  # wall-clock timing tests flake under load
    m = re.search(r"test result: (\w+)\. (\d+) passed; (\d+) failed", out)
    summary = m.group(0) if m else out[-300:]
    ok = m is not None and not unexpected
    return ok, summary, unexpected, dt


def main():
    pid = sys.argv[1]
    wt = "/tmp/mut-%s" % pid
    only = None
    tag = ""
    base = None  # revision of /repo the change is evaluated on (default: current HEAD)
    a = sys.argv[2:]
    while a:
        if a[0] == "--wt":
            wt = a[1]; a = a[2:]
        elif a[0] == "--only":
            only = a[1]; a = a[2:]
        elif a[0] == "--tag":
            tag = a[1] + "-"; a = a[2:]
        elif a[0] == "--base":
            base = a[1]; a = a[2:]
        else:
            a = a[1:]
    target = os.path.join(wt, "target")
    mdir = os.path.join(wt, "mutations")
    # evaluate against the repository's current HEAD (fixes committed since the change was authored included)
    sh("git checkout -- . && git checkout -q --detach %s" % (base or "$(git -C /repo rev-parse HEAD)"), wt)
    rc, rev, _ = sh("git rev-parse --short HEAD", wt)
    results = []
    for k in sorted(os.listdir(mdir)):
        d = os.path.join(mdir, k)
        if only and k != only:
            continue
        patch = os.path.join(d, "patch.diff")
        metaf = os.path.join(d, "meta.json")
        if not (os.path.isfile(patch) and os.path.isfile(metaf)):
            continue
        meta = json.load(open(metaf))
        demo = meta.get("demo_cmd", "")
        demo = re.split(r"\s{2,}\(|\s+#\s", demo)[0].strip()  # drop trailing free-text remarks
        demo = re.sub(r"^\s*git apply \S+\s*&&\s*", "", demo)  # the patch is applied by this script
        # agents were told to use CARGO_TARGET_DIR=<wt>/target; make sure the command does
        demo_env = {"CARGO_TARGET_DIR": target}
        rec = {"id": "%s-%s%s" % (pid, tag, k), "property": pid, "demo_cmd": demo}
        sh("git checkout -- . ", wt)
        rc, out, dt = sh("git apply --check %s" % patch, wt)
        if rc != 0:
            rec["status"] = "patch-does-not-apply"; rec["detail"] = out[-500:]
            results.append(rec); print(json.dumps(rec)); continue
        # 1. clean: demo passes
        rc0, out0, dt0 = sh(demo, wt, env=demo_env)
        rec["demo_clean_rc"] = rc0
        # 2. with patch
        sh("git apply %s" % patch, wt)
        rc1, out1, dt1 = sh(demo, wt, env=demo_env)
        rec["demo_changed_rc"] = rc1
        rec["demo_changed_tail"] = out1[-400:]
        tests = {}
        tests_ok = True
        for c in crates_of(patch):
            ok, summary, unexpected, dt = lib_tests(wt, c, target)
            tests[c] = {"ok": ok, "summary": summary, "unexpected_failures": unexpected}
            tests_ok = tests_ok and ok
        rec["existing_tests"] = tests
        confirmed = rc0 == 0 and rc1 != 0 and tests_ok
        rec["confirmed"] = confirmed
        # 3. our check
        if confirmed:
            rcc, outc, dtc = sh("%s/tools/run_on_tree.sh %s %s --tier quick" % (VERIF, wt, pid), VERIF, timeout=5400)
            lines = [l for l in outc.splitlines() if l.startswith(("VIOLATION", "SUMMARY", "KNOWN-FINDING", "INCONCLUSIVE"))]
            rec["check_rc"] = rcc
            rec["check_summary"] = [l for l in lines if l.startswith(("SUMMARY", "INCONCLUSIVE"))]
            rec["check_violations"] = len([l for l in lines if l.startswith("VIOLATION")])
            sigs = []
            rdir = wt + ".harness/out/replays"
            if os.path.isdir(rdir):
                for f in sorted(os.listdir(rdir)):
                    try:
                        sigs.append(json.load(open(os.path.join(rdir, f)))["signature"])
                    except Exception:
                        pass
                shutil.rmtree(rdir, ignore_errors=True)
            rec["check_signatures"] = sorted(set(sigs))
            rec["caught"] = rcc == 1
            rec["check_wall_s"] = round(dtc)
        sh("git checkout -- .", wt)
        if confirmed:
            dest = os.path.join(VERIF, "seeded", "%s-%s%s" % (pid, tag, k))
            os.makedirs(dest, exist_ok=True)
            prev_run = None
            try:
                prev_run = json.load(open(os.path.join(dest, "meta.json"))).get("what_i_ran")
            except Exception:
                pass
            for f in os.listdir(d):
                if os.path.isfile(os.path.join(d, f)):
                    shutil.copy(os.path.join(d, f), os.path.join(dest, f))
            meta["what_i_ran"] = {
                "repo_revision": rev.strip(),
                "clean_tree_demo": "%s -> exit %d" % (demo, rc0),
                "changed_tree_demo": "%s -> exit %d" % (demo, rc1),
                "existing_tests_with_change": tests,
                "check": "./check %s --tier quick on the changed tree -> exit %s; signatures %s" % (pid, rec.get("check_rc"), rec.get("check_signatures")),
                "caught_by_check": rec.get("caught"),
            }
            # keep the history: a change missed by an earlier version of the check stays marked as such
            if prev_run:
                if prev_run.get("after_strengthening") or (prev_run.get("caught_by_check") is False):
                    meta["what_i_ran"]["first_check"] = prev_run.get("first_check") or prev_run.get("check")
                    if rec.get("caught"):
                        meta["what_i_ran"]["after_strengthening"] = True
                        meta["what_i_ran"]["check_signatures_after_strengthening"] = rec.get("check_signatures")
                for k in ("caught_by_other_check", "note"):
                    if k in prev_run:
                        meta["what_i_ran"][k] = prev_run[k]
            json.dump(meta, open(os.path.join(dest, "meta.json"), "w"), indent=1)
        results.append(rec)
        print(json.dumps(rec), flush=True)
    json.dump(results, open(os.path.join(VERIF, "scratch", "eval_%s%s.json" % (tag, pid)), "w"), indent=1)


if __name__ == "__main__":
    main()
