#!/usr/bin/env python3
"""Print a markdown table of /verif/seeded/*: what each seeded change does, whether the check of its
property caught it when it was first evaluated (seeded/FIRST_PASS.json) and what catches it now."""
import json, os, sys

VERIF = os.path.dirname(os.path.dirname(os.path.abspath(__file__)))
fp = json.load(open(os.path.join(VERIF, "seeded", "FIRST_PASS.json")))["first_pass"]
rows = []
for d in sorted(os.listdir(os.path.join(VERIF, "seeded"))):
    p = os.path.join(VERIF, "seeded", d, "meta.json")
    if not os.path.isfile(p):
        continue
    m = json.load(open(p))
    w = m.get("what_i_ran", {})
    sigs = w.get("check_signatures_after_strengthening") or []
    if not sigs:
        c = w.get("check", "")
        i = c.find("signatures ")
        if i >= 0:
            try:
                sigs = eval(c[i + len("signatures "):])
            except Exception:
                sigs = []
    caught_now = bool(w.get("caught_by_check"))
    first = fp.get(d, {}).get("caught_at_first")
    if caught_now and first is False:
        res = "missed at first; caught after strengthening"
    elif caught_now:
        res = "caught"
    elif w.get("caught_by_other_check"):
        res = "caught by the check of " + w["caught_by_other_check"].split(":")[0]
    else:
        res = "NOT caught" + (" (%s)" % w["note"] if w.get("note") else "")
    what = (m.get("what_changed") or "").replace("\n", " ").replace("|", "/")
    rows.append((d, what[:160], res, ", ".join("`%s`" % s for s in (sigs or [])[:2])))
print("| id | change | result | signature(s) |")
print("|---|---|---|---|")
for r in rows:
    print("| %s | %s | %s | %s |" % r)
n = len(rows)
print("\n%d seeded changes confirmed; %d caught by the check of their own property, %d by another property's check, %d not caught." % (
    n, sum(1 for r in rows if r[2].startswith(("caught", "missed at first")) and not r[2].startswith("caught by the check of")),
    sum(1 for r in rows if r[2].startswith("caught by the check of")), sum(1 for r in rows if r[2].startswith("NOT"))), file=sys.stderr)
