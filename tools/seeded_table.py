#!/usr/bin/env python3
"""Print a markdown table of /verif/seeded/*: what each seeded change does and which check caught it."""
import json, os, sys

VERIF = os.path.dirname(os.path.dirname(os.path.abspath(__file__)))
rows = []
for d in sorted(os.listdir(os.path.join(VERIF, "seeded"))):
    p = os.path.join(VERIF, "seeded", d, "meta.json")
    if not os.path.isfile(p):
        continue
    m = json.load(open(p))
    w = m.get("what_i_ran", {})
    sigs = w.get("check_signatures_after_strengthening") or []
    if not sigs:
        c = w.get("check", "")
        i = c.find("signatures ")
        if i >= 0:
            try:
                sigs = eval(c[i + len("signatures "):])
            except Exception:
                sigs = []
    caught = w.get("caught_by_check")
    first = "missed at first; caught after strengthening" if w.get("after_strengthening") else ("caught" if caught else "MISSED")
    what = (m.get("what_changed") or "").replace("\n", " ").replace("|", "/")
    needs = (m.get("needs_to_manifest") or "").replace("\n", " ").replace("|", "/")
    rows.append((d, what[:170], needs[:150], first, ", ".join("`%s`" % s for s in (sigs or [])[:2])))
print("| id | change | needs to manifest | result | signature(s) |")
print("|---|---|---|---|---|")
for r in rows:
    print("| %s | %s | %s | %s | %s |" % r)
n = len(rows)
caught = sum(1 for r in rows if r[3] != "MISSED")
print("\n%d seeded changes confirmed; %d caught by the check of their property (quick tier)." % (n, caught), file=sys.stderr)
