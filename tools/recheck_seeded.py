#!/usr/bin/env python3
"""Re-run the current check of a property against already confirmed seeded changes.

usage: recheck_seeded.py [--tier quick] [--check <ID>] <seeded-id> [<seeded-id> ...]

For every /verif/seeded/<seeded-id>/patch.diff: a scratch worktree of /repo's HEAD under /tmp
(one per property, reused for its changes so builds are incremental), apply the change, run
`./check <ID> --tier quick` against that tree through tools/run_on_tree.sh, undo the change, and
record the verdict in the change's meta.json (`what_i_ran`), keeping the first verdict as
`first_check`. The demonstration itself is not repeated here (tools/eval_mutations.py confirmed it
when the change was accepted). `--check <ID>` runs another property's check against the change
(recorded under `caught_by_other_check`). The worktree and its harness copy are removed at the end.
"""
import json, os, re, shutil, subprocess, sys, time

VERIF = os.path.dirname(os.path.dirname(os.path.abspath(__file__)))


def sh(cmd, cwd=None, timeout=7200):
    e = dict(os.environ)
    e["CARGO_NET_OFFLINE"] = "true"
    try:
        p = subprocess.run(cmd, shell=True, cwd=cwd, env=e, stdout=subprocess.PIPE, stderr=subprocess.STDOUT, text=True, timeout=timeout)
        return p.returncode, p.stdout
    except subprocess.TimeoutExpired as ex:
        return 124, (ex.stdout or "") + "\n[timeout]"


def main():
    a = sys.argv[1:]
    tier = "quick"
    other = None
    keep = False
    ids = []
    while a:
        if a[0] == "--tier":
            tier = a[1]; a = a[2:]
        elif a[0] == "--check":
            other = a[1]; a = a[2:]
        elif a[0] == "--keep":
            keep = True; a = a[1:]
        else:
            ids.append(a[0]); a = a[1:]
    by_prop = {}
    for i in ids:
        by_prop.setdefault(i.split("-")[0], []).append(i)
    rc, head = sh("git -C /repo rev-parse --short=8 HEAD")
    head = head.strip()
    for prop, lst in by_prop.items():
        wt = "/tmp/rc-%s-%d" % (prop, os.getpid())
        sh("git -C /repo worktree remove --force %s" % wt)
        rc, out = sh("git -C /repo worktree add --detach %s HEAD" % wt)
        if rc != 0:
            print("cannot create worktree", out); continue
        try:
            for sid in lst:
                d = os.path.join(VERIF, "seeded", sid)
                patch = os.path.join(d, "patch.diff")
                metaf = os.path.join(d, "meta.json")
                meta = json.load(open(metaf))
                sh("git checkout -- . && git clean -fdq", wt)
                rc, out = sh("git apply %s" % patch, wt)
                if rc != 0:
                    print(json.dumps({"id": sid, "status": "patch-does-not-apply", "detail": out[-300:]}), flush=True)
                    continue
                cid = other or prop
                t0 = time.time()
                rcc, outc = sh("%s/tools/run_on_tree.sh %s %s --tier %s" % (VERIF, wt, cid, tier), VERIF)
                lines = [l for l in outc.splitlines() if l.startswith(("VIOLATION", "SUMMARY", "KNOWN-FINDING", "INCONCLUSIVE"))]
                sigs = []
                rdir = wt + ".harness/out/replays"
                if os.path.isdir(rdir):
                    for f in sorted(os.listdir(rdir)):
                        try:
                            sigs.append(json.load(open(os.path.join(rdir, f)))["signature"])
                        except Exception:
                            pass
                    shutil.rmtree(rdir, ignore_errors=True)
                sigs = sorted(set(sigs))
                caught = rcc == 1
                rec = {"id": sid, "check": cid, "rc": rcc, "caught": caught, "signatures": sigs[:8],
                       "wall_s": round(time.time() - t0), "tail": [l for l in lines if not l.startswith("VIOLATION")][-3:]}
                if rcc not in (0, 1):
                    rec["output_tail"] = outc[-1500:]
                print(json.dumps(rec), flush=True)
                w = meta.setdefault("what_i_ran", {})
                txt = "./check %s --tier %s on the changed tree (repo %s + change) -> exit %s; signatures %s" % (cid, tier, head, rcc, sigs[:8])
                if rcc in (0, 1):
                    if other:
                        if caught:
                            w["caught_by_other_check"] = cid
                            w["other_check"] = txt
                    else:
                        if w.get("caught_by_check") is False or w.get("after_strengthening"):
                            w.setdefault("first_check", w.get("check"))
                            if caught:
                                w["after_strengthening"] = True
                                w["check_signatures_after_strengthening"] = sigs[:8]
                        w["check"] = txt
                        w["caught_by_check"] = caught
                        w["repo_revision_of_last_check"] = head
                    json.dump(meta, open(metaf, "w"), indent=1)
                sh("git checkout -- . && git clean -fdq", wt)
        finally:
            if not keep:
                sh("git -C /repo worktree remove --force %s" % wt)
                shutil.rmtree(wt + ".harness", ignore_errors=True)
                sh("git -C /repo worktree prune")


if __name__ == "__main__":
    main()
