#!/usr/bin/env python3
"""Compare a nextest junit.xml with /root/.vp/BASELINE.json: every stable_pass test must pass.
usage: compare_baseline.py <junit.xml>"""
import json, sys, xml.etree.ElementTree as ET
b = json.load(open('/root/.vp/BASELINE.json'))
stable = set(b['stable_pass'])
passed, failed = set(), set()
for tc in ET.parse(sys.argv[1]).getroot().iter('testcase'):
    tid = (tc.get('classname') or '') + '::' + (tc.get('name') or '')
    if tc.find('failure') is not None or tc.find('error') is not None or tc.find('flakyFailure') is not None or tc.find('rerunFailure') is not None:
        failed.add(tid)
    elif tc.find('skipped') is None:
        passed.add(tid)
passed -= failed
missing = sorted(stable - passed)
print("stable_pass: %d, passed now: %d, stable tests not passing now: %d" % (len(stable), len(passed), len(missing)))
for m in missing[:50]:
    print("  NOT PASSING:", m, "(failed)" if m in failed else "(not run)")
print("failed now (any):", sorted(failed))
sys.exit(1 if missing else 0)
