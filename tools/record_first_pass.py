#!/usr/bin/env python3
"""Add the first-evaluation verdicts of newly confirmed seeded changes (scratch/eval_<tag>-<ID>.json, written by
eval_mutations.py) to seeded/FIRST_PASS.json. An id that is already recorded is never rewritten."""
import glob, json, os
V = os.path.dirname(os.path.dirname(os.path.abspath(__file__)))
fpf = os.path.join(V, "seeded", "FIRST_PASS.json")
fp = json.load(open(fpf))
n = 0
for f in sorted(glob.glob(os.path.join(V, "scratch", "eval_*.json"))):
    for r in json.load(open(f)):
        if not r.get("confirmed") or r["id"] in fp["first_pass"] or r.get("check_rc") not in (0, 1):
            continue
        if not os.path.isdir(os.path.join(V, "seeded", r["id"])):
            continue
        fp["first_pass"][r["id"]] = {"caught_at_first": bool(r.get("caught")), "first_signatures": (r.get("check_signatures") or [])[:6]}
        n += 1
fp["_comment"] = "Result of the FIRST evaluation of every confirmed seeded change against the check of its property as it was at that time (before any strengthening prompted by that change). Wave 1 = ids <P>-<k>, wave n = <P>-w<n>-<k>."
json.dump(fp, open(fpf, "w"), indent=1)
print("added", n)
