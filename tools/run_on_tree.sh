#!/bin/bash
# Run a check against another source tree (a scratch worktree with a seeded change) without touching
# /repo or /verif's evidence:   tools/run_on_tree.sh <tree> <ID> [check args...]
# A copy of the harness sources is made under <tree>.harness with its path dependencies pointing at
# <tree>; build output and results live there too. Remove <tree>.harness when done.
set -e
TREE=$(realpath "$1"); ID=$2; shift 2
H="$TREE.harness"
mkdir -p "$H"
rsync -a --delete --exclude 'target*' /verif/harness/ "$H/src/"
find "$H/src" -name Cargo.toml -exec sed -i "s#\"/repo/#\"$TREE/#g" {} +
mkdir -p "$H/out"
VERIF_HARNESS_DIR="$H/src" VERIF_OUT_DIR="$H/out" /verif/check "$ID" "$@"
