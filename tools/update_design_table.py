#!/usr/bin/env python3
"""Regenerate the table between the SEEDED-TABLE markers of DESIGN.md from tools/seeded_table.py."""
import os, subprocess, sys
V = os.path.dirname(os.path.dirname(os.path.abspath(__file__)))
p = subprocess.run([sys.executable, os.path.join(V, "tools", "seeded_table.py")], stdout=subprocess.PIPE, stderr=subprocess.PIPE, text=True)
tab = p.stdout.strip() + "\n\n" + p.stderr.strip() + "\n"
d = os.path.join(V, "DESIGN.md")
s = open(d).read()
b, e = "<!-- SEEDED-TABLE-BEGIN -->", "<!-- SEEDED-TABLE-END -->"
i, j = s.index(b) + len(b), s.index(e)
open(d, "w").write(s[:i] + "\n" + tab + s[j:])
print(p.stderr.strip())
