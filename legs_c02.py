"""C02 strace leg: kill a real checkpoint() at every write / openat / rename / ftruncate syscall it
makes and recover from what is on disk. A checkpoint does not change the store's state, and all
writes before it were acknowledged under immediate sync, so recovery must always yield exactly the
state the child printed before the checkpoint began - whichever syscall the crash fell on."""
import os, re, subprocess, shutil, time, random

CLASSES = ["write", "openat", "rename", "ftruncate", "fsync", "unlink"]
TRACE = "trace=openat,write,rename,renameat,renameat2,fsync,fdatasync,unlink,unlinkat,newfstatat,statx,stat,ftruncate,truncate"


def run(cmd, timeout=120):
    return subprocess.run(cmd, stdout=subprocess.PIPE, stderr=subprocess.PIPE, text=True, timeout=timeout)


def sysname(line):
    m = re.match(r"^(?:\d+\s+)?(\w+)\(", line)
    return m.group(1) if m else None


def ckpt_kill_leg(ctx):
    binp = ctx["build"]({"name": "native", "build": "native"})
    t0 = time.time()  # the budget covers the workload, not a (re)build of the binary
    rnd = random.Random(ctx["seed"] * 31 + 5)
    budget = ctx["budget"] or (40 if ctx["tier"] == "quick" else 600)
    trials = 10 if ctx["tier"] == "quick" else 80
    res = {"evaluations": 0, "distinct_nontrivial": 0, "samples": [], "counters": {}, "violations": [], "violations_total": 0,
           "inconclusive": 0, "inconclusive_reasons": {}, "floors_unmet": [],
           "rule": "strace kill-injection on TensorStore::checkpoint: a child does seeded durable writes, a first checkpoint, more writes and then a second checkpoint to the same path; the second checkpoint is killed before its k-th write / openat / rename / ftruncate / fsync / unlink syscall for every k, then a fresh process recovers from the directory; the recovered view hash must equal the hash the child printed before the checkpoint. Distinct = (trial, syscall class, k).",
           "assumptions": ["process kill model (completed syscalls are on disk)"]}
    c = res["counters"]
    seen = set()

    def over_budget():
        # the budget ends the workload only once the non-vacuity floor is met (a loaded machine
        # must not turn the leg into 'observed nothing'); hard stop at six times the budget
        el = time.time() - t0
        return el > budget and (c.get("kills_injected", 0) >= 20 or el > 6 * budget)
    for trial in range(trials):
        if over_budget():
            c["budget_stops"] = c.get("budget_stops", 0) + 1
            break
        seed = rnd.randrange(1 << 40)
        d = os.path.join(ctx["scratch"], "c02k-%d" % trial)
        shutil.rmtree(d, ignore_errors=True)
        os.makedirs(d)
        tr = os.path.join(d, "trace.txt")
        p = run(["strace", "-f", "-y", "-o", tr, "-e", TRACE, binp, "child-ckpt", d, str(seed)])
        if p.returncode != 0 or "CHECKPOINT_DONE" not in p.stdout:
            res["inconclusive"] += 1
            continue
        lines = open(tr, errors="replace").read().splitlines()
        b = next((i for i, l in enumerate(lines) if "MARK-BEGIN-CKPT" in l), None)
        e = next((i for i, l in enumerate(lines) if "MARK-END-CKPT" in l), None)
        if b is None or e is None:
            res["inconclusive"] += 1
            continue
        reg = lines[b + 1:e]
        c["syscalls_in_checkpoint_region"] = c.get("syscalls_in_checkpoint_region", 0) + len(reg)
        if len(res["samples"]) < 2:
            res["samples"].append({"checkpoint_syscalls": [l[:130] for l in reg[:14]]})
        for cls in CLASSES:
            before = sum(1 for l in lines[:b + 1] if sysname(l) == cls)
            inside = sum(1 for l in reg if sysname(l) == cls)
            for k in range(before + 1, before + inside + 1):
                if over_budget():
                    break
                d2 = os.path.join(ctx["scratch"], "c02kk")
                shutil.rmtree(d2, ignore_errors=True)
                os.makedirs(d2)
                q = run(["strace", "-f", "-o", "/dev/null", "-e", "trace=" + cls, "-e", "inject=%s:signal=SIGKILL:when=%d" % (cls, k), binp, "child-ckpt", d2, str(seed)])
                m = re.search(r"STATE_HASH=(\d+)", q.stdout)
                if "CHECKPOINT_DONE" in q.stdout or not m:
                    res["inconclusive"] += 1
                    res["inconclusive_reasons"]["injection did not kill inside the checkpoint"] = res["inconclusive_reasons"].get("injection did not kill inside the checkpoint", 0) + 1
                    continue
                h = run([binp, "child-recover", d2])
                res["evaluations"] += 1
                c["kills_injected"] = c.get("kills_injected", 0) + 1
                c["kills_at_" + cls] = c.get("kills_at_" + cls, 0) + 1
                seen.add((trial, cls, k - before))
                rp = {"strace": True, "seed": seed, "class": cls, "k": k}
                mh = re.search(r"RECOVERED_HASH=(\d+)", h.stdout)
                if not mh:
                    res["violations_total"] += 1
                    res["violations"].append({"signature": "checkpoint-kill:recovery-fails", "detail": "checkpoint killed before its %s #%d: %s" % (cls, k - before, h.stdout.strip()[:300]), "replay": rp})
                elif mh.group(1) != m.group(1):
                    res["violations_total"] += 1
                    res["violations"].append({"signature": "checkpoint-kill:recovered-state-differs", "detail": "checkpoint killed before its %s #%d: recovered state differs from the state before the checkpoint" % (cls, k - before), "replay": rp})
                else:
                    c["recovered_exact_state"] = c.get("recovered_exact_state", 0) + 1
        shutil.rmtree(d, ignore_errors=True)
    res["violations"] = res["violations"][:12]
    res["distinct_nontrivial"] = len(seen)
    if c.get("kills_injected", 0) < 10:
        res["floors_unmet"].append({"what": "kills_injected", "have": c.get("kills_injected", 0), "need": 10})
    res["wall_s"] = time.time() - t0
    return res
