//! shared helpers
