//! C20 — encoders and decoders are exact inverses and reject garbage safely.
//!
//! Everything below drives the REAL codecs of /repo; the only models are the values that were
//! encoded (round trip) and small structural predicates (validity of a decoded value).
//!
//! Round-trip parts (in-process, `par_cases`; a panic is a violation):
//!   ids      compress_ids/decompress_ids (+delta_*, varint_*): empty, single, sorted, duplicate,
//!            unsorted, descending, maximal lists
//!   rle      rle_encode/rle_decode over i64 / u8 / String, RleEncoded through bitcode
//!   sparse   SparseVector from_dense/to_dense, from_parts, bitcode
//!   vecfield format::compress_vector/decompress_vector for non-embedding fields (the path
//!            save_snapshot_compressed uses), format::Header / CompressedSnapshot (snapshot header)
//!   walstore / walraft / waltx   the three logs through their real open/append/reopen/replay
//!   frame    LengthDelimitedCodec v1/v2, compression on/off, every network::Message variant, every
//!            optional field both ways, frame limits around the encoded size, direct and streamed
//!   tcpcomp  tcp::compression methods, flags, Handshake
//!   validate the validation layer for decoded messages (message_validation.rs): boundary values in
//!            every numeric field x three sets of limits; no panic, documented limits enforced
//!   tt       tensor-train presets within their documented relative error on inputs whose TT-rank is
//!            below max_rank (rank-capped results are inconclusive)
//!   ttspec   the same presets and bound on the inputs that make the SVD inside tt_decompose work: dense
//!            vectors (uniform / gaussian) of the lengths whose preset shape cannot reach the rank cap
//!            (every unfolding is full-rank with clustered singular values), vectors with a prescribed
//!            spectrum at one unfolding and random orthonormal factors built in f64 (geometric, a close
//!            leading pair, evenly spaced 0.1-10 % apart, two clusters) and degenerate spectra (1-4
//!            spikes, +-1 vectors, exactly equal singular values or equal up to 1e-7..1e-3); same oracle
//!            (Err / panic / length / relative L2 error within the documented bound unless the returned
//!            ranks reach max_rank); the f64 spectrum of every judged input's unfoldings is measured and
//!            counted as evidence (how many judged inputs had leading singular values within 10 % / 0.01 %)
//!
//! Garbage parts (child processes, so that aborts / allocation failures are classified, not fatal):
//!   g-ids g-rle g-sparse g-snapfmt g-frame g-comp g-walstore g-walraft g-waltx g-snapfile
//!   random bytes, every/sampled truncation and single-bit flip of valid encodings, hostile length
//!   prefixes. Oracle: Err or a valid value; no panic; no abort; largest single allocation request
//!   within the decoder's declared limit (or c*input where none is declared).
//!   g-hostile g-hostfile   structurally VALID encodings of semantically hostile values, built with the
//!   crate's own encoders (compress_ids / compress_sparse / bitcode of the real containers, or of a
//!   field-for-field mirror whose byte identity with the real encoder is checked at run time):
//!   sparse fields whose position list is unsorted / duplicated / out of range (also before an
//!   in-range position) / above 32 bits, value counts that differ from position counts, dimensions
//!   0 / 1 / off by one / at and above SparseVector::MAX_DIMENSION, tensor-train fields whose cores do
//!   not chain (ranks, modes, data counts, shape, core count, zero ranks, overflowing shape products),
//!   run lengths without values, unsorted id lists. g-hostile decodes them as built and again after a
//!   trip through the snapshot container (decompress_vector / decompress_ints), and feeds the
//!   SparseVector wire form alone, in a sequence and inside a RequestVote frame to the real decoders;
//!   g-hostfile writes them into a snapshot file and loads it with TensorStore::load_snapshot_compressed.
//!   Oracle: Err or a valid value - no panic / abort / allocation above the ceiling, the declared
//!   dimension, SparseVector invariants on whatever is accepted; the members of every family whose
//!   encoded value is well defined (honest controls; sparse fields whose unique in-range pairs are
//!   merely listed out of order; paired run lengths; any id list) must decode, exactly.

use common::alloc as calloc;
use common::*;
use serde_json::{json, Value};
use std::alloc::{GlobalAlloc, Layout};
use std::collections::{BTreeMap, BTreeSet, HashMap};
use std::path::{Path, PathBuf};
use std::sync::atomic::{AtomicU64, AtomicUsize, Ordering};
use std::time::{Duration, Instant};

use tensor_chain::block::{Block, BlockHeader, Transaction, ValidatorSignature};
use tensor_chain::codebook::{CodebookEntry, GlobalCodebookSnapshot};
use tensor_chain::distributed_tx::TxPhase;
use tensor_chain::gossip::{GossipMessage, GossipNodeState};
use tensor_chain::membership::NodeHealth;
use tensor_chain::message_validation::{CompositeValidator, MessageValidationConfig, MessageValidator};
use tensor_chain::network::*;
use tensor_chain::partition_merge::{MembershipViewSummary, PartitionStateSummary, PendingTxState};
use tensor_chain::raft_wal::{RaftWal, RaftWalEntry, WalConfig as ChainWalConfig};
use tensor_chain::signing::{SignedGossipMessage, SignedMessage};
use tensor_chain::tcp::compression as tcpc;
use tensor_chain::tcp::{Handshake, LengthDelimitedCodec, TcpError};
use tensor_chain::tx_wal::{PrepareVoteKind, TxOutcome, TxWal, TxWalEntry};
use tensor_compress::format::{
    compress_vector, decompress_ints, decompress_vector, CompressedEntry, CompressedScalar, CompressedSnapshot,
    CompressedValue, Header,
};
use tensor_compress::{
    compress_ids, decompress_ids, delta_decode, delta_encode, rle_decode, rle_encode, tt_decompose, tt_reconstruct,
    varint_decode, varint_encode, CompressionConfig, RleEncoded, TTConfig, TTCore, TensorMode,
};
use tensor_store::wal::{SyncMode, TensorWal, WalConfig, WalEntry};
use tensor_store::{EntityId, ScalarValue, SparseVector, TensorData, TensorStore, TensorValue};

// ------------------------------------------------------------------------------------------------
// allocator: common::alloc::Counting (largest single request per thread) + an upper guard that
// refuses absurd requests in child processes so that they end in a classified abort, not in the
// machine's OOM killer
// ------------------------------------------------------------------------------------------------

struct Guard;
static REFUSE_ABOVE: AtomicUsize = AtomicUsize::new(usize::MAX);
static REFUSED_MAX: AtomicUsize = AtomicUsize::new(0);

unsafe impl GlobalAlloc for Guard {
    unsafe fn alloc(&self, l: Layout) -> *mut u8 {
        if l.size() > REFUSE_ABOVE.load(Ordering::Relaxed) {
            REFUSED_MAX.fetch_max(l.size(), Ordering::Relaxed);
            return std::ptr::null_mut();
        }
        calloc::Counting.alloc(l)
    }
    unsafe fn dealloc(&self, p: *mut u8, l: Layout) {
        calloc::Counting.dealloc(p, l)
    }
    unsafe fn alloc_zeroed(&self, l: Layout) -> *mut u8 {
        if l.size() > REFUSE_ABOVE.load(Ordering::Relaxed) {
            REFUSED_MAX.fetch_max(l.size(), Ordering::Relaxed);
            return std::ptr::null_mut();
        }
        calloc::Counting.alloc_zeroed(l)
    }
    unsafe fn realloc(&self, p: *mut u8, l: Layout, new: usize) -> *mut u8 {
        if new > REFUSE_ABOVE.load(Ordering::Relaxed) {
            REFUSED_MAX.fetch_max(new, Ordering::Relaxed);
            return std::ptr::null_mut();
        }
        calloc::Counting.realloc(p, l, new)
    }
}

#[global_allocator]
static ALLOC: Guard = Guard;

const GIB: usize = 1 << 30;
const SLACK: usize = 64 * 1024;
/// serde pre-allocates at most 1 MiB worth of elements for a sequence or map whose claimed length
/// it cannot trust yet (`size_hint::cautious`); for a `HashMap` that is 65 536 entries, which
/// hashbrown rounds up to 131 072 buckets plus control bytes (2.2 MB observed for
/// `PendingTxState::votes`). A constant, deliberate ceiling of every serde/bitcode decoder.
const SERDE_CAP: usize = 4 << 20;

/// Runs the code under test; returns its result (or the panic message) and the largest single
/// allocation the calling thread requested meanwhile (refused requests included).
fn measured<T>(f: impl FnOnce() -> T) -> (Result<T, String>, usize) {
    REFUSED_MAX.store(0, Ordering::Relaxed);
    calloc::thread_mark();
    let r = std::panic::catch_unwind(std::panic::AssertUnwindSafe(f));
    let largest = calloc::thread_largest().max(REFUSED_MAX.load(Ordering::Relaxed));
    (r.map_err(|e| panic_msg(&e)), largest)
}

fn hex(b: &[u8]) -> String {
    let mut s = String::with_capacity(b.len() * 2);
    for x in b.iter().take(4096) {
        s.push_str(&format!("{:02x}", x));
    }
    if b.len() > 4096 {
        s.push_str("...");
    }
    s
}

// ------------------------------------------------------------------------------------------------
// hostile value generators
// ------------------------------------------------------------------------------------------------

const U64_EDGES: [u64; 16] = [
    0,
    1,
    127,
    128,
    255,
    256,
    16383,
    16384,
    (1 << 32) - 1,
    1 << 32,
    (1 << 56) - 1,
    1 << 56,
    1 << 63,
    (1 << 63) - 1,
    u64::MAX - 1,
    u64::MAX,
];

fn g_u64(rng: &mut Rng) -> u64 {
    match rng.below(4) {
        0 => *rng.pick(&U64_EDGES),
        1 => rng.below(300) as u64,
        2 => rng.next_u64() >> rng.below(64),
        _ => rng.next_u64(),
    }
}
fn g_usize(rng: &mut Rng) -> usize {
    g_u64(rng) as usize
}

fn g_f32(rng: &mut Rng) -> f32 {
    const E: [u32; 14] = [
        0x0000_0000, // 0
        0x8000_0000, // -0
        0x3f80_0000, // 1
        0xbf80_0000, // -1
        0x0080_0000, // min positive normal
        0x0000_0001, // smallest denormal
        0x7f7f_ffff, // max
        0xff7f_ffff, // min
        0x7f80_0000, // inf
        0xff80_0000, // -inf
        0x7fc0_0000, // NaN
        0x7fc0_1234, // NaN with payload
        0xffc0_0001, // negative NaN with payload
        0x4b80_0000, // 2^24
    ];
    match rng.below(4) {
        0 => f32::from_bits(*rng.pick(&E)),
        1 => f32::from_bits(rng.next_u64() as u32),
        2 => rng.range(-50, 50) as f32,
        _ => rng.f64_in(-1.0, 1.0) as f32,
    }
}
fn g_f32_nonzero(rng: &mut Rng) -> f32 {
    loop {
        let x = g_f32(rng);
        if x != 0.0 {
            return x;
        }
    }
}
fn g_f64(rng: &mut Rng) -> f64 {
    match rng.below(4) {
        0 => *rng.pick(&[0.0, -0.0, 1.0, f64::MIN_POSITIVE, f64::MAX, f64::MIN, f64::INFINITY, f64::NEG_INFINITY, f64::NAN, 5e-324]),
        1 => f64::from_bits(rng.next_u64()),
        2 => rng.range(-1000, 1000) as f64,
        _ => rng.f64_in(-1.0, 1.0),
    }
}
fn g_vec_f32(rng: &mut Rng, max: usize) -> Vec<f32> {
    let n = match rng.below(6) {
        0 => 0,
        1 => 1,
        2 => rng.below(8),
        _ => rng.below(max + 1),
    };
    (0..n).map(|_| g_f32(rng)).collect()
}

fn g_string(rng: &mut Rng, max: usize) -> String {
    const PIECES: [&str; 10] = ["", "a", "node", "é", "日本", "\u{0}", "😀", " ", "emb:", "\u{10FFFF}"];
    match rng.below(6) {
        0 => String::new(),
        1 => (*rng.pick(&PIECES)).to_string(),
        2 => format!("n{}", rng.below(1000)),
        3 => {
            let k = rng.below(6);
            (0..k).map(|_| *rng.pick(&PIECES)).collect()
        }
        4 => "x".repeat(rng.below(max + 1)),
        _ => {
            let k = rng.below(max.min(40) + 1);
            (0..k).map(|_| (b'a' + rng.below(26) as u8) as char).collect()
        }
    }
}
fn g_node(rng: &mut Rng) -> String {
    g_string(rng, 300)
}
fn g_hash(rng: &mut Rng) -> [u8; 32] {
    let mut h = [0u8; 32];
    match rng.below(3) {
        0 => {}
        1 => h = [0xff; 32],
        _ => h.copy_from_slice(&rng.bytes(32)),
    }
    h
}
fn g_bytes(rng: &mut Rng, max: usize) -> Vec<u8> {
    let n = match rng.below(6) {
        0 => 0,
        1 => 1,
        2 => rng.below(64),
        _ => rng.below(max + 1),
    };
    match rng.below(4) {
        0 => vec![0u8; n],
        1 => (0..n).map(|i| (i % 7) as u8).collect(),
        2 => vec![0xff; n],
        _ => rng.bytes(n),
    }
}
fn g_vec<T>(rng: &mut Rng, max: usize, mut f: impl FnMut(&mut Rng) -> T) -> Vec<T> {
    let n = match rng.below(4) {
        0 => 0,
        1 => 1,
        _ => rng.below(max + 1),
    };
    (0..n).map(|_| f(rng)).collect()
}

/// a valid sparse vector (sorted unique positions below the dimension, non-zero values)
fn g_sparse(rng: &mut Rng) -> SparseVector {
    let dim: usize = match rng.below(6) {
        0 => 0,
        1 => 1,
        2 => 1 + rng.below(64),
        3 => 1 + rng.below(5000),
        4 => (1usize << 31) + rng.below(1000),
        _ => tensor_store::SPARSE_MAX_DIMENSION,
    };
    if dim == 0 {
        return SparseVector::new(0);
    }
    let want = match rng.below(4) {
        0 => 0,
        1 => 1,
        2 => rng.below(dim.min(16) + 1),
        _ => rng.below(dim.min(200) + 1),
    };
    let mut pos: BTreeSet<u32> = BTreeSet::new();
    for _ in 0..want {
        let p = match rng.below(4) {
            0 => 0u32,
            1 => (dim - 1) as u32,
            _ => rng.below(dim) as u32,
        };
        pos.insert(p);
    }
    let positions: Vec<u32> = pos.into_iter().collect();
    let values: Vec<f32> = positions.iter().map(|_| g_f32_nonzero(rng)).collect();
    SparseVector::from_parts(dim, positions, values)
}

#[derive(Default)]
struct OptStats {
    m: BTreeMap<String, (u64, u64)>, // field -> (some, none)
    variants: BTreeSet<String>,
}
impl OptStats {
    fn opt<T>(&mut self, rng: &mut Rng, field: &str, f: impl FnOnce(&mut Rng) -> T) -> Option<T> {
        let e = self.m.entry(field.to_string()).or_insert((0, 0));
        if rng.bool() {
            e.0 += 1;
            Some(f(rng))
        } else {
            e.1 += 1;
            None
        }
    }
    fn variant(&mut self, name: &str) {
        if !self.variants.contains(name) {
            self.variants.insert(name.to_string());
        }
    }
    fn flush(&mut self, r: &mut Report) {
        for (k, (s, n)) in std::mem::take(&mut self.m) {
            r.count(&format!("opt[{}]:some", k), s);
            r.count(&format!("opt[{}]:none", k), n);
        }
        for v in std::mem::take(&mut self.variants) {
            r.count(&format!("nested[{}]", v), 1);
        }
    }
}

// ------------------------------------------------------------------------------------------------
// network::Message generator (every variant; every optional field both ways)
// ------------------------------------------------------------------------------------------------

fn g_tx(rng: &mut Rng, st: &mut OptStats) -> Transaction {
    let k = rng.below(10);
    st.variant(&format!("Transaction#{}", k));
    match k {
        0 => Transaction::Put { key: g_string(rng, 64), data: g_bytes(rng, 300) },
        1 => Transaction::Delete { key: g_string(rng, 64) },
        2 => Transaction::Embed { key: g_string(rng, 64), vector: g_vec_f32(rng, 100) },
        3 => Transaction::NodeCreate { key: g_string(rng, 64), label: g_string(rng, 20) },
        4 => Transaction::NodeDelete { key: g_string(rng, 64) },
        5 => Transaction::EdgeCreate { from: g_string(rng, 20), to: g_string(rng, 20), edge_type: g_string(rng, 20) },
        6 => Transaction::TableInsert { table: g_string(rng, 20), values: g_bytes(rng, 200) },
        7 => Transaction::TableUpdate { table: g_string(rng, 20), row_id: g_u64(rng), values: g_bytes(rng, 200) },
        8 => Transaction::TableDelete { table: g_string(rng, 20), row_id: g_u64(rng) },
        _ => Transaction::CompareAndSwap { key: g_string(rng, 64), expected_data: g_bytes(rng, 100), new_data: g_bytes(rng, 100) },
    }
}

fn g_block(rng: &mut Rng, st: &mut OptStats) -> Block {
    if rng.chance(1, 5) {
        return Block::default();
    }
    let header = BlockHeader {
        height: g_u64(rng),
        prev_hash: g_hash(rng),
        tx_root: g_hash(rng),
        state_root: g_hash(rng),
        delta_embedding: g_sparse(rng),
        quantized_codes: g_vec(rng, 40, |r| r.next_u64() as u16),
        timestamp: g_u64(rng),
        proposer: g_node(rng),
        signature: g_bytes(rng, 80),
    };
    Block {
        header,
        transactions: g_vec(rng, 6, |r| g_tx(r, st)),
        signatures: g_vec(rng, 3, |r| ValidatorSignature { validator: g_node(r), signature: g_bytes(r, 70), block_hash: g_hash(r) }),
    }
}

fn g_config_change(rng: &mut Rng, st: &mut OptStats) -> ConfigChange {
    let k = rng.below(4);
    st.variant(&format!("ConfigChange#{}", k));
    match k {
        0 => ConfigChange::AddLearner { node_id: g_node(rng) },
        1 => ConfigChange::PromoteLearner { node_id: g_node(rng) },
        2 => ConfigChange::RemoveNode { node_id: g_node(rng) },
        _ => ConfigChange::JointChange { additions: g_vec(rng, 4, g_node), removals: g_vec(rng, 4, g_node) },
    }
}

fn g_codebook_change(rng: &mut Rng, st: &mut OptStats) -> CodebookChange {
    let dim = rng.below(6);
    let entries = g_vec(rng, 4, |r| {
        let mut e = CodebookEntry::new(r.next_u64() as u32, (0..dim).map(|_| g_f32(r)).collect());
        if let Some(l) = st.opt(r, "CodebookEntry.label", |r| g_string(r, 20)) {
            e = e.with_label(l);
        }
        e
    });
    CodebookChange::Replace { snapshot: GlobalCodebookSnapshot::new(dim, entries, g_u64(rng)) }
}

fn g_log_entry(rng: &mut Rng, st: &mut OptStats) -> LogEntry {
    LogEntry {
        term: g_u64(rng),
        index: g_u64(rng),
        block: g_block(rng, st),
        config_change: st.opt(rng, "LogEntry.config_change", |_| ()).map(|_| g_config_change(rng, &mut OptStats::default())),
        codebook_change: st.opt(rng, "LogEntry.codebook_change", |_| ()).map(|_| g_codebook_change(rng, &mut OptStats::default())),
    }
}

fn g_health(rng: &mut Rng) -> NodeHealth {
    match rng.below(4) {
        0 => NodeHealth::Healthy,
        1 => NodeHealth::Degraded,
        2 => NodeHealth::Failed,
        _ => NodeHealth::Unknown,
    }
}
fn g_node_state(rng: &mut Rng) -> GossipNodeState {
    GossipNodeState { node_id: g_node(rng), health: g_health(rng), timestamp: g_u64(rng), updated_at: g_u64(rng), incarnation: g_u64(rng) }
}
fn g_gossip(rng: &mut Rng, st: &mut OptStats) -> GossipMessage {
    let k = rng.below(7);
    st.variant(&format!("GossipMessage#{}", k));
    match k {
        0 => GossipMessage::Sync { sender: g_node(rng), states: g_vec(rng, 8, g_node_state), sender_time: g_u64(rng) },
        1 => GossipMessage::Suspect { reporter: g_node(rng), suspect: g_node(rng), incarnation: g_u64(rng) },
        2 => GossipMessage::Alive { node_id: g_node(rng), incarnation: g_u64(rng) },
        3 => GossipMessage::PingReq { origin: g_node(rng), target: g_node(rng), sequence: g_u64(rng) },
        4 => GossipMessage::PingAck { origin: g_node(rng), target: g_node(rng), sequence: g_u64(rng), success: rng.bool() },
        5 => GossipMessage::BidirectionalProbe { origin: g_node(rng), probe_id: g_u64(rng), timestamp: g_u64(rng) },
        _ => GossipMessage::BidirectionalAck { origin: g_node(rng), probe_id: g_u64(rng), responder: g_node(rng) },
    }
}
fn g_phase(rng: &mut Rng) -> TxPhase {
    match rng.below(6) {
        0 => TxPhase::Preparing,
        1 => TxPhase::Prepared,
        2 => TxPhase::Committing,
        3 => TxPhase::Committed,
        4 => TxPhase::Aborting,
        _ => TxPhase::Aborted,
    }
}
fn g_summary(rng: &mut Rng, st: &mut OptStats) -> PartitionStateSummary {
    PartitionStateSummary {
        node_id: g_node(rng),
        last_committed_index: g_u64(rng),
        last_committed_term: g_u64(rng),
        state_embedding: st.opt(rng, "PartitionStateSummary.state_embedding", g_sparse),
        committed_tx_ids: g_vec(rng, 10, g_u64),
        state_hash: g_hash(rng),
        entry_count: g_u64(rng),
    }
}
fn g_pending(rng: &mut Rng, st: &mut OptStats) -> PendingTxState {
    let mut votes = HashMap::new();
    for _ in 0..rng.below(6) {
        votes.insert(g_usize(rng), rng.bool());
    }
    PendingTxState {
        tx_id: g_u64(rng),
        phase: g_phase(rng),
        coordinator: g_node(rng),
        participants: g_vec(rng, 6, g_usize),
        votes,
        delta: st.opt(rng, "PendingTxState.delta", g_sparse),
        started_at: g_u64(rng),
    }
}

const N_MESSAGE_VARIANTS: usize = 33;

fn g_message(rng: &mut Rng, variant: usize, st: &mut OptStats) -> Message {
    // occasionally a large, compressible or incompressible body so that compression thresholds and
    // frame limits are crossed
    let big = rng.chance(1, 6);
    let blob = |rng: &mut Rng| if big { g_bytes(rng, 200_000) } else { g_bytes(rng, 600) };
    match variant % N_MESSAGE_VARIANTS {
        0 => Message::RequestVote(RequestVote { term: g_u64(rng), candidate_id: g_node(rng), last_log_index: g_u64(rng), last_log_term: g_u64(rng), state_embedding: g_sparse(rng) }),
        1 => Message::RequestVoteResponse(RequestVoteResponse { term: g_u64(rng), vote_granted: rng.bool(), voter_id: g_node(rng) }),
        2 => Message::PreVote(PreVote { term: g_u64(rng), candidate_id: g_node(rng), last_log_index: g_u64(rng), last_log_term: g_u64(rng), state_embedding: g_sparse(rng) }),
        3 => Message::PreVoteResponse(PreVoteResponse { term: g_u64(rng), vote_granted: rng.bool(), voter_id: g_node(rng) }),
        4 => Message::TimeoutNow(TimeoutNow { term: g_u64(rng), leader_id: g_node(rng) }),
        5 => Message::AppendEntries(AppendEntries {
            term: g_u64(rng),
            leader_id: g_node(rng),
            prev_log_index: g_u64(rng),
            prev_log_term: g_u64(rng),
            entries: g_vec(rng, if big { 40 } else { 4 }, |r| g_log_entry(r, st)),
            leader_commit: g_u64(rng),
            block_embedding: st.opt(rng, "AppendEntries.block_embedding", g_sparse),
        }),
        6 => Message::AppendEntriesResponse(AppendEntriesResponse { term: g_u64(rng), success: rng.bool(), follower_id: g_node(rng), match_index: g_u64(rng), used_fast_path: rng.bool() }),
        7 => Message::BlockRequest(BlockRequest { from_height: g_u64(rng), to_height: g_u64(rng), requester_id: g_node(rng) }),
        8 => Message::BlockResponse(BlockResponse { blocks: g_vec(rng, if big { 30 } else { 3 }, |r| g_block(r, st)), current_height: g_u64(rng) }),
        9 => Message::SnapshotRequest(SnapshotRequest { requester_id: g_node(rng), offset: g_u64(rng), chunk_size: g_u64(rng) }),
        10 => Message::SnapshotResponse(SnapshotResponse { snapshot_height: g_u64(rng), snapshot_hash: g_hash(rng), data: blob(rng), offset: g_u64(rng), total_size: g_u64(rng), is_last: rng.bool() }),
        11 => Message::Ping { term: g_u64(rng) },
        12 => Message::Pong { term: g_u64(rng) },
        13 => Message::TxPrepare(TxPrepareMsg { tx_id: g_u64(rng), coordinator: g_node(rng), shard_id: g_usize(rng), operations: g_vec(rng, 6, |r| g_tx(r, st)), delta_embedding: g_sparse(rng), timeout_ms: g_u64(rng) }),
        14 => {
            let k = rng.below(3);
            st.variant(&format!("TxVote#{}", k));
            let vote = match k {
                0 => TxVote::Yes { lock_handle: g_u64(rng), delta: g_sparse(rng), affected_keys: g_vec(rng, 5, |r| g_string(r, 30)) },
                1 => TxVote::No { reason: g_string(rng, 60) },
                _ => TxVote::Conflict { similarity: g_f32(rng), conflicting_tx: g_u64(rng) },
            };
            Message::TxPrepareResponse(TxPrepareResponseMsg { tx_id: g_u64(rng), shard_id: g_usize(rng), vote })
        }
        15 => Message::TxCommit(TxCommitMsg { tx_id: g_u64(rng), shards: g_vec(rng, 8, g_usize) }),
        16 => Message::TxAbort(TxAbortMsg { tx_id: g_u64(rng), reason: g_string(rng, 60), shards: g_vec(rng, 8, g_usize) }),
        17 => Message::TxAck(TxAckMsg { tx_id: g_u64(rng), shard_id: g_usize(rng), success: rng.bool(), error: st.opt(rng, "TxAckMsg.error", |r| g_string(r, 60)) }),
        18 => Message::QueryRequest(QueryRequest { query_id: g_u64(rng), query: g_string(rng, 400), shard_id: g_usize(rng), embedding: st.opt(rng, "QueryRequest.embedding", g_sparse), timeout_ms: g_u64(rng) }),
        19 => Message::QueryResponse(QueryResponse { query_id: g_u64(rng), shard_id: g_usize(rng), result: blob(rng), execution_time_us: g_u64(rng), success: rng.bool(), error: st.opt(rng, "QueryResponse.error", |r| g_string(r, 60)) }),
        20 => Message::Gossip(g_gossip(rng, st)),
        21 => Message::SignedGossip(SignedGossipMessage {
            envelope: SignedMessage { sender: g_node(rng), public_key: g_hash(rng), payload: g_bytes(rng, 300), signature: g_bytes(rng, 70), sequence: g_u64(rng), timestamp_ms: g_u64(rng) },
        }),
        22 => Message::MergeInit(MergeInit { session_id: g_u64(rng), initiator: g_node(rng), healed_nodes: g_vec(rng, 5, g_node), local_summary: g_summary(rng, st) }),
        23 => Message::MergeAck(MergeAck {
            session_id: g_u64(rng),
            responder: g_node(rng),
            accepted: rng.bool(),
            local_summary: st.opt(rng, "MergeAck.local_summary", |_| ()).map(|_| g_summary(rng, &mut OptStats::default())),
            reject_reason: st.opt(rng, "MergeAck.reject_reason", |r| g_string(r, 60)),
        }),
        24 => Message::ViewExchange(MergeViewExchange {
            session_id: g_u64(rng),
            sender: g_node(rng),
            view: MembershipViewSummary { node_id: g_node(rng), lamport_time: g_u64(rng), node_states: g_vec(rng, 8, g_node_state), state_hash: g_hash(rng), generation: g_u64(rng) },
        }),
        25 => Message::DataMergeRequest(DataMergeRequest { session_id: g_u64(rng), requester: g_node(rng), last_committed_index: g_u64(rng), last_committed_term: g_u64(rng), key_patterns: g_vec(rng, 5, |r| g_string(r, 40)) }),
        26 => Message::DataMergeResponse(DataMergeResponse {
            session_id: g_u64(rng),
            responder: g_node(rng),
            delta_entries: g_vec(rng, if big { 300 } else { 6 }, |r| MergeDeltaEntry {
                key: g_string(r, 40),
                log_index: g_u64(r),
                log_term: g_u64(r),
                op_type: *r.pick(&[MergeOpType::Put, MergeOpType::Delete, MergeOpType::Update]),
                data_hash: g_hash(r),
            }),
            state_embedding: st.opt(rng, "DataMergeResponse.state_embedding", g_sparse),
            has_more: rng.bool(),
        }),
        27 => Message::TxReconcileRequest(TxReconcileRequest { session_id: g_u64(rng), requester: g_node(rng), pending_txs: g_vec(rng, 4, |r| g_pending(r, st)) }),
        28 => Message::TxReconcileResponse(TxReconcileResponse { session_id: g_u64(rng), responder: g_node(rng), pending_txs: g_vec(rng, 4, |r| g_pending(r, st)), to_commit: g_vec(rng, 6, g_u64), to_abort: g_vec(rng, 6, g_u64) }),
        29 => Message::MergeFinalize(MergeFinalize { session_id: g_u64(rng), sender: g_node(rng), success: rng.bool(), final_state_hash: g_hash(rng), conflicts_resolved: rng.next_u64() as u32, duration_ms: g_u64(rng) }),
        // the remaining indices revisit the variants with the most structure
        30 => g_message(rng, 5, st),
        31 => g_message(rng, 8, st),
        _ => g_message(rng, 23, st),
    }
}

/// Canonical text of a message: `Debug` (exact for every non-NaN float) except that the one
/// `HashMap` inside `PendingTxState` is printed in key order.
fn canon_pending(p: &PendingTxState) -> String {
    let votes: BTreeMap<usize, bool> = p.votes.iter().map(|(k, v)| (*k, *v)).collect();
    format!("PendingTxState{{{} {:?} {:?} {:?} {:?} {:?} {}}}", p.tx_id, p.phase, p.coordinator, p.participants, votes, p.delta, p.started_at)
}
fn canon_message(m: &Message) -> String {
    match m {
        Message::TxReconcileRequest(r) => {
            format!("TxReconcileRequest{{{} {:?} [{}]}}", r.session_id, r.requester, r.pending_txs.iter().map(canon_pending).collect::<Vec<_>>().join(","))
        }
        Message::TxReconcileResponse(r) => format!(
            "TxReconcileResponse{{{} {:?} [{}] {:?} {:?}}}",
            r.session_id,
            r.responder,
            r.pending_txs.iter().map(canon_pending).collect::<Vec<_>>().join(","),
            r.to_commit,
            r.to_abort
        ),
        other => format!("{:?}", other),
    }
}
fn message_has_hashmap(m: &Message) -> bool {
    matches!(m, Message::TxReconcileRequest(_) | Message::TxReconcileResponse(_))
}
/// first position where two canonical texts differ, with a little context
fn first_diff(a: &str, b: &str) -> String {
    let ab = a.as_bytes();
    let bb = b.as_bytes();
    let mut i = 0;
    while i < ab.len() && i < bb.len() && ab[i] == bb[i] {
        i += 1;
    }
    let lo = i.saturating_sub(40);
    let cut = |s: &[u8]| -> String { String::from_utf8_lossy(&s[lo.min(s.len())..(lo + 120).min(s.len())]).into_owned() };
    format!("at byte {}: encoded ...{}... vs decoded ...{}...", i, cut(ab), cut(bb))
}

// ------------------------------------------------------------------------------------------------
// log-record generators and NaN-aware / map-order-free canonical forms
// ------------------------------------------------------------------------------------------------

fn bits32(v: &[f32]) -> String {
    let mut s = String::with_capacity(v.len() * 9);
    for x in v {
        s.push_str(&format!("{:08x},", x.to_bits()));
    }
    s
}
fn canon_sparse(s: &SparseVector) -> String {
    format!("Sparse(dim={},pos={:?},val={})", s.dimension(), s.positions(), bits32(s.values()))
}
fn canon_value(v: &TensorValue) -> String {
    match v {
        TensorValue::Scalar(ScalarValue::Float(f)) => format!("Float({:016x})", f.to_bits()),
        TensorValue::Scalar(s) => format!("{:?}", s),
        TensorValue::Vector(x) => format!("Vector({})", bits32(x)),
        TensorValue::Sparse(s) => canon_sparse(s),
        other => format!("{:?}", other),
    }
}
fn canon_tensor(t: &TensorData) -> String {
    let m: BTreeMap<&String, String> = t.fields_iter().map(|(k, v)| (k, canon_value(v))).collect();
    format!("{:?}", m)
}
fn canon_wal_entry(e: &WalEntry) -> String {
    match e {
        WalEntry::MetadataSet { key, data } => format!("MetadataSet({:?},{})", key, canon_tensor(data)),
        WalEntry::EmbeddingSet { entity_id, embedding } => format!("EmbeddingSet({:?},{})", entity_id, bits32(embedding)),
        other => format!("{:?}", other),
    }
}

fn g_tensor_value(rng: &mut Rng) -> TensorValue {
    match rng.below(10) {
        0 => TensorValue::Scalar(ScalarValue::Null),
        1 => TensorValue::Scalar(ScalarValue::Bool(rng.bool())),
        2 => TensorValue::Scalar(ScalarValue::Int(g_u64(rng) as i64)),
        3 => TensorValue::Scalar(ScalarValue::Float(g_f64(rng))),
        4 => TensorValue::Scalar(ScalarValue::String(g_string(rng, 200))),
        5 => TensorValue::Scalar(ScalarValue::Bytes(g_bytes(rng, 400))),
        6 => TensorValue::Vector(g_vec_f32(rng, 500)),
        7 => TensorValue::Sparse(g_sparse(rng)),
        8 => TensorValue::Pointer(g_string(rng, 40)),
        _ => TensorValue::Pointers(g_vec(rng, 5, |r| g_string(r, 40))),
    }
}
fn g_tensor(rng: &mut Rng) -> TensorData {
    let mut t = TensorData::new();
    for _ in 0..rng.below(7) {
        let name = match rng.below(4) {
            0 => "ids".to_string(),
            1 => "_embedding".to_string(),
            _ => g_string(rng, 20),
        };
        t.set(name, g_tensor_value(rng));
    }
    t
}
fn g_wal_entry(rng: &mut Rng, variant: usize) -> WalEntry {
    match variant % 10 {
        0 => WalEntry::MetadataSet { key: g_string(rng, 80), data: g_tensor(rng) },
        1 => WalEntry::MetadataDelete { key: g_string(rng, 80) },
        2 => WalEntry::EmbeddingSet { entity_id: EntityId(g_u64(rng)), embedding: g_vec_f32(rng, 800) },
        3 => WalEntry::EmbeddingDelete { entity_id: EntityId(g_u64(rng)) },
        4 => WalEntry::EntityCreate { key: g_string(rng, 80), entity_id: EntityId(g_u64(rng)) },
        5 => WalEntry::EntityRemove { key: g_string(rng, 80) },
        6 => WalEntry::TxBegin { tx_id: g_u64(rng) },
        7 => WalEntry::TxCommit { tx_id: g_u64(rng) },
        8 => WalEntry::TxAbort { tx_id: g_u64(rng) },
        _ => WalEntry::Checkpoint { snapshot_id: g_u64(rng) },
    }
}
fn g_raft_entry(rng: &mut Rng, variant: usize, st: &mut OptStats) -> RaftWalEntry {
    match variant % 7 {
        0 => RaftWalEntry::TermChange { new_term: g_u64(rng) },
        1 => RaftWalEntry::VoteCast { term: g_u64(rng), candidate_id: g_node(rng) },
        2 => RaftWalEntry::TermAndVote { term: g_u64(rng), voted_for: st.opt(rng, "RaftWalEntry.voted_for", g_node) },
        3 => RaftWalEntry::LogAppend { index: g_u64(rng), term: g_u64(rng), command_hash: g_hash(rng) },
        4 => RaftWalEntry::LogTruncate { from_index: g_u64(rng) },
        5 => RaftWalEntry::SnapshotTaken { last_included_index: g_u64(rng), last_included_term: g_u64(rng) },
        _ => RaftWalEntry::LogEntryFull { index: g_u64(rng), term: g_u64(rng), entry_data: {
                let cap = if rng.chance(1, 8) { 100_000 } else { 500 };
                g_bytes(rng, cap)
            },
        },
    }
}
fn g_txwal_entry(rng: &mut Rng, variant: usize) -> TxWalEntry {
    match variant % 7 {
        0 => TxWalEntry::TxBegin { tx_id: g_u64(rng), participants: g_vec(rng, 8, g_usize) },
        1 => TxWalEntry::PrepareVote { tx_id: g_u64(rng), shard: g_usize(rng), vote: if rng.bool() { PrepareVoteKind::Yes { lock_handle: g_u64(rng) } } else { PrepareVoteKind::No } },
        2 => TxWalEntry::PhaseChange { tx_id: g_u64(rng), from: g_phase(rng), to: g_phase(rng) },
        3 => TxWalEntry::TxComplete { tx_id: g_u64(rng), outcome: if rng.bool() { TxOutcome::Committed } else { TxOutcome::Aborted } },
        4 => TxWalEntry::LockRelease { tx_id: g_u64(rng), lock_handle: g_u64(rng) },
        5 => TxWalEntry::AllLocksReleased { tx_id: g_u64(rng) },
        _ => TxWalEntry::AbortIntent { tx_id: g_u64(rng), reason: g_string(rng, 200), shards: g_vec(rng, 8, g_usize) },
    }
}

// ------------------------------------------------------------------------------------------------
// part: ids
// ------------------------------------------------------------------------------------------------

fn is_sorted(v: &[u64]) -> bool {
    v.windows(2).all(|w| w[0] <= w[1])
}

fn gen_ids(rng: &mut Rng) -> (Vec<u64>, &'static str) {
    let cap = if rng.chance(1, 10) { 3000 } else { 30 };
    let n = 2 + rng.below(cap);
    match rng.below(11) {
        0 => (vec![], "empty"),
        1 => (vec![g_u64(rng)], "single"),
        2 => {
            let mut v: Vec<u64> = (0..n).map(|_| g_u64(rng)).collect();
            v.sort_unstable();
            v.dedup();
            (v, "sorted-unique")
        }
        3 => {
            let mut v: Vec<u64> = (0..n).map(|_| rng.below(20) as u64).collect();
            v.sort_unstable();
            (v, "sorted-duplicates")
        }
        4 => ((0..n).map(|_| rng.below(1000) as u64).collect(), "unsorted-small"),
        5 => ((0..n).map(|_| g_u64(rng)).collect(), "unsorted-any"),
        6 => {
            let mut v: Vec<u64> = (0..n).map(|_| g_u64(rng)).collect();
            v.sort_unstable_by(|a, b| b.cmp(a));
            (v, "descending")
        }
        7 => (vec![g_u64(rng); n], "all-equal"),
        8 => (vec![0, u64::MAX], "maximal-span"),
        9 => (vec![u64::MAX; 1 + rng.below(4)], "maximal-repeated"),
        _ => {
            // sorted except for one out-of-place element / one duplicate run
            let mut v: Vec<u64> = (0..n as u64).map(|i| i * 3 + 10).collect();
            let i = rng.below(v.len());
            v[i] = rng.below(40) as u64;
            (v, "nearly-sorted")
        }
    }
}

fn part_ids(case_seed: u64, r: &mut Report) {
    let mut rng = Rng::new(case_seed);
    let (ids, class) = gen_ids(&mut rng);
    r.count(&format!("ids[{}]", class), 1);
    let replay = json!({"part": "ids", "case_seed": case_seed});
    let show = |v: &[u64]| format!("{:?}{}", &v[..v.len().min(24)], if v.len() > 24 { "..." } else { "" });
    // the pieces
    let vi = varint_decode(&varint_encode(&ids));
    if vi != ids {
        r.violation("ids-roundtrip:varint-altered", format!("varint_decode(varint_encode(x)) != x for x = {} : got {}", show(&ids), show(&vi)), replay.clone());
        return;
    }
    let enc = compress_ids(&ids);
    let dec = decompress_ids(&enc);
    let dd = delta_decode(&delta_encode(&ids));
    if dec != ids || dd != ids {
        let sig = if is_sorted(&ids) { "ids-roundtrip:sorted-list-altered" } else { "ids-roundtrip:unsorted-list-altered" };
        r.violation(sig, format!("decompress_ids(compress_ids(x)) != x ({}): x = {} decoded = {}", class, show(&ids), show(&dec)), replay);
        return;
    }
    // every case also carries a short list built from the varint group boundaries: ids, or wrapping
    // gaps between consecutive ids, of 2^k - 1, 2^k and 2^k + 1 (an off-by-one at the edge of one
    // 7-bit group only shows for exactly that value). Drawn from a second stream so that the
    // cases above stay what they were.
    let mut brng = Rng::new(case_seed ^ 0xB0DA_7157_0C20);
    let edge = |rng: &mut Rng| -> u64 {
        let k = if rng.bool() { 7 * rng.below(10) } else { rng.below(64) };
        let base = if k >= 64 { 0u64 } else { 1u64 << k };
        match rng.below(3) {
            0 => base.wrapping_sub(1),
            1 => base,
            _ => base.wrapping_add(1),
        }
    };
    let nb = 1 + brng.below(6);
    let gaps: Vec<u64> = (0..nb).map(|_| edge(&mut brng)).collect();
    let edges: Vec<u64> = if brng.bool() {
        gaps.clone()
    } else {
        let mut acc = if brng.bool() { 0u64 } else { edge(&mut brng) };
        let mut v = vec![acc];
        for g in &gaps {
            acc = acc.wrapping_add(*g);
            v.push(acc);
        }
        v
    };
    r.count("ids[group-boundaries]", 1);
    let replay = json!({"part": "ids", "case_seed": case_seed});
    let vb = varint_decode(&varint_encode(&edges));
    if vb != edges {
        r.violation("ids-roundtrip:varint-altered", format!("varint_decode(varint_encode(x)) != x for x = {} : got {} (encoded {:?})", show(&edges), show(&vb), varint_encode(&edges)), replay);
        return;
    }
    let eb = compress_ids(&edges);
    let db = decompress_ids(&eb);
    if db != edges || delta_decode(&delta_encode(&edges)) != edges {
        let sig = if is_sorted(&edges) { "ids-roundtrip:sorted-list-altered" } else { "ids-roundtrip:unsorted-list-altered" };
        r.violation(sig, format!("decompress_ids(compress_ids(x)) != x (group-boundaries): x = {} decoded = {}", show(&edges), show(&db)), replay);
        return;
    }
    r.count("ids_elements_checked", (ids.len() + edges.len()) as u64);
    r.eval(hash_bytes(&eb) ^ 0xED6E, true);
    r.eval(hash_bytes(&enc) ^ ids.len() as u64, ids.len() >= 2);
    if r.want_sample() && ids.len() >= 2 && ids.len() < 12 {
        r.sample(json!({"part": "ids", "class": class, "ids": ids.iter().map(|x| x.to_string()).collect::<Vec<_>>(), "encoded_hex": hex(&enc)}));
    }
}

// ------------------------------------------------------------------------------------------------
// part: rle
// ------------------------------------------------------------------------------------------------

fn gen_runs<T: Clone>(rng: &mut Rng, mut val: impl FnMut(&mut Rng) -> T) -> Vec<T> {
    let runs = match rng.below(5) {
        0 => 0,
        1 => 1,
        _ => 1 + rng.below(30),
    };
    let mut out = Vec::new();
    let palette: Vec<T> = (0..3).map(|_| val(rng)).collect();
    for _ in 0..runs {
        let len = match rng.below(8) {
            0 => 1,
            1 => 255 + rng.below(3),
            2 => 65_535 + rng.below(3),
            3 => 1 + rng.below(100_000),
            _ => 1 + rng.below(6),
        };
        let v = if rng.bool() { rng.pick(&palette).clone() } else { val(rng) };
        for _ in 0..len {
            out.push(v.clone());
        }
        if out.len() > 400_000 {
            break;
        }
    }
    out
}

fn rle_check<T: Clone + Eq + std::fmt::Debug + serde::Serialize + serde::de::DeserializeOwned>(data: &[T], kind: &str, case_seed: u64, r: &mut Report) -> bool {
    let replay = json!({"part": "rle", "case_seed": case_seed});
    let enc = rle_encode(data);
    let dec = rle_decode(&enc);
    if dec.as_slice() != data || enc.len() != data.len() {
        let i = dec.iter().zip(data).position(|(a, b)| a != b).unwrap_or(dec.len().min(data.len()));
        r.violation(
            "rle-roundtrip:altered",
            format!("rle_decode(rle_encode(x)) != x for {} of length {}: decoded length {}, first difference at {}; runs {:?}", kind, data.len(), dec.len(), i, &enc.run_lengths[..enc.run_lengths.len().min(12)]),
            replay,
        );
        return false;
    }
    // the encoded form is what the snapshot format persists (through bitcode)
    match bitcode::serialize(&enc).map(|b| bitcode::deserialize::<RleEncoded<T>>(&b)) {
        Ok(Ok(back)) if back == enc => {}
        other => {
            r.violation("rle-roundtrip:bitcode-altered", format!("RleEncoded<{}> does not survive bitcode: {:?}", kind, other.map(|x| x.map(|y| y.run_lengths))), replay);
            return false;
        }
    }
    r.count("rle_elements_checked", data.len() as u64);
    r.count_max("max:rle_longest_run", enc.run_lengths.iter().copied().max().unwrap_or(0) as u64);
    true
}

fn part_rle(case_seed: u64, r: &mut Report) {
    let mut rng = Rng::new(case_seed);
    let kind = rng.below(3);
    let (ok, n, h) = match kind {
        0 => {
            let d = gen_runs(&mut rng, |r| g_u64(r) as i64);
            (rle_check(&d, "i64", case_seed, r), d.len(), hash_bytes(&d.iter().flat_map(|x| x.to_le_bytes()).collect::<Vec<u8>>()))
        }
        1 => {
            let d = gen_runs(&mut rng, |r| r.next_u64() as u8);
            (rle_check(&d, "u8", case_seed, r), d.len(), hash_bytes(&d))
        }
        _ => {
            let mut d = gen_runs(&mut rng, |r| g_string(r, 12));
            d.truncate(30_000);
            (rle_check(&d, "String", case_seed, r), d.len(), hash_str(&d.join("\u{1}")))
        }
    };
    if ok {
        r.count(&format!("rle[{}]", ["i64", "u8", "String"][kind]), 1);
        r.eval(h ^ n as u64, n >= 2);
    }
    // one case in eight also carries a very long run (2^k - 1, 2^k, 2^k + 1 elements, k = 16..22)
    // between two short ones: a run counter that is capped, split or narrowed loses elements only
    // beyond such an edge. Second random stream, so the cases above stay what they were.
    let mut lrng = Rng::new(case_seed ^ 0x10A6_0C20_517E);
    if ok && lrng.chance(1, 8) {
        let k = 16 + lrng.below(7);
        let len = ((1usize << k) as i64 + lrng.below(3) as i64 - 1) as usize;
        let a = lrng.next_u64() as u8;
        let mut d: Vec<u8> = vec![a.wrapping_add(1); lrng.below(4)];
        d.extend(std::iter::repeat(a).take(len));
        d.extend(std::iter::repeat(a.wrapping_add(2)).take(lrng.below(4)));
        if rle_check(&d, "u8 with a run at a power-of-two edge", case_seed, r) {
            r.count("rle[u8-long-run]", 1);
            r.eval(hash_bytes(&[a, k as u8]) ^ d.len() as u64, true);
        }
    }
}

// ------------------------------------------------------------------------------------------------
// part: sparse
// ------------------------------------------------------------------------------------------------

fn gen_dense(rng: &mut Rng) -> Vec<f32> {
    let n = match rng.below(6) {
        0 => 0,
        1 => 1,
        2 => rng.below(16),
        _ => rng.below(3000),
    };
    let density = *rng.pick(&[0u32, 1, 10, 50, 100]);
    (0..n).map(|_| if rng.chance(density, 100) { g_f32(rng) } else if rng.chance(1, 10) { -0.0 } else { 0.0 }).collect()
}

/// equality of a dense vector and its reconstruction: zeros are "absence" (the sign of a zero is
/// not information the format claims to keep); every non-zero element must come back bit for bit
fn dense_same(a: &[f32], b: &[f32]) -> Option<usize> {
    if a.len() != b.len() {
        return Some(a.len().min(b.len()));
    }
    a.iter().zip(b).position(|(x, y)| if *x == 0.0 { *y != 0.0 } else { x.to_bits() != y.to_bits() })
}

fn part_sparse(case_seed: u64, r: &mut Report) {
    let mut rng = Rng::new(case_seed);
    let replay = json!({"part": "sparse", "case_seed": case_seed});
    let dense = gen_dense(&mut rng);
    let sv = SparseVector::from_dense(&dense);
    let back = sv.to_dense();
    if let Some(i) = dense_same(&dense, &back) {
        r.violation(
            "sparse-roundtrip:dense-differs",
            format!("from_dense(x).to_dense() differs at {} (len {} vs {}): {:?} vs {:?}", i, dense.len(), back.len(), dense.get(i).map(|x| x.to_bits()), back.get(i).map(|x| x.to_bits())),
            replay,
        );
        return;
    }
    // bitcode of the three shapes: from_dense, generated (huge dimension), from_parts with shuffled input
    let gsv = g_sparse(&mut rng);
    let shuffled = {
        let mut idx: Vec<usize> = (0..sv.nnz()).collect();
        rng.shuffle(&mut idx);
        let p: Vec<u32> = idx.iter().map(|&i| sv.positions()[i]).collect();
        let v: Vec<f32> = idx.iter().map(|&i| sv.values()[i]).collect();
        SparseVector::from_parts(dense.len(), p, v)
    };
    if canon_sparse(&shuffled) != canon_sparse(&sv) {
        r.violation("sparse-roundtrip:from-parts-differs", format!("from_parts(shuffled parts of x) != x: {} vs {}", canon_sparse(&shuffled), canon_sparse(&sv)), replay);
        return;
    }
    for (name, s) in [("from_dense", &sv), ("generated", &gsv)] {
        let bytes = match bitcode::serialize(s) {
            Ok(b) => b,
            Err(e) => {
                r.violation("sparse-bitcode:serialize-error", format!("{}: {}", name, e), replay.clone());
                return;
            }
        };
        match bitcode::deserialize::<SparseVector>(&bytes) {
            Ok(d) if canon_sparse(&d) == canon_sparse(s) => {}
            Ok(d) => {
                r.violation("sparse-bitcode:differs", format!("{}: {} decoded as {}", name, canon_sparse(s), canon_sparse(&d)), replay.clone());
                return;
            }
            Err(e) => {
                r.violation("sparse-bitcode:decode-error", format!("{}: valid encoding of {} rejected: {}", name, canon_sparse(s), e), replay.clone());
                return;
            }
        }
    }
    r.count("sparse_dense_elements", dense.len() as u64);
    r.count("sparse_nonzeros", sv.nnz() as u64);
    r.eval(hash_str(&canon_sparse(&sv)) ^ hash_str(&canon_sparse(&gsv)), sv.nnz() >= 1 || gsv.nnz() >= 1);
    if r.want_sample() && dense.len() > 2 && dense.len() < 10 && sv.nnz() > 0 {
        r.sample(json!({"part": "sparse", "dense_bits": dense.iter().map(|x| format!("{:08x}", x.to_bits())).collect::<Vec<_>>(), "positions": sv.positions(), "generated": canon_sparse(&gsv)}));
    }
}

// ------------------------------------------------------------------------------------------------
// part: vecfield — the non-embedding vector path of the quantising snapshot format + its header
// ------------------------------------------------------------------------------------------------

fn g_compression_config(rng: &mut Rng) -> CompressionConfig {
    let tensor_mode = match rng.below(4) {
        0 => None,
        1 => Some(TensorMode::TensorTrain(TTConfig::for_dim(*rng.pick(&[64usize, 96, 384, 768])).unwrap())),
        2 => Some(TensorMode::TensorTrain(TTConfig::high_accuracy(*rng.pick(&[64usize, 128, 1000])).unwrap())),
        _ => Some(TensorMode::TensorTrain(TTConfig { shape: g_vec(rng, 4, |r| 1 + r.below(9)), max_rank: 1 + rng.below(20), tolerance: g_f32(rng) })),
    };
    CompressionConfig { tensor_mode, delta_encoding: rng.bool(), rle_encoding: rng.bool() }
}

fn value_eq_f32(a: &[f32], b: &[f32]) -> Option<usize> {
    if a.len() != b.len() {
        return Some(a.len().min(b.len()));
    }
    a.iter().zip(b).position(|(x, y)| !f32_eq_value(*x, *y))
}

fn part_vecfield(case_seed: u64, r: &mut Report) {
    let mut rng = Rng::new(case_seed);
    let replay = json!({"part": "vecfield", "case_seed": case_seed});
    // (a) header + whole-snapshot container through its own serialize/deserialize
    let cfg = g_compression_config(&mut rng);
    let mut entries = Vec::new();
    for _ in 0..rng.below(4) {
        let mut fields = BTreeMap::new();
        for _ in 0..rng.below(5) {
            let v = match rng.below(9) {
                0 => CompressedValue::Scalar(match rng.below(5) {
                    0 => CompressedScalar::Int(g_u64(&mut rng) as i64),
                    1 => CompressedScalar::Float(g_f64(&mut rng)),
                    2 => CompressedScalar::String(g_string(&mut rng, 50)),
                    3 => CompressedScalar::Bool(rng.bool()),
                    _ => CompressedScalar::Null,
                }),
                1 => CompressedValue::VectorRaw(g_vec_f32(&mut rng, 50)),
                2 => CompressedValue::VectorTT {
                    cores: g_vec(&mut rng, 3, |r| TTCore { data: g_vec_f32(r, 20), shape: (r.below(4), r.below(4), r.below(4)) }),
                    original_dim: g_usize(&mut rng),
                    shape: g_vec(&mut rng, 4, g_usize),
                    ranks: g_vec(&mut rng, 4, g_usize),
                },
                3 => CompressedValue::VectorSparse { dimension: g_usize(&mut rng), positions: g_bytes(&mut rng, 30), values: g_vec_f32(&mut rng, 20) },
                4 => CompressedValue::IdList(g_bytes(&mut rng, 40)),
                5 => CompressedValue::RleInt(RleEncoded { values: g_vec(&mut rng, 5, |r| g_u64(r) as i64), run_lengths: g_vec(&mut rng, 5, |r| r.next_u64() as u32) }),
                6 => CompressedValue::Pointer(g_string(&mut rng, 30)),
                _ => CompressedValue::Pointers(g_vec(&mut rng, 4, |r| g_string(r, 30))),
            };
            fields.insert(g_string(&mut rng, 12), v);
        }
        entries.push(CompressedEntry { key: g_string(&mut rng, 30), fields });
    }
    let snap = CompressedSnapshot { header: Header::new(cfg.clone(), g_u64(&mut rng)), entries };
    let want = format!("{:?}", snap);
    match snap.serialize() {
        Ok(bytes) => match CompressedSnapshot::deserialize(&bytes) {
            Ok(back) => {
                let got = format!("{:?}", back);
                // Debug is exact for every non-NaN float; NaN payloads are compared through the bytes
                if got != want || back.serialize().ok().as_deref() != Some(&bytes[..]) {
                    r.violation("snapshot-format-roundtrip:differs", format!("CompressedSnapshot changed across serialize/deserialize: {}", first_diff(&want, &got)), replay.clone());
                    return;
                }
            }
            Err(e) => {
                r.violation("snapshot-format-roundtrip:valid-snapshot-rejected", format!("deserialize(serialize(s)) failed: {} for header {:?}", e, snap.header), replay.clone());
                return;
            }
        },
        Err(e) => {
            r.violation("snapshot-format-roundtrip:serialize-error", format!("{}", e), replay.clone());
            return;
        }
    }
    r.count("snapshot_headers_roundtripped", 1);

    // (b) a vector field that is not an embedding must come back exactly (value equality: the id-list
    // path goes through integers, so the sign of a zero is not demanded)
    let no_tt = CompressionConfig { tensor_mode: None, delta_encoding: rng.bool(), rle_encoding: rng.bool() };
    let class = rng.below(7);
    let (field, vec, cname): (&str, Vec<f32>, &str) = match class {
        0 => ("ids", gen_ids(&mut rng).0.iter().map(|x| (x % (1 << 24)) as f32).collect(), "ids-field:integers-below-2^24"),
        1 => ("neighbor_ids", (0..rng.below(30)).map(|_| rng.below(100_000) as f32).collect(), "_ids-field:integers"),
        2 => ("weights", g_vec_f32(&mut rng, 60), "other-field:any-floats"),
        3 => {
            let mut v: Vec<f32> = (0..2 + rng.below(30)).map(|_| rng.below(1 << 20) as f32).collect();
            v.sort_by(|a, b| a.partial_cmp(b).unwrap());
            ("scores", v, "other-field:sorted-integers(id-heuristic)")
        }
        4 => {
            let mut v: Vec<f32> = (0..2 + rng.below(10)).map(|_| (rng.next_u64() >> rng.below(40)) as f32).collect();
            v.sort_by(|a, b| a.partial_cmp(b).unwrap());
            ("counts", v, "other-field:sorted-large-integers-below-2^64(id-heuristic)")
        }
        5 => {
            let mut v: Vec<f32> = (0..2 + rng.below(6)).map(|_| *rng.pick(&[0.0f32, 1.0, 3.0e19, 1.0e20, 2.5e30, f32::MAX])).collect();
            v.sort_by(|a, b| a.partial_cmp(b).unwrap());
            ("totals", v, "other-field:sorted-integers-above-2^64(id-heuristic)")
        }
        _ => ("ids", (0..1 + rng.below(10)).map(|_| *rng.pick(&[0.5f32, -1.0, 2.25, 7.0, 1.0e-3, -3.5])).collect(), "ids-field:non-integer-floats"),
    };
    r.count(&format!("vecfield[{}]", cname), 1);
    let key = if rng.bool() { "node:7" } else { "k" };
    match compress_vector(&vec, key, field, &no_tt).and_then(|c| decompress_vector(&c).map(|d| (c, d))) {
        Ok((c, d)) => {
            if let Some(i) = value_eq_f32(&vec, &d) {
                let how = match &c {
                    CompressedValue::IdList(_) => "IdList",
                    CompressedValue::VectorRaw(_) => "VectorRaw",
                    _ => "other",
                };
                // classified by what the evidence shows, not by the generator class
                let ids: Vec<u64> = vec.iter().map(|&f| f as u64).collect();
                let sig = if how != "IdList" {
                    "vecfield-roundtrip:vector-field-altered"
                } else if vec.iter().any(|f| !(*f >= 0.0) || f.fract() != 0.0) {
                    "vecfield-roundtrip:ids-named-field-truncates-non-integers"
                } else if vec.iter().any(|f| *f >= 18446744073709551616.0) {
                    "vecfield-roundtrip:id-heuristic-saturates-integers-above-u64"
                } else if is_sorted(&ids) {
                    "vecfield-roundtrip:sorted-id-field-altered"
                } else {
                    "vecfield-roundtrip:unsorted-id-field-altered"
                };
                r.violation(
                    sig,
                    format!("decompress_vector(compress_vector(v, key={:?}, field={:?}, delta_encoding={})) != v (stored as {}): differs at {}: v = {:?} decoded = {:?}", key, field, no_tt.delta_encoding, how, i, &vec[..vec.len().min(16)], &d[..d.len().min(16)]),
                    replay,
                );
                return;
            }
        }
        Err(e) => {
            r.violation("vecfield-roundtrip:error", format!("field {:?} {:?}: {}", field, vec, e), replay);
            return;
        }
    }
    r.count("vecfield_elements", vec.len() as u64);
    r.eval(hash_str(&want) ^ hash_str(&bits32(&vec)), !vec.is_empty() || !snap.entries.is_empty());
    if r.want_sample() && !snap.entries.is_empty() && want.len() < 600 {
        r.sample(json!({"part": "vecfield", "snapshot": want, "field": field, "vector": format!("{:?}", vec)}));
    }
}

// ------------------------------------------------------------------------------------------------
// parts: walstore / walraft / waltx — real open, append, reopen, replay
// ------------------------------------------------------------------------------------------------

static FILE_CTR: AtomicU64 = AtomicU64::new(0);
fn fresh_path(dir: &Path, tag: &str) -> PathBuf {
    dir.join(format!("{}-{}-{}.wal", tag, std::process::id(), FILE_CTR.fetch_add(1, Ordering::Relaxed)))
}
fn cleanup(p: &Path) {
    let _ = std::fs::remove_file(p);
    for i in 1..4 {
        let mut s = p.as_os_str().to_owned();
        s.push(format!(".{}", i));
        let _ = std::fs::remove_file(PathBuf::from(s));
    }
}

fn store_wal_config(rng: &mut Rng) -> WalConfig {
    let mut c = WalConfig::default();
    c.enable_checksums = !rng.chance(1, 4);
    c.verify_on_replay = !rng.chance(1, 6);
    c.sync_mode = match rng.below(3) {
        0 => SyncMode::Immediate,
        1 => SyncMode::Batched { max_entries: 1 + rng.below(5) },
        _ => SyncMode::Manual,
    };
    c
}
fn chain_wal_config(rng: &mut Rng) -> ChainWalConfig {
    let mut c = ChainWalConfig::default();
    c.enable_checksums = !rng.chance(1, 4);
    c.verify_on_replay = !rng.chance(1, 6);
    c.pre_check_space = false; // the machine's free space must not decide anything
    c
}

fn compare_logs(part: &str, want: &[String], got: &[String], case_seed: u64, r: &mut Report) -> bool {
    if want == got {
        return true;
    }
    let i = want.iter().zip(got).position(|(a, b)| a != b).unwrap_or(want.len().min(got.len()));
    let detail = format!(
        "appended {} records, replay returned {}; first difference at record {}: appended {} / replayed {}",
        want.len(),
        got.len(),
        i,
        want.get(i).map(|s| s.chars().take(300).collect::<String>()).unwrap_or("<none>".into()),
        got.get(i).map(|s| s.chars().take(300).collect::<String>()).unwrap_or("<none>".into())
    );
    r.violation(format!("{}-roundtrip:replay-differs", part), detail, json!({"part": part, "case_seed": case_seed}));
    false
}

fn part_walstore(case_seed: u64, dir: &Path, r: &mut Report) {
    let mut rng = Rng::new(case_seed);
    let replay = json!({"part": "walstore", "case_seed": case_seed});
    let cfg = store_wal_config(&mut rng);
    let n = 1 + rng.below(30);
    let start = rng.below(10);
    let entries: Vec<WalEntry> = (0..n).map(|i| g_wal_entry(&mut rng, start + i)).collect();
    let path = fresh_path(dir, "ws");
    let cut = rng.below(n + 1); // reopen after `cut` records
    let batch = rng.bool();
    let res: Result<Vec<WalEntry>, String> = (|| {
        let mut w = TensorWal::open(&path, cfg.clone()).map_err(|e| format!("open: {}", e))?;
        if batch {
            w.append_batch(&entries[..cut]).map_err(|e| format!("append_batch: {}", e))?;
        } else {
            for e in &entries[..cut] {
                w.append(e).map_err(|e| format!("append: {}", e))?;
            }
        }
        w.sync().map_err(|e| format!("sync: {}", e))?;
        drop(w);
        let mut w = TensorWal::open(&path, cfg.clone()).map_err(|e| format!("reopen: {}", e))?;
        for e in &entries[cut..] {
            w.append(e).map_err(|e| format!("append after reopen: {}", e))?;
        }
        w.sync().map_err(|e| format!("sync: {}", e))?;
        drop(w);
        let w = TensorWal::open(&path, cfg.clone()).map_err(|e| format!("open for replay: {}", e))?;
        w.replay().map_err(|e| format!("replay: {}", e))
    })();
    cleanup(&path);
    match res {
        Err(e) => r.violation("walstore-roundtrip:error", format!("valid records, default limits, checksums={} : {}", cfg.enable_checksums, e), replay),
        Ok(got) => {
            let want: Vec<String> = entries.iter().map(canon_wal_entry).collect();
            let gots: Vec<String> = got.iter().map(canon_wal_entry).collect();
            if compare_logs("walstore", &want, &gots, case_seed, r) {
                for e in &entries {
                    r.count(&format!("walstore[{}]", want_variant(&format!("{:?}", e))), 1);
                }
                r.count("walstore_records", n as u64);
                r.eval(hash_str(&want.join("|")), true);
                if r.want_sample() && n <= 3 {
                    r.sample(json!({"part": "walstore", "checksums": cfg.enable_checksums, "records": want}));
                }
            }
        }
    }
}
/// variant name = Debug text up to the first non-identifier character
fn want_variant(dbg: &str) -> String {
    dbg.chars().take_while(|c| c.is_alphanumeric()).collect()
}

fn part_walraft(case_seed: u64, dir: &Path, r: &mut Report) {
    let mut rng = Rng::new(case_seed);
    let replay = json!({"part": "walraft", "case_seed": case_seed});
    let cfg = chain_wal_config(&mut rng);
    let n = 1 + rng.below(25);
    let start = rng.below(7);
    let mut st = OptStats::default();
    let entries: Vec<RaftWalEntry> = (0..n).map(|i| g_raft_entry(&mut rng, start + i, &mut st)).collect();
    let path = fresh_path(dir, "wr");
    let cut = rng.below(n + 1);
    let res: Result<(Vec<RaftWalEntry>, u64), String> = (|| {
        let mut w = RaftWal::open_with_config(&path, cfg.clone()).map_err(|e| format!("open: {}", e))?;
        for e in &entries[..cut] {
            w.append(e).map_err(|e| format!("append: {}", e))?;
        }
        drop(w);
        let mut w = RaftWal::open_with_config(&path, cfg.clone()).map_err(|e| format!("reopen: {}", e))?;
        let counted = w.entry_count();
        for e in &entries[cut..] {
            w.append(e).map_err(|e| format!("append after reopen: {}", e))?;
        }
        drop(w);
        let w = RaftWal::open_with_config(&path, cfg.clone()).map_err(|e| format!("open for replay: {}", e))?;
        Ok((w.replay().map_err(|e| format!("replay: {}", e))?, counted))
    })();
    cleanup(&path);
    match res {
        Err(e) => r.violation("walraft-roundtrip:error", format!("valid records, checksums={} : {}", cfg.enable_checksums, e), replay),
        Ok((got, counted)) => {
            let want: Vec<String> = entries.iter().map(|e| format!("{:?}", e)).collect();
            let gots: Vec<String> = got.iter().map(|e| format!("{:?}", e)).collect();
            if counted != cut as u64 {
                r.violation("walraft-roundtrip:entry-count-after-reopen", format!("{} records appended, reopen counted {}", cut, counted), replay);
                return;
            }
            if compare_logs("walraft", &want, &gots, case_seed, r) {
                for e in &want {
                    r.count(&format!("walraft[{}]", want_variant(e)), 1);
                }
                st.flush(r);
                r.count("walraft_records", n as u64);
                r.eval(hash_str(&want.join("|")), true);
                if r.want_sample() && n <= 3 {
                    r.sample(json!({"part": "walraft", "checksums": cfg.enable_checksums, "records": want.iter().map(|s| s.chars().take(200).collect::<String>()).collect::<Vec<_>>()}));
                }
            }
        }
    }
}

fn part_waltx(case_seed: u64, dir: &Path, r: &mut Report) {
    let mut rng = Rng::new(case_seed);
    let replay = json!({"part": "waltx", "case_seed": case_seed});
    let cfg = chain_wal_config(&mut rng);
    let n = 1 + rng.below(25);
    let start = rng.below(7);
    let entries: Vec<TxWalEntry> = (0..n).map(|i| g_txwal_entry(&mut rng, start + i)).collect();
    let path = fresh_path(dir, "wt");
    let cut = rng.below(n + 1);
    let res: Result<(Vec<TxWalEntry>, u64), String> = (|| {
        let mut w = TxWal::open_with_config(&path, cfg.clone()).map_err(|e| format!("open: {}", e))?;
        for e in &entries[..cut] {
            w.append(e).map_err(|e| format!("append: {}", e))?;
        }
        drop(w);
        let mut w = TxWal::open_with_config(&path, cfg.clone()).map_err(|e| format!("reopen: {}", e))?;
        let counted = w.entry_count();
        for e in &entries[cut..] {
            w.append(e).map_err(|e| format!("append after reopen: {}", e))?;
        }
        drop(w);
        let w = TxWal::open_with_config(&path, cfg.clone()).map_err(|e| format!("open for replay: {}", e))?;
        Ok((w.replay().map_err(|e| format!("replay: {}", e))?, counted))
    })();
    cleanup(&path);
    match res {
        Err(e) => r.violation("waltx-roundtrip:error", format!("valid records, checksums={} : {}", cfg.enable_checksums, e), replay),
        Ok((got, counted)) => {
            let want: Vec<String> = entries.iter().map(|e| format!("{:?}", e)).collect();
            let gots: Vec<String> = got.iter().map(|e| format!("{:?}", e)).collect();
            if counted != cut as u64 {
                r.violation("waltx-roundtrip:entry-count-after-reopen", format!("{} records appended, reopen counted {}", cut, counted), replay);
                return;
            }
            if compare_logs("waltx", &want, &gots, case_seed, r) {
                for e in &want {
                    r.count(&format!("waltx[{}]", want_variant(e)), 1);
                }
                r.count("waltx_records", n as u64);
                r.eval(hash_str(&want.join("|")), true);
                if r.want_sample() && n <= 3 {
                    r.sample(json!({"part": "waltx", "checksums": cfg.enable_checksums, "records": want}));
                }
            }
        }
    }
}

// ------------------------------------------------------------------------------------------------
// part: frame — LengthDelimitedCodec v1/v2 x compression x every Message variant x limits
// ------------------------------------------------------------------------------------------------

fn rt() -> tokio::runtime::Runtime {
    tokio::runtime::Builder::new_current_thread().enable_time().build().expect("tokio runtime")
}

fn tcp_err_kind(e: &TcpError) -> &'static str {
    match e {
        TcpError::MessageTooLarge { .. } => "MessageTooLarge",
        TcpError::Serialization(_) => "Serialization",
        TcpError::InvalidFrame(_) => "InvalidFrame",
        TcpError::Io(_) => "Io",
        TcpError::HandshakeFailed(_) => "HandshakeFailed",
        TcpError::Timeout { .. } => "Timeout",
        _ => "other",
    }
}

#[derive(Clone, Debug)]
struct CodecSpec {
    max: usize,
    v2: bool,
    compress: bool,
    method_none: bool,
    min_size: usize,
}
fn make_codec(s: &CodecSpec) -> LengthDelimitedCodec {
    if !s.v2 && !s.compress {
        return LengthDelimitedCodec::new(s.max);
    }
    let mut cc = tcpc::CompressionConfig::default().with_min_size(s.min_size);
    if s.method_none {
        cc = cc.with_method(tcpc::CompressionMethod::None);
    }
    let mut c = LengthDelimitedCodec::with_compression(s.max, cc);
    c.set_compression_enabled(s.compress);
    c
}

fn part_frame(case_index: u64, case_seed: u64, r: &mut Report) {
    let mut rng = Rng::new(case_seed);
    let mut st = OptStats::default();
    let variant = (case_index as usize) % N_MESSAGE_VARIANTS;
    let msg = g_message(&mut rng, variant, &mut st);
    let tname = msg.type_name();
    let want = canon_message(&msg);
    let raw = match bitcode::serialize(&msg) {
        Ok(b) => b,
        Err(e) => {
            r.violation("frame:serialize-error", format!("{}: {}", tname, e), json!({"part": "frame", "case": case_index, "case_seed": case_seed}));
            return;
        }
    };
    // limits: generous, tight around the encoded size, or small
    let max = match rng.below(8) {
        0 => 16 * 1024 * 1024,
        1 => raw.len() + 1,
        2 => raw.len(),
        3 => raw.len().saturating_sub(1).max(1),
        4 => raw.len() + 2,
        5 => (raw.len() / 2).max(1),
        6 => 4096,
        _ => 1 << 20,
    };
    let spec = CodecSpec { max, v2: rng.bool(), compress: rng.bool(), method_none: rng.chance(1, 6), min_size: *rng.pick(&[0usize, 1, 256, 1 << 14]) };
    let spec = CodecSpec { compress: spec.compress && spec.v2, ..spec };
    let codec = make_codec(&spec);
    let replay = json!({"part": "frame", "case": case_index, "case_seed": case_seed});
    let ctx = format!("{} ({} B serialized) through {:?}", tname, raw.len(), spec);
    let enc = if spec.v2 { codec.encode_v2(&msg) } else { codec.encode(&msg) };
    let frame = match enc {
        Ok(f) => f,
        Err(e) => {
            let within = raw.len() + spec.v2 as usize <= spec.max;
            if within {
                r.violation("frame:encode-rejects-message-within-limit", format!("{}: encode failed with {} although payload+flags fit max_frame_length", ctx, e), replay);
            } else if !matches!(e, TcpError::MessageTooLarge { .. }) {
                r.violation("frame:encode-wrong-error", format!("{}: {}", ctx, e), replay);
            } else {
                // the limit is documented for the decoder as well: exactly this (valid, too long)
                // payload must be refused there too
                // (v2 counts the flags byte on the encoder side only; a payload of exactly
                // max_frame_length is therefore not demanded to be refused)
                let accepted = if raw.len() <= spec.max {
                    false
                } else if spec.v2 {
                    let mut p = vec![tcpc::flags::NONE];
                    p.extend_from_slice(&raw);
                    codec.decode_payload_v2(&p).is_ok()
                } else {
                    codec.decode_payload(&raw).is_ok()
                };
                if accepted {
                    r.violation("frame:decoder-accepts-payload-above-max-frame-length", format!("{}: a {} byte payload is decoded although max_frame_length is {}", ctx, raw.len(), spec.max), replay);
                    return;
                }
                r.count("frame_encode_too_large", 1);
                r.count("frame_oversize_payload_refused_by_decoder", 1);
                r.eval(hash_bytes(&raw), false);
            }
            return;
        }
    };
    // structure of the frame
    if frame.len() < 4 || u32::from_be_bytes([frame[0], frame[1], frame[2], frame[3]]) as usize != frame.len() - 4 {
        r.violation("frame:length-prefix-wrong", format!("{}: prefix {:?} for {} body bytes", ctx, &frame[..frame.len().min(4)], frame.len().saturating_sub(4)), replay);
        return;
    }
    let body = &frame[4..];
    if body.len() > spec.max {
        r.violation("frame:encode-exceeds-max-frame-length", format!("{}: frame body {} > {}", ctx, body.len(), spec.max), replay);
        return;
    }
    let compressed = spec.v2 && body[0] & 1 == 1;
    // direct decode
    let dec = if spec.v2 { codec.decode_payload_v2(body) } else { codec.decode_payload(body) };
    // streamed decode: this frame twice, then clean end of stream
    let mut stream = frame.clone();
    stream.extend_from_slice(&frame);
    let rtm = rt();
    let streamed: Result<Vec<Message>, String> = rtm.block_on(async {
        let mut rd: &[u8] = &stream;
        let mut out = Vec::new();
        loop {
            let x = if spec.v2 {
                if rng.bool() { codec.read_frame_v2(&mut rd).await } else { codec.read_frame_v2_with_timeout(&mut rd, Duration::from_secs(3600)).await }
            } else if rng.bool() {
                codec.read_frame(&mut rd).await
            } else {
                codec.read_frame_with_timeout(&mut rd, Duration::from_secs(3600)).await
            };
            match x {
                Ok(Some(m)) => out.push(m),
                Ok(None) => break,
                Err(e) => return Err(format!("{} ({})", e, tcp_err_kind(&e))),
            }
            if out.len() > 4 {
                return Err("more frames than written".into());
            }
        }
        Ok(out)
    });
    // written through the async writer must be the same bytes
    let written: Result<Vec<u8>, String> = rtm.block_on(async {
        let mut w: Vec<u8> = Vec::new();
        let x = if spec.v2 { codec.write_frame_v2(&mut w, &msg).await } else { codec.write_frame(&mut w, &msg).await };
        x.map(|_| w).map_err(|e| e.to_string())
    });
    if written.as_deref().ok() != Some(&frame[..]) {
        r.violation("frame:write_frame-differs-from-encode", format!("{}: {:?}", ctx, written.map(|w| w.len())), replay);
        return;
    }
    let check = |m: &Message, how: &str, r: &mut Report| -> bool {
        let got = canon_message(m);
        let bytes_same = message_has_hashmap(m) || bitcode::serialize(m).ok().as_deref() == Some(&raw[..]);
        if got != want || !bytes_same {
            r.violation("frame:decoded-differs", format!("{} [{}]: {}", ctx, how, first_diff(&want, &got)), replay.clone());
            return false;
        }
        true
    };
    match dec {
        Ok(m) => {
            if !check(&m, "decode_payload", r) {
                return;
            }
        }
        Err(e) => {
            let sig = if compressed && raw.len() > spec.max {
                "frame-v2:frame-accepted-by-encoder-rejected-by-decoder(decompressed>max_frame_length)"
            } else {
                "frame:frame-accepted-by-encoder-rejected-by-decoder"
            };
            r.violation(sig, format!("{}: encode produced a {} B frame body (compressed={}), decode of exactly those bytes fails: {}", ctx, body.len(), compressed, e), replay);
            return;
        }
    }
    match streamed {
        Ok(v) if v.len() == 2 => {
            for m in &v {
                if !check(m, "read_frame", r) {
                    return;
                }
            }
        }
        Ok(v) => {
            r.violation("frame:stream-frame-count", format!("{}: wrote 2 frames, read {}", ctx, v.len()), replay);
            return;
        }
        Err(e) => {
            r.violation("frame:stream-read-error", format!("{}: {}", ctx, e), replay);
            return;
        }
    }
    r.count(&format!("msg[{}]", tname), 1);
    r.count(if spec.v2 { "frame_v2" } else { "frame_v1" }, 1);
    if spec.v2 {
        r.count(if compressed { "frame_v2_compressed_on_wire" } else { "frame_v2_plain_on_wire" }, 1);
        r.count(if spec.compress { "frame_v2_compression_enabled" } else { "frame_v2_compression_disabled" }, 1);
    }
    if spec.max <= raw.len() + 2 {
        r.count("frame_limit_within_2_bytes_of_payload", 1);
    }
    st.flush(r);
    r.eval(hash_bytes(&raw) ^ hash_str(&format!("{:?}", spec)), true);
    if r.want_sample() && want.len() < 300 {
        r.sample(json!({"part": "frame", "message": want, "codec": format!("{:?}", spec), "frame_hex": hex(&frame[..frame.len().min(64)])}));
    }
}

// ------------------------------------------------------------------------------------------------
// part: tcpcomp — compression methods, flag byte, handshake
// ------------------------------------------------------------------------------------------------

fn part_tcpcomp(case_index: u64, case_seed: u64, thorough: bool, r: &mut Report) {
    let mut rng = Rng::new(case_seed);
    let replay = json!({"part": "tcpcomp", "case": case_index, "case_seed": case_seed});
    let methods = [tcpc::CompressionMethod::None, tcpc::CompressionMethod::Lz4];
    let method = methods[(case_index % 2) as usize];
    // sizes: mostly small, sometimes at the declared ceiling
    let big = if thorough { 40 } else { 400 };
    let n = if case_index % big == 7 {
        *rng.pick(&[tcpc::MAX_DECOMPRESSED_SIZE, tcpc::MAX_DECOMPRESSED_SIZE - 1, 1 << 20])
    } else {
        match rng.below(5) {
            0 => 0,
            1 => 1 + rng.below(4),
            2 => rng.below(300),
            _ => rng.below(70_000),
        }
    };
    let data: Vec<u8> = match rng.below(4) {
        0 => vec![rng.next_u64() as u8; n],
        1 => (0..n).map(|i| (i % 251) as u8).collect(),
        2 => {
            let w = rng.bytes(37);
            (0..n).map(|i| w[i % 37]).collect()
        }
        _ => rng.bytes(n),
    };
    let enc = tcpc::compress(&data, method);
    match tcpc::decompress(&enc, method) {
        Ok(d) if d == data => {}
        Ok(d) => {
            r.violation("tcpcomp:roundtrip-differs", format!("{:?}: {} bytes in, {} bytes out", method, data.len(), d.len()), replay);
            return;
        }
        Err(e) => {
            r.violation("tcpcomp:valid-data-rejected", format!("{:?}: decompress(compress(x)) failed for {} bytes (<= MAX_DECOMPRESSED_SIZE): {}", method, data.len(), e), replay);
            return;
        }
    }
    let f = tcpc::frame_flags(method);
    match tcpc::method_from_flags(f) {
        Ok(m) if m == method => {}
        other => {
            r.violation("tcpcomp:flags-roundtrip", format!("{:?} -> {:#x} -> {:?}", method, f, other), replay);
            return;
        }
    }
    // handshake
    let mut hs = Handshake::new(g_node(&mut rng));
    hs.protocol_version = 1 + rng.below(2) as u32;
    hs.capabilities = g_vec(&mut rng, 4, |r| if r.bool() { tcpc::COMPRESSION_CAPABILITY.to_string() } else { g_string(r, 20) });
    let rtm = rt();
    let res: Result<Handshake, String> = rtm.block_on(async {
        let frame = hs.encode().map_err(|e| e.to_string())?;
        let mut w: Vec<u8> = Vec::new();
        hs.write_to(&mut w).await.map_err(|e| e.to_string())?;
        if w != frame {
            return Err("write_to differs from encode".into());
        }
        let mut rd: &[u8] = &frame;
        if rng.bool() { Handshake::read_from(&mut rd, 1 << 20).await } else { Handshake::read_from_with_timeout(&mut rd, 1 << 20, Duration::from_secs(3600)).await }.map_err(|e| e.to_string())
    });
    match res {
        Ok(h) if h.node_id == hs.node_id && h.protocol_version == hs.protocol_version && h.capabilities == hs.capabilities => {}
        other => {
            r.violation("handshake:roundtrip-differs", format!("{:?} came back as {:?}", hs, other), replay);
            return;
        }
    }
    r.count(&format!("tcpcomp[{:?}]", method), 1);
    r.count("tcpcomp_bytes", data.len() as u64);
    r.count_max("max:tcpcomp_largest_input", data.len() as u64);
    r.count("handshakes", 1);
    r.eval(hash_bytes(&data[..data.len().min(4096)]) ^ data.len() as u64 ^ (f as u64) << 56, true);
}

// ------------------------------------------------------------------------------------------------
// part: tt — tensor-train presets against their documented error on low-TT-rank inputs
// ------------------------------------------------------------------------------------------------

/// a vector of the given shape whose TT-ranks are at most `rank` (product of random cores, in f64)
fn low_rank_vector(rng: &mut Rng, shape: &[usize], rank: usize) -> Vec<f64> {
    let n = shape.len();
    let mut ranks = vec![1usize; n + 1];
    for k in 1..n {
        ranks[k] = rank;
    }
    let cores: Vec<Vec<f64>> = (0..n).map(|k| (0..ranks[k] * shape[k] * ranks[k + 1]).map(|_| rng.f64_in(-1.0, 1.0)).collect()).collect();
    let total: usize = shape.iter().product();
    let mut out = Vec::with_capacity(total);
    let mut idx = vec![0usize; n];
    for flat in 0..total {
        let mut rem = flat;
        for k in (0..n).rev() {
            idx[k] = rem % shape[k];
            rem /= shape[k];
        }
        let mut left = vec![1.0f64];
        for k in 0..n {
            let (r1, r2) = (ranks[k], ranks[k + 1]);
            let mut nv = vec![0.0f64; r2];
            for a in 0..r1 {
                for b in 0..r2 {
                    nv[b] += left[a] * cores[k][a * shape[k] * r2 + idx[k] * r2 + b];
                }
            }
            left = nv;
        }
        out.push(left[0]);
    }
    out
}

fn part_tt(case_seed: u64, r: &mut Report) {
    let mut rng = Rng::new(case_seed);
    let replay = json!({"part": "tt", "case_seed": case_seed});
    let dim = *rng.pick(&[64usize, 96, 128, 256, 384, 512, 768, 1024, 360, 1000]);
    let (preset, cfg, bound) = if rng.bool() {
        ("for_dim", TTConfig::for_dim(dim).unwrap(), 0.01f64)
    } else {
        ("high_accuracy", TTConfig::high_accuracy(dim).unwrap(), 0.001f64)
    };
    let class = rng.below(10);
    // hostile inputs: only "does not panic" is demanded
    if class == 0 {
        let v: Vec<f32> = (0..dim).map(|_| g_f32(&mut rng)).collect();
        let (res, _) = measured(|| tt_decompose(&v, &cfg).map(|tt| tt_reconstruct(&tt).len()));
        match res {
            Err(p) => r.violation(format!("tt:panic:{}", first_line(&p)), format!("tt_decompose/tt_reconstruct panicked on a {}-dim vector with extreme floats ({}): {}", dim, preset, p), replay),
            Ok(Ok(n)) if n != dim => r.violation("tt:reconstruct-length", format!("dim {} reconstructed to {}", dim, n), replay),
            Ok(_) => {
                r.count("tt_hostile_inputs", 1);
                r.eval(case_seed, false);
            }
        }
        return;
    }
    let true_rank = 1 + rng.below((cfg.max_rank / 2).max(1).min(4));
    // norm classes: every non-unit class scales the unit-norm vector by an exact power of two, so the
    // scaled input is the same vector bit for bit up to the exponent and its norm stays a finite f32:
    // moderate (2^-10 ~ 1e-3, 2^10 ~ 1e3, 2^-40 ~ 1e-12, 2^40 ~ 1e12) and across the finite f32 range
    // (2^-100 ~ 8e-31, 2^-80 ~ 8e-25, 2^-63 ~ 1e-19, 2^63 ~ 9e18, 2^83 ~ 1e25, 2^100 ~ 1.3e30).
    // The documented bound is relative, hence scale-free: the unit-norm twin is decomposed first and
    // judged under the historical signatures; a failure that only the scaled input shows gets a
    // signature of its own (small-norm / large-norm / tiny-magnitude / huge-magnitude).
    let (scale_class, pow2): (&str, Option<i32>) = match rng.below(14) {
        0 => ("norm-2^-10", Some(-10)),
        1 => ("norm-2^10", Some(10)),
        2 => ("norm-2^-40", Some(-40)),
        3 => ("norm-2^40", Some(40)),
        4 => ("norm-2^-100", Some(-100)),
        5 => ("norm-2^-80", Some(-80)),
        6 => ("norm-2^-63", Some(-63)),
        7 => ("norm-2^63", Some(63)),
        8 => ("norm-2^83", Some(83)),
        9 => ("norm-2^100", Some(100)),
        _ => ("unit-norm", None),
    };
    let scale = pow2.map_or(1.0, |k| 2f64.powi(k));
    let mut v64 = if class <= 2 {
        // smooth signals have low TT-rank (sum of two sinusoids: rank <= 4)
        let (f1, f2, p) = (rng.f64_in(0.001, 0.5), rng.f64_in(0.001, 0.5), rng.f64_in(0.0, 3.0));
        (0..dim).map(|i| (f1 * i as f64 + p).sin() + if true_rank > 1 { 0.5 * (f2 * i as f64).cos() } else { 0.0 }).collect::<Vec<f64>>()
    } else {
        low_rank_vector(&mut rng, &cfg.shape, true_rank)
    };
    let norm = v64.iter().map(|x| x * x).sum::<f64>().sqrt();
    if norm == 0.0 {
        r.inconclusive("tt: generated zero vector");
        return;
    }
    for x in v64.iter_mut() {
        *x /= norm;
    }
    enum Out {
        Panic(String),
        Rejected(String),
        BadLen(usize),
        Capped,
        Done { rel: f64, ranks: Vec<usize> },
    }
    let run = |v: &[f32]| -> Out {
        let (res, _) = measured(|| tt_decompose(v, &cfg).map(|tt| (tt_reconstruct(&tt), tt.ranks.clone())));
        let (rec, ranks) = match res {
            Err(p) => return Out::Panic(p),
            Ok(Err(e)) => return Out::Rejected(e.to_string()),
            Ok(Ok(x)) => x,
        };
        if rec.len() != v.len() {
            return Out::BadLen(rec.len());
        }
        if ranks.iter().copied().max().unwrap_or(1) >= cfg.max_rank {
            return Out::Capped;
        }
        let vn = v.iter().map(|&x| (x as f64) * (x as f64)).sum::<f64>().sqrt();
        let en = v.iter().zip(&rec).map(|(&a, &b)| (a as f64 - b as f64).powi(2)).sum::<f64>().sqrt();
        Out::Done { rel: en / vn, ranks }
    };
    let rank_note = true_rank.max(if class <= 2 { 4 } else { 0 });
    // judged first, under the historical signatures: the unit-norm vector itself
    let (v, jscale, jclass): (Vec<f32>, f64, &str) = (v64.iter().map(|&x| x as f32).collect(), 1.0, "unit-norm");
    let (rel, ranks) = match run(&v) {
        Out::Panic(p) => {
            r.violation(format!("tt:panic:{}", first_line(&p)), format!("dim {} {} scale {}: {}", dim, preset, jscale, p), replay);
            return;
        }
        Out::Rejected(e) => {
            r.violation(if jscale < 1.0 { "tt:valid-input-rejected:small-norm" } else { "tt:valid-input-rejected" }, format!("tt_decompose failed on a finite {}-dim vector ({}, scale {}): {}", dim, preset, jscale, e), replay);
            return;
        }
        Out::BadLen(n) => {
            r.violation("tt:reconstruct-length", format!("dim {} reconstructed to {}", dim, n), replay);
            return;
        }
        Out::Capped => {
            // no bound is documented when the rank cap limits the approximation
            r.count("tt_rank_capped", 1);
            r.inconclusive("tt: returned ranks reach max_rank (no documented bound)");
            return;
        }
        Out::Done { rel, ranks } => (rel, ranks),
    };
    r.count(&format!("tt[{}:{}]", preset, jclass), 1);
    r.count_max("max:tt_rel_error_ppm", (rel * 1e6) as u64);
    if !(rel <= bound) {
        r.violation(
            // small-norm = far off on an input of norm < 1 (the scale-dependent failure: absolute
            // thresholds in decompose.rs); svd-accuracy = everything else (rare, any norm)
            format!("tt:error-above-documented-bound:{}:{}", preset, if jscale < 1.0 && rel > 5.0 * bound { "small-norm" } else { "svd-accuracy" }),
            format!("dim {} shape {:?} preset {} (max_rank {}, tol {}), input of TT-rank <= {} and norm {:e}: returned ranks {:?} (below the cap) but relative L2 error {:.4} > {}", dim, cfg.shape, preset, cfg.max_rank, cfg.tolerance, rank_note, jscale, ranks, rel, bound),
            replay,
        );
        return;
    }
    // scaled classes: the same vector times 2^k must meet the same relative bound
    let mut mag_rel: Option<f64> = None;
    if let Some(k) = pow2 {
        let f = 2f32.powi(k);
        let vs: Vec<f32> = v.iter().map(|&x| x * f).collect();
        // exact scaling only (an element pushed into the denormal range would lose bits)
        if vs.iter().zip(&v).all(|(&a, &b)| a.is_finite() && a / f == b) {
            let mag = match k {
                i32::MIN..=-41 => "tiny-magnitude",
                -40..=-1 => "small-norm",
                0..=40 => "large-norm",
                _ => "huge-magnitude",
            };
            let ctx = format!("dim {} shape {:?} preset {} (max_rank {}, tol {}), input of TT-rank <= {} scaled by 2^{} (norm {:e}, components up to {:e}); the unit-norm twin decomposes with ranks {:?} and relative L2 error {:.5}", dim, cfg.shape, preset, cfg.max_rank, cfg.tolerance, rank_note, k, scale, vs.iter().fold(0f32, |m, x| m.max(x.abs())), ranks, rel);
            match run(&vs) {
                Out::Panic(p) => {
                    r.violation(format!("tt:panic:{}", first_line(&p)), format!("{}: {}", ctx, p), replay);
                    return;
                }
                Out::Rejected(e) => {
                    r.violation(format!("tt:valid-input-rejected:{}", mag), format!("{}; the scaled input is rejected: {}", ctx, e), replay);
                    return;
                }
                Out::BadLen(n) => {
                    r.violation("tt:reconstruct-length", format!("{}: reconstructed to {}", ctx, n), replay);
                    return;
                }
                Out::Capped => {
                    // consistent with the unit-norm rule: no bound is documented once the cap is reached
                    r.count(&format!("tt_rank_capped_only_at[{}]", scale_class), 1);
                    r.inconclusive("tt: ranks reach max_rank at extreme magnitude only (no documented bound)");
                    return;
                }
                Out::Done { rel: srel, ranks: sranks } => {
                    r.count(&format!("tt[{}:{}]", preset, scale_class), 1);
                    if !(srel <= bound) {
                        r.violation(
                            format!("tt:error-above-documented-bound:{}:{}", preset, mag),
                            format!("{}; scaled: ranks {:?} (below the cap) but relative L2 error {:.4} > {}", ctx, sranks, srel, bound),
                            replay,
                        );
                        return;
                    }
                    mag_rel = Some(srel);
                }
            }
        } else {
            r.count("tt_magnitude_scaling_inexact_skipped", 1);
        }
    }
    r.eval(hash_str(&bits32(&v[..v.len().min(64)])) ^ hash_str(scale_class), true);
    if r.want_sample() {
        r.sample(json!({"part": "tt", "dim": dim, "preset": preset, "input_tt_rank": true_rank, "scale": jscale, "returned_ranks": ranks, "relative_l2_error": rel, "magnitude_class": if pow2.is_some() { scale_class } else { "-" }, "relative_l2_error_at_magnitude": mag_rel}));
    }
}

// ------------------------------------------------------------------------------------------------
// part: ttspec — tensor-train presets on inputs whose unfoldings have full, clustered or
// degenerate spectra: the inputs on which the SVD inside tt_decompose has to separate close
// singular values (part `tt` above only feeds TT-rank <= 4 products of random cores and smooth
// signals, whose unfoldings are low-rank with well separated spectra)
// ------------------------------------------------------------------------------------------------

/// lengths whose preset shape keeps every possible TT-rank below high_accuracy's max_rank (16):
/// the rank cap cannot bind, so EVERY vector of these lengths is judged under that preset
const TTSPEC_DIMS_FREE: [usize; 17] = [8, 16, 27, 32, 48, 64, 96, 100, 125, 128, 192, 216, 256, 343, 384, 512, 768];
/// further lengths for inputs whose rank is prescribed (dense vectors of these lengths are rank-capped)
const TTSPEC_DIMS_RANKED: [usize; 2] = [320, 729];
/// further lengths for k-spike vectors (TT-rank <= k <= 4, never capped)
const TTSPEC_DIMS_SPIKES: [usize; 4] = [1000, 1024, 1536, 2048];

fn g_gauss(rng: &mut Rng) -> f64 {
    let u1 = rng.unit_f64().max(1e-300);
    let u2 = rng.unit_f64();
    (-2.0 * u1.ln()).sqrt() * (2.0 * std::f64::consts::PI * u2).cos()
}

/// `cols` orthonormal vectors of length `rows` (cols <= rows), gaussian directions, Gram-Schmidt
/// with re-orthogonalisation, in f64
fn orthonormal_set(rng: &mut Rng, rows: usize, cols: usize) -> Vec<Vec<f64>> {
    let mut out: Vec<Vec<f64>> = Vec::with_capacity(cols);
    let mut attempts = 0;
    while out.len() < cols.min(rows) && attempts < 16 * cols + 64 {
        attempts += 1;
        let mut v: Vec<f64> = (0..rows).map(|_| g_gauss(rng)).collect();
        for _ in 0..2 {
            for q in &out {
                let d: f64 = v.iter().zip(q).map(|(a, b)| a * b).sum();
                for (a, b) in v.iter_mut().zip(q) {
                    *a -= d * b;
                }
            }
        }
        let n = v.iter().map(|a| a * a).sum::<f64>().sqrt();
        if n > 1e-6 {
            for a in v.iter_mut() {
                *a /= n;
            }
            out.push(v);
        }
    }
    out
}

/// x = sum_j s[j] * a_j (x) b_j with orthonormal a_j (length = product of the first `split` modes)
/// and b_j (length = product of the rest): the unfolding of x after mode `split` has exactly the
/// singular values `s`
fn vector_with_spectrum(rng: &mut Rng, shape: &[usize], split: usize, s: &[f64]) -> Vec<f64> {
    let l: usize = shape[..split].iter().product();
    let rr: usize = shape[split..].iter().product();
    let a = orthonormal_set(rng, l, s.len());
    let b = orthonormal_set(rng, rr, s.len());
    let k = s.len().min(a.len()).min(b.len());
    let mut x = vec![0f64; l * rr];
    for i in 0..l {
        for j in 0..rr {
            let mut acc = 0.0;
            for q in 0..k {
                acc += s[q] * a[q][i] * b[q][j];
            }
            x[i * rr + j] = acc;
        }
    }
    x
}

/// eigenvalues of a small symmetric matrix (cyclic Jacobi, f64), descending
fn sym_eigenvalues(mut a: Vec<Vec<f64>>) -> Vec<f64> {
    let n = a.len();
    for _ in 0..60 {
        let mut off = 0.0;
        let mut diag = 0.0;
        for i in 0..n {
            for j in 0..n {
                if i != j {
                    off += a[i][j] * a[i][j];
                } else {
                    diag += a[i][j] * a[i][j];
                }
            }
        }
        if off <= 1e-28 * diag.max(1e-300) {
            break;
        }
        for p in 0..n {
            for q in p + 1..n {
                if a[p][q] == 0.0 {
                    continue;
                }
                let th = 0.5 * (2.0 * a[p][q]).atan2(a[q][q] - a[p][p]);
                let (c, s) = (th.cos(), th.sin());
                for k in 0..n {
                    let (x, y) = (a[k][p], a[k][q]);
                    a[k][p] = c * x - s * y;
                    a[k][q] = s * x + c * y;
                }
                for k in 0..n {
                    let (x, y) = (a[p][k], a[q][k]);
                    a[p][k] = c * x - s * y;
                    a[q][k] = s * x + c * y;
                }
            }
        }
    }
    let mut e: Vec<f64> = (0..n).map(|i| a[i][i]).collect();
    e.sort_by(|x, y| y.partial_cmp(x).unwrap_or(std::cmp::Ordering::Equal));
    e
}

/// Observation for the evidence (never part of a verdict): over all unfoldings of `x` (row-major,
/// `shape`), the smallest relative gap 1 - s2/s1 between the two leading singular values and the
/// smallest relative gap between any two neighbouring singular values above 1e-3 * s1 (f64 Gram
/// matrix of the short side + Jacobi).
fn closest_singular_values(x: &[f32], shape: &[usize]) -> (f64, f64) {
    let (mut lead, mut any) = (f64::INFINITY, f64::INFINITY);
    for split in 1..shape.len() {
        let l: usize = shape[..split].iter().product();
        let rr: usize = shape[split..].iter().product();
        let m = l.min(rr);
        if m < 2 || m > 32 {
            continue;
        }
        let mut g = vec![vec![0f64; m]; m];
        for i in 0..m {
            for j in i..m {
                let mut acc = 0.0;
                if l <= rr {
                    for c in 0..rr {
                        acc += x[i * rr + c] as f64 * x[j * rr + c] as f64;
                    }
                } else {
                    for row in 0..l {
                        acc += x[row * rr + i] as f64 * x[row * rr + j] as f64;
                    }
                }
                g[i][j] = acc;
                g[j][i] = acc;
            }
        }
        let sv: Vec<f64> = sym_eigenvalues(g).into_iter().map(|e| e.max(0.0).sqrt()).collect();
        if sv[0] <= 0.0 {
            continue;
        }
        lead = lead.min(1.0 - sv[1] / sv[0]);
        for w in sv.windows(2) {
            if w[1] > 1e-3 * sv[0] {
                any = any.min(1.0 - w[1] / w[0]);
            }
        }
    }
    (lead, any)
}

fn part_ttspec(case_seed: u64, r: &mut Report) {
    let mut rng = Rng::new(case_seed);
    let replay = json!({"part": "ttspec", "case_seed": case_seed});
    let high = rng.chance(2, 3);
    let preset = if high { "high_accuracy" } else { "for_dim" };
    let bound = if high { 0.001f64 } else { 0.01f64 };
    // family -> group (the group is part of the signature: the three groups fail for different reasons)
    const FAMILIES: [(&str, &str); 9] = [
        ("dense-uniform", "dense-full-rank"),
        ("dense-gaussian", "dense-full-rank"),
        ("geometric-spectrum", "clustered-spectrum"),
        ("close-leading-pair", "clustered-spectrum"),
        ("evenly-spaced-spectrum", "clustered-spectrum"),
        ("two-clusters", "clustered-spectrum"),
        ("spikes", "degenerate-spectrum"),
        ("equal-singular-values", "degenerate-spectrum"),
        ("signs", "degenerate-spectrum"),
    ];
    let fi = rng.weighted(&[14, 14, 13, 13, 10, 10, 10, 10, 6]);
    let (family, group) = FAMILIES[fi];
    let dense = fi <= 1 || fi == 8;
    // lengths: the rank cap must not be what limits accuracy (capped results are inconclusive, so a
    // length that is always capped would only waste the budget)
    let dim = if dense {
        if high { *rng.pick(&TTSPEC_DIMS_FREE) } else { *rng.pick(&TTSPEC_DIMS_FREE[..6]) }
    } else if fi == 6 {
        match rng.below(4) {
            0 => *rng.pick(&TTSPEC_DIMS_SPIKES),
            1 => *rng.pick(&TTSPEC_DIMS_RANKED),
            _ => *rng.pick(&TTSPEC_DIMS_FREE),
        }
    } else if high {
        if rng.chance(1, 8) { *rng.pick(&TTSPEC_DIMS_RANKED) } else { *rng.pick(&TTSPEC_DIMS_FREE) }
    } else {
        *rng.pick(&TTSPEC_DIMS_FREE[..10])
    };
    let cfg = match if high { TTConfig::high_accuracy(dim) } else { TTConfig::for_dim(dim) } {
        Ok(c) => c,
        Err(e) => {
            r.violation("tt:preset-rejects-dimension", format!("{}({}) failed: {}", preset, dim, e), replay);
            return;
        }
    };
    if cfg.shape.iter().product::<usize>() != dim || cfg.shape.len() < 2 {
        r.inconclusive("ttspec: preset shape does not factor the length");
        return;
    }
    let nm = cfg.shape.len();
    let mut params = json!({});
    let x64: Vec<f64> = match fi {
        0 => (0..dim).map(|_| rng.f64_in(-1.0, 1.0)).collect(),
        1 => (0..dim).map(|_| g_gauss(&mut rng)).collect(),
        8 => (0..dim).map(|_| if rng.bool() { 1.0 } else { -1.0 }).collect(),
        6 => {
            // k spikes: the unfoldings are (partial) permutation matrices, singular values = |values|
            let k = 1 + rng.below(4);
            let equal = rng.chance(2, 3);
            let mut x = vec![0f64; dim];
            let mut at = Vec::new();
            for _ in 0..k {
                let p = rng.below(dim);
                let val = if equal { 1.0 } else { *rng.pick(&[1.0, 0.5, 2.0, 0.75, 3.0]) } * if rng.bool() { 1.0 } else { -1.0 };
                x[p] = val;
                at.push(json!([p, val]));
            }
            params = json!({"spikes": at});
            x
        }
        _ => {
            let split = 1 + rng.below(nm - 1);
            let l: usize = cfg.shape[..split].iter().product();
            let rr: usize = cfg.shape[split..].iter().product();
            let full = l.min(rr);
            let rank = full.min(if high { 12 } else { 6 }).max(1);
            let u = rng.unit_f64();
            let (s, p): (Vec<f64>, Value) = match fi {
                2 => {
                    let q = 0.8 + 0.19 * u;
                    ((0..rank).map(|i| q.powi(i as i32)).collect(), json!({"ratio": q}))
                }
                3 => {
                    let rho = 0.8 + 0.199 * u;
                    ((0..rank).map(|i| if i == 0 { 1.0 } else if i == 1 { rho } else { 0.3 / i as f64 }).collect(), json!({"s2/s1": rho}))
                }
                4 => {
                    // gaps of 0.1 % .. 10 % of the leading value
                    let eps = 10f64.powf(-1.0 - 2.0 * u);
                    ((0..rank).map(|i| 1.0 - eps * i as f64).collect(), json!({"gap": eps}))
                }
                5 => {
                    let rho = 0.85 + 0.14 * u;
                    ((0..rank).map(|i| if i < rank / 2 { rho.powi(i as i32) } else { 0.2 * rho.powi(i as i32) }).collect(), json!({"ratio": rho}))
                }
                _ => {
                    // exactly equal, or equal up to 1e-7 .. 1e-3
                    let eps = if rng.bool() { 0.0 } else { 10f64.powf(-3.0 - 4.0 * u) };
                    let rank = if rng.bool() { rank.min(2 + rng.below(3)) } else { rank };
                    ((0..rank).map(|i| 1.0 - eps * i as f64).collect(), json!({"gap": eps}))
                }
            };
            params = json!({"unfolding": [l, rr], "prescribed_singular_values": s.len(), "spectrum": p});
            vector_with_spectrum(&mut rng, &cfg.shape, split, &s)
        }
    };
    let v: Vec<f32> = x64.iter().map(|&x| x as f32).collect();
    let vn = v.iter().map(|&x| (x as f64) * (x as f64)).sum::<f64>().sqrt();
    if !(vn > 0.0) || !vn.is_finite() {
        r.inconclusive("ttspec: generated zero vector");
        return;
    }
    let shown = if dim <= 64 { format!(", input {:?}", v) } else { String::new() };
    let ctx = format!("{} ({}) of length {} shape {:?} {}, preset {} (max_rank {}, tol {}){}", family, group, dim, cfg.shape, params, preset, cfg.max_rank, cfg.tolerance, shown);
    let (res, _) = measured(|| tt_decompose(&v, &cfg).map(|tt| (tt_reconstruct(&tt), tt.ranks.clone())));
    let (rec, ranks) = match res {
        Err(p) => {
            r.violation(format!("tt:panic:{}", first_line(&p)), format!("{}: {}", ctx, p), replay);
            return;
        }
        Ok(Err(e)) => {
            r.count(&format!("ttspec:rejected[{}:{}]", preset, family), 1);
            r.violation(format!("tt:valid-input-rejected:{}", group), format!("tt_decompose failed on a finite non-zero vector: {}: {}", ctx, e), replay);
            return;
        }
        Ok(Ok(x)) => x,
    };
    if rec.len() != v.len() {
        r.violation("tt:reconstruct-length", format!("{}: reconstructed to {} elements", ctx, rec.len()), replay);
        return;
    }
    if ranks.iter().copied().max().unwrap_or(1) >= cfg.max_rank {
        // no bound is documented when the rank cap limits the approximation
        r.count("ttspec_rank_capped", 1);
        r.inconclusive("ttspec: returned ranks reach max_rank (no documented bound)");
        return;
    }
    let en = v.iter().zip(&rec).map(|(&a, &b)| (a as f64 - b as f64).powi(2)).sum::<f64>().sqrt();
    let rel = en / vn;
    // what was fed (evidence only): how close the singular values of the input's unfoldings are
    let (lead_gap, any_gap) = closest_singular_values(&v, &cfg.shape);
    r.count(&format!("ttspec[{}:{}]", preset, family), 1);
    r.count(&format!("ttspec:judged[{}]", group), 1);
    if lead_gap <= 0.10 {
        r.count("ttspec:judged-with-leading-singular-values-within-10%", 1);
    }
    if any_gap <= 0.05 {
        r.count("ttspec:judged-with-neighbouring-singular-values-within-5%", 1);
    }
    if lead_gap <= 1e-4 {
        r.count("ttspec:judged-with-leading-singular-values-within-0.01%", 1);
    }
    if ranks.iter().copied().max().unwrap_or(1) >= 4 {
        r.count("ttspec:judged-with-returned-rank>=4", 1);
    }
    r.count_max(&format!("max:ttspec_rel_error_ppm[{}]", group), (rel * 1e6).min(1e12) as u64);
    if !(rel <= bound) {
        r.count(&format!("ttspec:above-bound[{}:{}]", preset, family), 1);
        r.violation(
            format!("tt:error-above-documented-bound:{}:{}", preset, group),
            format!("{}: returned ranks {:?} (below the cap) but relative L2 error {:.5} > {} (closest leading singular values of an unfolding differ by {:.2e} relative)", ctx, ranks, rel, bound, lead_gap),
            replay,
        );
        return;
    }
    r.eval(hash_str(&bits32(&v[..v.len().min(64)])) ^ hash_str(preset) ^ dim as u64, true);
    if r.want_sample() && rng.chance(1, 8) {
        r.sample(json!({"part": "ttspec", "family": family, "group": group, "dim": dim, "shape": cfg.shape, "preset": preset, "params": params, "returned_ranks": ranks, "relative_l2_error": rel, "smallest_leading_gap_of_an_unfolding": lead_gap}));
    }
}

// ------------------------------------------------------------------------------------------------
// part: validate — the validation layer that decoded network messages pass through
// (tensor_chain/src/message_validation.rs): boundary values in every numeric field, several
// configured limits; the validator must answer Ok/Err without panicking, and what its documented
// limits exclude must be rejected
// ------------------------------------------------------------------------------------------------

fn validation_config(kind: usize) -> (MessageValidationConfig, &'static str) {
    match kind % 3 {
        0 => (MessageValidationConfig::default(), "default"),
        1 => (
            MessageValidationConfig {
                enabled: true,
                max_term: 7,
                max_shard_id: 3,
                max_tx_timeout_ms: 10,
                max_node_id_len: 4,
                max_key_len: 8,
                max_embedding_dimension: 8,
                max_embedding_magnitude: 10.0,
                max_query_len: 5,
                max_message_age_ms: 1000,
                max_blocks_per_request: 3,
                max_snapshot_chunk_size: 16,
            },
            "tight",
        ),
        _ => (
            MessageValidationConfig {
                enabled: true,
                max_term: u64::MAX,
                max_shard_id: usize::MAX,
                max_tx_timeout_ms: u64::MAX,
                max_node_id_len: usize::MAX,
                max_key_len: usize::MAX,
                max_embedding_dimension: usize::MAX,
                max_embedding_magnitude: f32::MAX,
                max_query_len: usize::MAX,
                max_message_age_ms: u64::MAX,
                max_blocks_per_request: u64::MAX,
                max_snapshot_chunk_size: u64::MAX,
            },
            "unlimited",
        ),
    }
}

/// boundary values of an unsigned field around 0, the type's maximum and the configured limits
fn b_u64(rng: &mut Rng, limits: &[u64]) -> u64 {
    let mut c: Vec<u64> = vec![0, 1, 2, u64::MAX - 1, u64::MAX, 1 << 32, 1 << 63];
    for &l in limits {
        c.extend_from_slice(&[l.wrapping_sub(1), l, l.wrapping_add(1)]);
    }
    if rng.chance(1, 8) {
        rng.next_u64() >> rng.below(64)
    } else {
        *rng.pick(&c)
    }
}
fn b_node(rng: &mut Rng, cfg: &MessageValidationConfig) -> String {
    let l = cfg.max_node_id_len.min(300);
    match rng.below(6) {
        0 => String::new(),
        1 => "x".repeat(l),
        2 => "x".repeat(l + 1),
        3 => "x".repeat(l.saturating_sub(1)),
        4 => "é".repeat(l / 2 + 1),
        _ => "n1".to_string(),
    }
}
fn b_embedding(rng: &mut Rng, cfg: &MessageValidationConfig) -> SparseVector {
    let d = cfg.max_embedding_dimension.min(70_000);
    let dim = *rng.pick(&[0usize, 1, d.saturating_sub(1), d, d + 1, tensor_store::SPARSE_MAX_DIMENSION]);
    if dim == 0 {
        return SparseVector::new(0);
    }
    let vals = [1.0f32, -1.0, cfg.max_embedding_magnitude, cfg.max_embedding_magnitude * 0.99, f32::MAX, f32::INFINITY, f32::NAN, 1e-30];
    let mut pos: BTreeSet<u32> = BTreeSet::new();
    for _ in 0..rng.below(4) {
        pos.insert(*rng.pick(&[0u32, (dim - 1) as u32, (dim / 2) as u32]));
    }
    let positions: Vec<u32> = pos.into_iter().collect();
    let values: Vec<f32> = positions.iter().map(|_| *rng.pick(&vals)).collect();
    SparseVector::from_parts(dim, positions, values)
}

/// What the documented limits of the validator exclude (module documentation "Validation Checks"
/// and the limit fields of `MessageValidationConfig`). `None` = nothing here demands a rejection.
fn must_reject(m: &Message, from: &str, c: &MessageValidationConfig) -> Option<String> {
    let node = |s: &str, f: &str| -> Option<String> {
        if s.is_empty() {
            Some(format!("{} is empty", f))
        } else if s.len() > c.max_node_id_len {
            Some(format!("{} longer than max_node_id_len", f))
        } else {
            None
        }
    };
    let term = |t: u64| -> Option<String> { if t == 0 || t > c.max_term { Some(format!("term {} outside 1..={}", t, c.max_term)) } else { None } };
    let shard = |s: usize| -> Option<String> { if s >= c.max_shard_id { Some(format!("shard_id {} >= {}", s, c.max_shard_id)) } else { None } };
    let timeout = |t: u64| -> Option<String> { if t == 0 || t > c.max_tx_timeout_ms { Some(format!("timeout_ms {} outside 1..={}", t, c.max_tx_timeout_ms)) } else { None } };
    let nonzero = |x: u64, f: &str| -> Option<String> { if x == 0 { Some(format!("{} is 0", f)) } else { None } };
    let emb = |e: &SparseVector, f: &str| -> Option<String> {
        if e.dimension() == 0 || e.dimension() > c.max_embedding_dimension {
            Some(format!("{} dimension {} outside 1..={}", f, e.dimension(), c.max_embedding_dimension))
        } else if e.values().iter().any(|v| !v.is_finite()) {
            Some(format!("{} holds NaN/Inf", f))
        } else {
            None
        }
    };
    if let Some(w) = node(from, "from") {
        return Some(w);
    }
    match m {
        Message::RequestVote(x) => term(x.term).or_else(|| node(&x.candidate_id, "candidate_id")).or_else(|| emb(&x.state_embedding, "state_embedding")),
        Message::PreVote(x) => term(x.term).or_else(|| node(&x.candidate_id, "candidate_id")).or_else(|| emb(&x.state_embedding, "state_embedding")),
        Message::RequestVoteResponse(x) => term(x.term).or_else(|| node(&x.voter_id, "voter_id")),
        Message::PreVoteResponse(x) => term(x.term).or_else(|| node(&x.voter_id, "voter_id")),
        Message::AppendEntries(x) => term(x.term).or_else(|| node(&x.leader_id, "leader_id")).or_else(|| x.block_embedding.as_ref().and_then(|e| emb(e, "block_embedding"))),
        Message::AppendEntriesResponse(x) => term(x.term).or_else(|| node(&x.follower_id, "follower_id")),
        Message::Ping { term: t } | Message::Pong { term: t } => term(*t),
        Message::BlockRequest(x) => node(&x.requester_id, "requester_id").or_else(|| {
            if x.to_height < x.from_height {
                Some(format!("to_height {} < from_height {}", x.to_height, x.from_height))
            } else {
                let count = x.to_height as u128 - x.from_height as u128 + 1;
                // (a limit of u64::MAX is "no limit": 2^64 blocks is the only count above it)
                if c.max_blocks_per_request < u64::MAX && count > c.max_blocks_per_request as u128 {
                    Some(format!("range {}..={} = {} blocks > max_blocks_per_request {}", x.from_height, x.to_height, count, c.max_blocks_per_request))
                } else {
                    None
                }
            }
        }),
        Message::SnapshotRequest(x) => node(&x.requester_id, "requester_id").or_else(|| if x.chunk_size == 0 || x.chunk_size > c.max_snapshot_chunk_size { Some(format!("chunk_size {} outside 1..={}", x.chunk_size, c.max_snapshot_chunk_size)) } else { None }),
        Message::TxPrepare(x) => nonzero(x.tx_id, "tx_id").or_else(|| node(&x.coordinator, "coordinator")).or_else(|| shard(x.shard_id)).or_else(|| timeout(x.timeout_ms)).or_else(|| emb(&x.delta_embedding, "delta_embedding")),
        Message::TxPrepareResponse(x) => nonzero(x.tx_id, "tx_id").or_else(|| shard(x.shard_id)),
        Message::TxCommit(x) => nonzero(x.tx_id, "tx_id").or_else(|| x.shards.iter().find_map(|&s| shard(s))),
        Message::TxAbort(x) => nonzero(x.tx_id, "tx_id").or_else(|| x.shards.iter().find_map(|&s| shard(s))),
        Message::TxAck(x) => nonzero(x.tx_id, "tx_id").or_else(|| shard(x.shard_id)),
        Message::QueryRequest(x) => nonzero(x.query_id, "query_id")
            .or_else(|| shard(x.shard_id))
            .or_else(|| timeout(x.timeout_ms))
            .or_else(|| if x.query.len() > c.max_query_len { Some(format!("query length {} > {}", x.query.len(), c.max_query_len)) } else { None })
            .or_else(|| x.embedding.as_ref().and_then(|e| emb(e, "embedding"))),
        Message::QueryResponse(x) => nonzero(x.query_id, "query_id").or_else(|| shard(x.shard_id)),
        Message::SignedGossip(x) => {
            if x.envelope.signature.len() != 64 {
                Some("signature length != 64".into())
            } else {
                node(&x.envelope.sender, "sender")
            }
        }
        _ => None,
    }
}

const VALIDATED_VARIANTS: usize = 19;

fn b_message(rng: &mut Rng, variant: usize, c: &MessageValidationConfig) -> Message {
    let t = |rng: &mut Rng| b_u64(rng, &[c.max_term]);
    let sh = |rng: &mut Rng| b_u64(rng, &[c.max_shard_id as u64]) as usize;
    let to = |rng: &mut Rng| b_u64(rng, &[c.max_tx_timeout_ms]);
    match variant % VALIDATED_VARIANTS {
        0 => Message::RequestVote(RequestVote { term: t(rng), candidate_id: b_node(rng, c), last_log_index: b_u64(rng, &[]), last_log_term: b_u64(rng, &[]), state_embedding: b_embedding(rng, c) }),
        1 => Message::RequestVoteResponse(RequestVoteResponse { term: t(rng), vote_granted: rng.bool(), voter_id: b_node(rng, c) }),
        2 => Message::PreVote(PreVote { term: t(rng), candidate_id: b_node(rng, c), last_log_index: b_u64(rng, &[]), last_log_term: b_u64(rng, &[]), state_embedding: b_embedding(rng, c) }),
        3 => Message::PreVoteResponse(PreVoteResponse { term: t(rng), vote_granted: rng.bool(), voter_id: b_node(rng, c) }),
        4 => Message::AppendEntries(AppendEntries {
            term: t(rng),
            leader_id: b_node(rng, c),
            prev_log_index: b_u64(rng, &[]),
            prev_log_term: b_u64(rng, &[]),
            entries: vec![],
            leader_commit: b_u64(rng, &[]),
            block_embedding: if rng.bool() { Some(b_embedding(rng, c)) } else { None },
        }),
        5 => Message::AppendEntriesResponse(AppendEntriesResponse { term: t(rng), success: rng.bool(), follower_id: b_node(rng, c), match_index: b_u64(rng, &[]), used_fast_path: rng.bool() }),
        6 => Message::Ping { term: t(rng) },
        7 => Message::Pong { term: t(rng) },
        8 | 9 => {
            // height pairs: every combination of the boundary values, including (0, MAX), (MAX, MAX),
            // (MAX, 0) and ranges of exactly limit-1 / limit / limit+1 blocks at both ends of u64
            let l = c.max_blocks_per_request;
            let hs = [0u64, 1, l.wrapping_sub(2), l.wrapping_sub(1), l, l.wrapping_add(1), u64::MAX.wrapping_sub(l), u64::MAX.wrapping_sub(l).wrapping_add(1), u64::MAX.wrapping_sub(l).wrapping_add(2), u64::MAX - 1, u64::MAX];
            let k = rng.below(hs.len() * hs.len());
            let requester_id = if rng.chance(1, 6) { b_node(rng, c) } else { "n1".to_string() };
            Message::BlockRequest(BlockRequest { from_height: hs[k / hs.len()], to_height: hs[k % hs.len()], requester_id })
        }
        10 => {
            let requester_id = if rng.chance(1, 6) { b_node(rng, c) } else { "n1".to_string() };
            Message::SnapshotRequest(SnapshotRequest { requester_id, offset: b_u64(rng, &[]), chunk_size: b_u64(rng, &[c.max_snapshot_chunk_size]) })
        }
        11 => Message::TxPrepare(TxPrepareMsg { tx_id: b_u64(rng, &[]), coordinator: b_node(rng, c), shard_id: sh(rng), operations: vec![], delta_embedding: b_embedding(rng, c), timeout_ms: to(rng) }),
        12 => Message::TxPrepareResponse(TxPrepareResponseMsg { tx_id: b_u64(rng, &[]), shard_id: sh(rng), vote: TxVote::No { reason: String::new() } }),
        13 => Message::TxCommit(TxCommitMsg { tx_id: b_u64(rng, &[]), shards: g_vec(rng, 4, |r| b_u64(r, &[c.max_shard_id as u64]) as usize) }),
        14 => Message::TxAbort(TxAbortMsg { tx_id: b_u64(rng, &[]), reason: String::new(), shards: g_vec(rng, 4, |r| b_u64(r, &[c.max_shard_id as u64]) as usize) }),
        15 => Message::TxAck(TxAckMsg { tx_id: b_u64(rng, &[]), shard_id: sh(rng), success: rng.bool(), error: None }),
        16 => {
            let ql = c.max_query_len.min(2000);
            let query = "q".repeat(*rng.pick(&[0usize, 1, ql.saturating_sub(1), ql, ql + 1]));
            Message::QueryRequest(QueryRequest { query_id: b_u64(rng, &[]), query, shard_id: sh(rng), embedding: if rng.bool() { Some(b_embedding(rng, c)) } else { None }, timeout_ms: to(rng) })
        }
        17 => Message::QueryResponse(QueryResponse { query_id: b_u64(rng, &[]), shard_id: sh(rng), result: vec![], execution_time_us: b_u64(rng, &[]), success: rng.bool(), error: None }),
        _ => {
            let now = now_ms();
            let a = c.max_message_age_ms;
            let ts = *rng.pick(&[0u64, 1, now, now.wrapping_sub(a), now.wrapping_sub(a).wrapping_sub(5000), now.wrapping_sub(a).wrapping_add(5000), now + 50_000, now + 70_000, u64::MAX - 1, u64::MAX, u64::MAX - a.min(u64::MAX - 1)]);
            Message::SignedGossip(SignedGossipMessage {
                envelope: SignedMessage { sender: b_node(rng, c), public_key: g_hash(rng), payload: g_bytes(rng, 40), signature: vec![7u8; *rng.pick(&[0usize, 63, 64, 64, 64, 65])], sequence: b_u64(rng, &[]), timestamp_ms: ts },
            })
        }
    }
}

fn part_validate(case_index: u64, case_seed: u64, r: &mut Report) {
    let mut rng = Rng::new(case_seed);
    let replay = json!({"part": "validate", "case": case_index, "case_seed": case_seed});
    let (cfg, cname) = validation_config((case_index / VALIDATED_VARIANTS as u64) as usize);
    let validator = CompositeValidator::new(cfg.clone());
    let codec = LengthDelimitedCodec::new(16 * 1024 * 1024);
    let variant = case_index as usize % VALIDATED_VARIANTS;
    let mut h = 0u64;
    for _ in 0..24 {
        let sent = b_message(&mut rng, variant, &cfg);
        // what the validator sees in production is the decoded message
        let msg = match codec.encode(&sent).and_then(|f| codec.decode_payload(&f[4..])) {
            Ok(m) => m,
            Err(e) => {
                // (a sparse vector that the decoder refuses never reaches the validator)
                r.count("validate:not-decodable", 1);
                let _ = e;
                continue;
            }
        };
        let from = if rng.chance(1, 10) { b_node(&mut rng, &cfg) } else { "peer".to_string() };
        let shown: String = format!("{:?}", msg).chars().take(400).collect();
        let (res, _) = measured(|| validator.validate(&msg, &from).map_err(|e| e.to_string()));
        r.count("validate:messages", 1);
        match res {
            Err(p) => {
                r.violation(
                    format!("validate:panic:{}:{}", msg.type_name(), first_line(&p)),
                    format!("CompositeValidator::validate panicked on a decoded {} under the {} limits: {} — message {}", msg.type_name(), cname, p, shown),
                    replay,
                );
                return;
            }
            Ok(Ok(())) => {
                r.count("validate:accepted", 1);
                if let Some(why) = must_reject(&msg, &from, &cfg) {
                    r.violation(
                        format!("validate:accepted-beyond-documented-limit:{}", msg.type_name()),
                        format!("validate returned Ok under the {} limits although {} — message {}", cname, why, shown),
                        replay,
                    );
                    return;
                }
            }
            Ok(Err(_)) => {
                r.count("validate:rejected", 1);
                if must_reject(&msg, &from, &cfg).is_some() {
                    r.count("validate:rejected-as-documented", 1);
                }
            }
        }
        h = hash_combine(h, hash_str(&shown));
    }
    r.count(&format!("validate[{}:{}]", ["RequestVote", "RequestVoteResponse", "PreVote", "PreVoteResponse", "AppendEntries", "AppendEntriesResponse", "Ping", "Pong", "BlockRequest", "BlockRequest", "SnapshotRequest", "TxPrepare", "TxPrepareResponse", "TxCommit", "TxAbort", "TxAck", "QueryRequest", "QueryResponse", "SignedGossip"][variant], cname), 1);
    r.eval(h, true);
    if r.want_sample() && variant == 8 {
        let m = b_message(&mut rng, 8, &cfg);
        r.sample(json!({"part": "validate", "limits": cname, "message": format!("{:?}", m), "verdict": format!("{:?}", validator.validate(&m, &"peer".to_string()).map_err(|e| e.to_string()))}));
    }
}

// ------------------------------------------------------------------------------------------------
// garbage parts
// ------------------------------------------------------------------------------------------------

/// hostile variants of a valid encoding: every truncation and every single-bit flip when it is
/// small, a sample otherwise; plus random strings and splices
fn hostile_inputs(rng: &mut Rng, enc: &[u8], r: &mut Report) -> Vec<(String, Vec<u8>)> {
    let mut out = Vec::new();
    let n = enc.len();
    if n <= 40 {
        for t in 0..n {
            out.push((format!("truncate@{}", t), enc[..t].to_vec()));
        }
        for b in 0..n * 8 {
            let mut v = enc.to_vec();
            v[b / 8] ^= 1 << (b % 8);
            out.push((format!("bitflip@{}", b), v));
        }
        r.count("encodings_corrupted_exhaustively", 1);
    } else {
        for _ in 0..20 {
            let t = match rng.below(3) {
                0 => rng.below(n.min(24)),
                1 => n - 1 - rng.below(n.min(24)),
                _ => rng.below(n),
            };
            out.push((format!("truncate@{}", t), enc[..t].to_vec()));
        }
        for _ in 0..28 {
            let b = match rng.below(3) {
                0 => rng.below(n.min(16) * 8),
                _ => rng.below(n * 8),
            };
            let mut v = enc.to_vec();
            v[b / 8] ^= 1 << (b % 8);
            out.push((format!("bitflip@{}", b), v));
        }
        r.count("encodings_corrupted_sampled", 1);
    }
    for _ in 0..3 {
        let len = match rng.below(4) {
            0 => rng.below(4),
            1 => rng.below(16),
            _ => rng.below(200),
        };
        let v = match rng.below(4) {
            0 => vec![0xffu8; len],
            1 => vec![0x80u8; len],
            2 => vec![0u8; len],
            _ => rng.bytes(len),
        };
        out.push(("random".into(), v));
    }
    if n > 2 {
        let mut v = enc.to_vec();
        let at = rng.below(n);
        let len = 1 + rng.below((n - at).min(8));
        let junk = rng.bytes(len);
        v[at..at + len].copy_from_slice(&junk);
        out.push((format!("overwrite@{}+{}", at, len), v));
        let mut v = enc.to_vec();
        let k = 1 + rng.below(16);
        v.extend_from_slice(&rng.bytes(k));
        out.push(("trailing-junk".into(), v));
    }
    out
}

struct GCtx<'a> {
    part: &'a str,
    case_seed: u64,
    r: &'a mut Report,
}
impl<'a> GCtx<'a> {
    fn replay(&self) -> Value {
        json!({"part": self.part, "case_seed": self.case_seed})
    }
    /// common verdicts: panic and allocation ceiling. Returns the decoder's value if it did not panic.
    fn judge<T>(&mut self, what: &str, how: &str, input: &[u8], limit: usize, limit_name: &str, res: (Result<T, String>, usize)) -> Option<T> {
        self.r.count(&format!("{}:inputs", self.part), 1);
        self.r.count_max(&format!("max:{}:largest_alloc", self.part), res.1 as u64);
        let v = match res.0 {
            Err(p) => {
                self.r.violation(
                    format!("{}:panic:{}:{}", self.part, what, first_line(&p)),
                    format!("{} panicked on {} ({} bytes: {}): {}", what, how, input.len(), hex(&input[..input.len().min(96)]), p),
                    self.replay(),
                );
                return None;
            }
            Ok(v) => v,
        };
        if res.1 > limit {
            self.r.violation(
                format!("{}:alloc-above-limit:{}", self.part, what),
                format!("{} requested a single allocation of {} bytes on {} ({} input bytes: {}); limit {} = {} bytes", what, res.1, how, input.len(), hex(&input[..input.len().min(96)]), limit_name, limit),
                self.replay(),
            );
            return None;
        }
        Some(v)
    }
}

// ---- g-ids -----------------------------------------------------------------------------------

fn g_ids_case(cx: &mut GCtx) {
    let mut rng = Rng::new(cx.case_seed);
    let (ids, _) = gen_ids(&mut rng);
    let mut sorted = ids.clone();
    sorted.sort_unstable();
    let enc = compress_ids(&sorted[..sorted.len().min(200)]);
    let mut inputs = hostile_inputs(&mut rng, &enc, cx.r);
    inputs.push(("continuation-run".into(), vec![0xff; 1 + rng.below(40)]));
    let mut h = 0u64;
    for (how, inp) in inputs {
        let limit = 64 * inp.len() + SLACK;
        let res = measured(|| decompress_ids(&inp));
        if let Some(v) = cx.judge("decompress_ids", &how, &inp, limit, "64*input+64KiB", res) {
            if v.len() > inp.len() {
                cx.r.violation("g-ids:more-values-than-bytes", format!("{} values from {} bytes ({})", v.len(), inp.len(), how), cx.replay());
                return;
            }
        } else {
            return;
        }
        let res = measured(|| varint_decode(&inp));
        if cx.judge("varint_decode", &how, &inp, limit, "64*input+64KiB", res).is_none() {
            return;
        }
        h = hash_combine(h, hash_bytes(&inp));
    }
    cx.r.eval(h, true);
}

// ---- g-rle -----------------------------------------------------------------------------------

fn rle_guarded_decode(cx: &mut GCtx, enc: &RleEncoded<i64>, how: &str, inp: &[u8]) -> bool {
    let pairs = enc.values.len().min(enc.run_lengths.len());
    let out_len: u128 = enc.run_lengths[..pairs].iter().map(|&x| x as u128).sum();
    let claimed: u128 = enc.run_lengths.iter().map(|&x| x as u128).sum();
    if out_len > 1 << 22 {
        // run-length data legitimately expands; no limit is declared for it
        cx.r.count("g-rle:skipped-legitimately-expansive", 1);
        return true;
    }
    if claimed > 1 << 31 {
        // would ask for more than 16 GiB: observed through the refusal guard of the child
        cx.r.count("g-rle:huge-unpaired-claims", 1);
    }
    let limit = (out_len as usize) * 16 + 64 * inp.len() + SLACK;
    let res = measured(|| rle_decode(enc).len());
    match cx.judge("rle_decode", how, inp, limit, "16*decoded_elements+64*input+64KiB", res) {
        None => false,
        Some(n) => {
            if n as u128 != out_len {
                cx.r.violation("g-rle:decoded-length", format!("decoded {} elements, paired runs say {}", n, out_len), cx.replay());
                return false;
            }
            true
        }
    }
}

fn g_rle_case(cx: &mut GCtx) {
    let mut rng = Rng::new(cx.case_seed);
    let data = gen_runs(&mut rng, |r| g_u64(r) as i64);
    let enc0 = rle_encode(&data[..data.len().min(5000)]);
    // a consistent encoding, and inconsistent ones (more run lengths than values and vice versa)
    let mut encs = vec![enc0.clone()];
    let mut e = enc0.clone();
    for _ in 0..1 + rng.below(3) {
        e.run_lengths.push(*rng.pick(&[1u32, 1000, 1 << 20, 1 << 26]));
    }
    encs.push(e);
    let mut e = enc0;
    e.values.push(7);
    encs.push(e);
    let mut h = 0u64;
    for (k, e) in encs.iter().enumerate() {
        let bytes = bitcode::serialize(e).expect("serialize RleEncoded");
        let inputs = if k == 0 { hostile_inputs(&mut rng, &bytes, cx.r) } else { vec![(format!("inconsistent-lengths(values={},runs={})", e.values.len(), e.run_lengths.len()), bytes)] };
        for (how, inp) in inputs {
            let limit = 256 * inp.len() + SERDE_CAP + SLACK;
            let res = measured(|| bitcode::deserialize::<RleEncoded<i64>>(&inp));
            match cx.judge("bitcode<RleEncoded>", &how, &inp, limit, "256*input+4MiB+64KiB", res) {
                None => return,
                Some(Ok(enc)) => {
                    cx.r.count("g-rle:decoded-ok", 1);
                    if !rle_guarded_decode(cx, &enc, &how, &inp) {
                        return;
                    }
                    // the other consumer in the snapshot format
                    let cv = CompressedValue::RleInt(enc);
                    if let CompressedValue::RleInt(e2) = &cv {
                        let pairs = e2.values.len().min(e2.run_lengths.len());
                        if e2.run_lengths[..pairs].iter().map(|&x| x as u128).sum::<u128>() <= 1 << 22 && e2.run_lengths.iter().map(|&x| x as u128).sum::<u128>() <= 1 << 28 {
                            let res = measured(|| decompress_ints(&cv).len());
                            if cx.judge("decompress_ints", &how, &inp, usize::MAX, "-", res).is_none() {
                                return;
                            }
                        }
                    }
                }
                Some(Err(_)) => cx.r.count("g-rle:rejected", 1),
            }
            h = hash_combine(h, hash_bytes(&inp));
        }
    }
    cx.r.eval(h, true);
}

// ---- g-sparse --------------------------------------------------------------------------------

fn sparse_invalid(s: &SparseVector) -> Option<String> {
    if s.dimension() > tensor_store::SPARSE_MAX_DIMENSION {
        return Some(format!("dimension {} > MAX_DIMENSION", s.dimension()));
    }
    if s.positions().len() != s.values().len() {
        return Some(format!("{} positions but {} values", s.positions().len(), s.values().len()));
    }
    for (i, &p) in s.positions().iter().enumerate() {
        if p as usize >= s.dimension() {
            return Some(format!("position {} >= dimension {}", p, s.dimension()));
        }
        if i > 0 && s.positions()[i - 1] >= p {
            return Some(format!("positions not strictly increasing ({} then {})", s.positions()[i - 1], p));
        }
    }
    None
}

fn g_sparse_case(cx: &mut GCtx) {
    let mut rng = Rng::new(cx.case_seed);
    let sv = if rng.bool() { g_sparse(&mut rng) } else { SparseVector::from_dense(&gen_dense(&mut rng)[..]) };
    let bytes = bitcode::serialize(&sv).expect("serialize SparseVector");
    let bytes = if bytes.len() > 600 { bitcode::serialize(&SparseVector::from_parts(100, vec![1, 5, 99], vec![1.0, -2.0, 3.5])).unwrap() } else { bytes };
    let mut h = 0u64;
    for (how, inp) in hostile_inputs(&mut rng, &bytes, cx.r) {
        let limit = 256 * inp.len() + SERDE_CAP + SLACK;
        let res = measured(|| bitcode::deserialize::<SparseVector>(&inp));
        match cx.judge("bitcode<SparseVector>", &how, &inp, limit, "256*input+4MiB+64KiB", res) {
            None => return,
            Some(Err(_)) => cx.r.count("g-sparse:rejected", 1),
            Some(Ok(s)) => {
                cx.r.count("g-sparse:decoded-ok", 1);
                if let Some(why) = sparse_invalid(&s) {
                    // what the type's own total methods do with it
                    let mut consequence = String::new();
                    if s.dimension() <= 1 << 22 {
                        let (res, _) = measured(|| s.to_dense().len());
                        if let Err(p) = res {
                            consequence = format!("; to_dense() on it panics: {}", first_line(&p));
                        }
                    } else if s.dimension() > tensor_store::SPARSE_MAX_DIMENSION {
                        consequence = format!("; to_dense() on it would request {} bytes", (s.dimension() as u128) * 4);
                    }
                    cx.r.violation(
                        "g-sparse:invalid-value-accepted",
                        format!("bitcode::deserialize::<SparseVector> returned Ok for {} of a valid encoding ({}), but the value breaks the type's invariant: {}{}", how, hex(&inp[..inp.len().min(64)]), why, consequence),
                        cx.replay(),
                    );
                    return;
                }
                // a valid value: the total methods must work
                if s.dimension() <= 1 << 20 {
                    let res = measured(|| (s.to_dense().len(), s.magnitude(), s.dot(&s)));
                    if cx.judge("SparseVector methods on decoded value", &how, &inp, 4 * s.dimension() + SLACK, "4*dimension+64KiB", res).is_none() {
                        return;
                    }
                }
            }
        }
        h = hash_combine(h, hash_bytes(&inp));
    }
    cx.r.eval(h, true);
}

// ---- g-snapfmt: the quantising snapshot container and the decoders its loader calls -----------

fn small_snapshot(rng: &mut Rng) -> CompressedSnapshot {
    let mut entries = Vec::new();
    for i in 0..1 + rng.below(3) {
        let mut fields = BTreeMap::new();
        for k in 0..1 + rng.below(3) {
            let v = match rng.below(6) {
                0 => {
                    let cfg = TTConfig::for_dim(64).unwrap();
                    let v: Vec<f32> = (0..64).map(|i| ((i as f32) * 0.1).sin()).collect();
                    let tt = tt_decompose(&v, &cfg).unwrap();
                    CompressedValue::VectorTT { cores: tt.cores, original_dim: tt.original_dim, shape: tt.shape, ranks: tt.ranks }
                }
                1 => tensor_compress::compress_sparse(50, &[1, 7, 30], &[1.0, 2.0, -3.0]),
                2 => CompressedValue::IdList(compress_ids(&[3, 9, 27, 1000])),
                3 => CompressedValue::RleInt(rle_encode(&[5i64, 5, 5, 9, 9, -1])),
                4 => CompressedValue::VectorRaw(vec![0.5, -1.5, 2.0]),
                _ => CompressedValue::Scalar(CompressedScalar::String("v".into())),
            };
            fields.insert(format!("f{}", k), v);
        }
        entries.push(CompressedEntry { key: format!("k{}", i), fields });
    }
    CompressedSnapshot { header: Header::new(CompressionConfig::default(), entries.len() as u64), entries }
}

fn g_snapfmt_case(cx: &mut GCtx) {
    let mut rng = Rng::new(cx.case_seed);
    let snap = small_snapshot(&mut rng);
    let bytes = snap.serialize().expect("serialize snapshot");
    let mut h = 0u64;
    for (how, inp) in hostile_inputs(&mut rng, &bytes, cx.r) {
        let limit = 256 * inp.len() + SERDE_CAP + SLACK;
        let res = measured(|| CompressedSnapshot::deserialize(&inp));
        let s = match cx.judge("CompressedSnapshot::deserialize", &how, &inp, limit, "256*input+4MiB+64KiB", res) {
            None => return,
            Some(Err(_)) => {
                cx.r.count("g-snapfmt:rejected", 1);
                continue;
            }
            Some(Ok(s)) => s,
        };
        cx.r.count("g-snapfmt:decoded-ok", 1);
        if s.header.validate().is_err() {
            cx.r.violation("g-snapfmt:invalid-header-accepted", format!("deserialize returned Ok with header {:?}", s.header), cx.replay());
            return;
        }
        for e in &s.entries {
            for (name, v) in &e.fields {
                match v {
                    CompressedValue::VectorSparse { dimension, .. } if *dimension > 1 << 24 => cx.r.count("g-snapfmt:skipped-legitimately-expansive", 1),
                    CompressedValue::VectorTT { shape, .. } if shape.iter().try_fold(1usize, |a, &b| a.checked_mul(b)).map_or(true, |p| p > 1 << 20) => {
                        cx.r.count("g-snapfmt:skipped-legitimately-expansive", 1)
                    }
                    CompressedValue::RleInt(enc) => {
                        if !rle_guarded_decode(cx, enc, &how, &inp) {
                            return;
                        }
                    }
                    _ => {
                        let res = measured(|| decompress_vector(v).map(|d| d.len()));
                        let what = match v {
                            CompressedValue::VectorTT { .. } => "decompress_vector(VectorTT)",
                            CompressedValue::VectorSparse { .. } => "decompress_vector(VectorSparse)",
                            CompressedValue::IdList(_) => "decompress_vector(IdList)",
                            _ => "decompress_vector(other)",
                        };
                        if cx.judge(what, &format!("{} (field {})", how, name), &inp, (1 << 28) + 256 * inp.len(), "256MiB (element count guarded)", res).is_none() {
                            return;
                        }
                    }
                }
            }
        }
        h = hash_combine(h, hash_bytes(&inp));
    }
    cx.r.eval(h, true);
}

// ---- g-frame ---------------------------------------------------------------------------------

fn g_frame_case(cx: &mut GCtx) {
    let mut rng = Rng::new(cx.case_seed);
    let mut st = OptStats::default();
    let variant = rng.below(N_MESSAGE_VARIANTS);
    // keep the valid encodings small so that most of them are corrupted exhaustively
    let msg = loop {
        let m = g_message(&mut rng, variant, &mut st);
        if bitcode::serialize(&m).map(|b| b.len() < 3000).unwrap_or(false) {
            break m;
        }
    };
    let max = *rng.pick(&[4096usize, 65_536, 16 * 1024 * 1024]);
    let spec = CodecSpec { max, v2: rng.bool(), compress: rng.bool(), method_none: false, min_size: 0 };
    let spec = CodecSpec { compress: spec.compress && spec.v2, ..spec };
    let codec = make_codec(&spec);
    let frame = match if spec.v2 { codec.encode_v2(&msg) } else { codec.encode(&msg) } {
        Ok(f) => f,
        Err(_) => {
            cx.r.eval(cx.case_seed, false);
            return;
        }
    };
    let validator = CompositeValidator::new(MessageValidationConfig::default());
    let declared = if spec.v2 { spec.max.max(tcpc::MAX_DECOMPRESSED_SIZE) } else { spec.max };
    let lname = if spec.v2 { "max(max_frame_length, MAX_DECOMPRESSED_SIZE)+256*input+4MiB+64KiB" } else { "max_frame_length+256*input+4MiB+64KiB" };
    let mut h = 0u64;
    let after = |cx: &mut GCtx, m: &Message, how: &str, inp: &[u8]| -> bool {
        // a decoded message must be usable: printable, re-encodable, validatable
        let res = measured(|| {
            let _ = format!("{:?}", m);
            let _ = m.type_name();
            let _ = validator.validate(m, &"peer".to_string());
            bitcode::serialize(m).is_ok()
        });
        match cx.judge("use of decoded Message (Debug, validate, re-serialize)", how, inp, usize::MAX, "-", res) {
            None => false,
            Some(false) => {
                cx.r.violation("g-frame:decoded-message-not-serializable", format!("{}", how), cx.replay());
                false
            }
            Some(true) => true,
        }
    };
    // (1) payload level
    let mut payloads = hostile_inputs(&mut rng, &frame[4..], cx.r);
    if spec.v2 {
        // LZ4 flag with hostile size prefixes
        for claimed in [0u32, 1, 100, tcpc::MAX_DECOMPRESSED_SIZE as u32 - 1, tcpc::MAX_DECOMPRESSED_SIZE as u32, tcpc::MAX_DECOMPRESSED_SIZE as u32 + 1, u32::MAX, 0xF0FF_FFFF] {
            let mut v = vec![1u8];
            v.extend_from_slice(&claimed.to_le_bytes());
            let k = rng.below(40);
            v.extend_from_slice(&rng.bytes(k));
            payloads.push((format!("lz4-flag+claimed-size-{}", claimed), v));
        }
    }
    for (how, inp) in payloads {
        let limit = declared + 256 * inp.len() + SERDE_CAP + SLACK;
        let res = measured(|| if spec.v2 { codec.decode_payload_v2(&inp) } else { codec.decode_payload(&inp) });
        match cx.judge(if spec.v2 { "decode_payload_v2" } else { "decode_payload" }, &how, &inp, limit, lname, res) {
            None => return,
            Some(Ok(m)) => {
                cx.r.count("g-frame:decoded-ok", 1);
                if !after(cx, &m, &how, &inp) {
                    return;
                }
            }
            Some(Err(_)) => cx.r.count("g-frame:rejected", 1),
        }
        h = hash_combine(h, hash_bytes(&inp));
    }
    // (2) stream level: hostile length prefixes in front of the valid body, truncated streams
    let body = frame.len() as u32 - 4;
    let rtm = rt();
    let mut streams: Vec<(String, Vec<u8>)> = Vec::new();
    for p in [0u32, 1, body.saturating_sub(1), body + 1, spec.max as u32 - 1, spec.max as u32, spec.max as u32 + 1, u32::MAX, 0xF0FF_FFFF, 0x7FFF_FFFF, rng.next_u64() as u32] {
        let mut v = p.to_be_bytes().to_vec();
        v.extend_from_slice(&frame[4..]);
        streams.push((format!("length-prefix-{}-for-{}-byte-body", p, body), v));
    }
    for t in [0usize, 1, 2, 3, 4, 5, frame.len() - 1] {
        streams.push((format!("stream-truncated@{}", t.min(frame.len())), frame[..t.min(frame.len())].to_vec()));
    }
    for (how, inp) in streams {
        let limit = declared + 256 * inp.len() + SERDE_CAP + SLACK;
        let res = measured(|| {
            rtm.block_on(async {
                let mut rd: &[u8] = &inp;
                if spec.v2 { codec.read_frame_v2(&mut rd).await } else { codec.read_frame(&mut rd).await }
            })
        });
        match cx.judge(if spec.v2 { "read_frame_v2" } else { "read_frame" }, &how, &inp, limit, lname, res) {
            None => return,
            Some(Ok(Some(m))) => {
                cx.r.count("g-frame:stream-decoded-ok", 1);
                if !after(cx, &m, &how, &inp) {
                    return;
                }
            }
            Some(_) => cx.r.count("g-frame:stream-rejected-or-eof", 1),
        }
        h = hash_combine(h, hash_bytes(&inp));
    }
    // (3) handshake
    let hs = Handshake::new(g_node(&mut rng)).with_compression();
    if let Ok(hf) = hs.encode() {
        let hmax = *rng.pick(&[64usize, 1024, 65_536]);
        let mut inputs = hostile_inputs(&mut rng, &hf, cx.r);
        for p in [hmax as u32, hmax as u32 + 1, u32::MAX, 0xF0FF_FFFF] {
            let mut v = p.to_be_bytes().to_vec();
            v.extend_from_slice(&hf[4..]);
            inputs.push((format!("handshake-length-prefix-{}", p), v));
        }
        for (how, inp) in inputs {
            let limit = hmax + 256 * inp.len() + SERDE_CAP + SLACK;
            let res = measured(|| {
                rtm.block_on(async {
                    let mut rd: &[u8] = &inp;
                    Handshake::read_from(&mut rd, hmax).await.map(|h| h.node_id.len())
                })
            });
            if cx.judge("Handshake::read_from", &how, &inp, limit, "max_size+256*input+4MiB+64KiB", res).is_none() {
                return;
            }
        }
    }
    cx.r.count(&format!("g-frame:msg[{}]", msg.type_name()), 1);
    cx.r.eval(h, true);
}

// ---- g-comp ----------------------------------------------------------------------------------

fn g_comp_case(cx: &mut GCtx) {
    let mut rng = Rng::new(cx.case_seed);
    let data = g_bytes(&mut rng, 400);
    let enc = tcpc::compress(&data, tcpc::CompressionMethod::Lz4);
    let mut inputs = hostile_inputs(&mut rng, &enc, cx.r);
    for claimed in [tcpc::MAX_DECOMPRESSED_SIZE as u32, tcpc::MAX_DECOMPRESSED_SIZE as u32 + 1, u32::MAX, 1 << 24, (1 << 24) - 1] {
        let mut v = claimed.to_le_bytes().to_vec();
        v.extend_from_slice(&enc[4.min(enc.len())..]);
        inputs.push((format!("claimed-size-{}", claimed), v));
    }
    let mut h = 0u64;
    for (how, inp) in inputs {
        for method in [tcpc::CompressionMethod::Lz4, tcpc::CompressionMethod::None] {
            let limit = tcpc::MAX_DECOMPRESSED_SIZE + 2 * inp.len() + SLACK;
            let res = measured(|| tcpc::decompress(&inp, method));
            match cx.judge("tcp::compression::decompress", &how, &inp, limit, "MAX_DECOMPRESSED_SIZE+2*input+64KiB", res) {
                None => return,
                Some(Ok(v)) => {
                    if v.len() > tcpc::MAX_DECOMPRESSED_SIZE.max(inp.len()) {
                        cx.r.violation("g-comp:output-above-MAX_DECOMPRESSED_SIZE", format!("{} bytes out", v.len()), cx.replay());
                        return;
                    }
                    cx.r.count("g-comp:decoded-ok", 1);
                }
                Some(Err(_)) => cx.r.count("g-comp:rejected", 1),
            }
        }
        let res = measured(|| tcpc::method_from_flags(inp.first().copied().unwrap_or(0)).is_ok());
        if cx.judge("method_from_flags", &how, &inp, SLACK, "64KiB", res).is_none() {
            return;
        }
        h = hash_combine(h, hash_bytes(&inp));
    }
    cx.r.eval(h, true);
}

// ---- g-wal* ----------------------------------------------------------------------------------

/// hostile log files: corruptions of a valid log + hostile length prefixes at record boundaries
fn hostile_logs(rng: &mut Rng, valid: &[u8], r: &mut Report) -> Vec<(String, Vec<u8>)> {
    let mut v = hostile_inputs(rng, valid, r);
    let tail: Vec<u8> = valid.iter().skip(4).copied().collect();
    for p in [0u32, 1, 0xF0FF_FFFF, u32::MAX, 0x7FFF_FFFF, 0x4000_0000, valid.len() as u32, valid.len() as u32 + 1, valid.len().saturating_sub(8) as u32, valid.len().saturating_sub(7) as u32] {
        let mut f = p.to_le_bytes().to_vec();
        f.extend_from_slice(&tail);
        v.push((format!("first-length-prefix-{}-in-{}-byte-file", p, valid.len()), f));
        // after a valid log: a garbage header as the last record
        let mut f = valid.to_vec();
        f.extend_from_slice(&p.to_le_bytes());
        let k = rng.below(12);
        f.extend_from_slice(&rng.bytes(k));
        v.push((format!("trailing-length-prefix-{}", p), f));
    }
    v
}

fn is_prefix(want: &[String], got: &[String]) -> bool {
    got.len() <= want.len() && got.iter().zip(want).all(|(a, b)| a == b)
}

fn g_wal_case(cx: &mut GCtx, dir: &Path) {
    let mut rng = Rng::new(cx.case_seed);
    let part = cx.part.to_string();
    let n = 1 + rng.below(4);
    let path = fresh_path(dir, "gw");
    let checksums = !rng.chance(1, 4);
    // the valid log through the real writer
    let mut want: Vec<String> = Vec::new();
    let ok: Result<(), String> = (|| {
        match part.as_str() {
            "g-walstore" => {
                let mut c = WalConfig::default();
                c.enable_checksums = checksums;
                let mut w = TensorWal::open(&path, c).map_err(|e| e.to_string())?;
                for i in 0..n {
                    let e = loop {
                        let k = rng.below(10) + i;
                        let e = g_wal_entry(&mut rng, k);
                        if bitcode::serialize(&e).map(|b| b.len() < 400).unwrap_or(false) {
                            break e;
                        }
                    };
                    w.append(&e).map_err(|e| e.to_string())?;
                    want.push(canon_wal_entry(&e));
                }
            }
            "g-walraft" => {
                let mut c = ChainWalConfig::default();
                c.enable_checksums = checksums;
                c.pre_check_space = false;
                let mut w = RaftWal::open_with_config(&path, c).map_err(|e| e.to_string())?;
                for i in 0..n {
                    let e = loop {
                        let k = rng.below(7) + i;
                        let e = g_raft_entry(&mut rng, k, &mut OptStats::default());
                        if bitcode::serialize(&e).map(|b| b.len() < 400).unwrap_or(false) {
                            break e;
                        }
                    };
                    w.append(&e).map_err(|e| e.to_string())?;
                    want.push(format!("{:?}", e));
                }
            }
            _ => {
                let mut c = ChainWalConfig::default();
                c.enable_checksums = checksums;
                c.pre_check_space = false;
                let mut w = TxWal::open_with_config(&path, c).map_err(|e| e.to_string())?;
                for i in 0..n {
                    let k = rng.below(7) + i;
                    let e = g_txwal_entry(&mut rng, k);
                    w.append(&e).map_err(|e| e.to_string())?;
                    want.push(format!("{:?}", e));
                }
            }
        }
        Ok(())
    })();
    if let Err(e) = ok {
        cleanup(&path);
        cx.r.inconclusive(&format!("{}: could not write the valid log: {}", part, first_line(&e)));
        return;
    }
    let valid = std::fs::read(&path).unwrap_or_default();
    let mut h = 0u64;
    for (how, inp) in hostile_logs(&mut rng, &valid, cx.r) {
        if std::fs::write(&path, &inp).is_err() {
            cx.r.inconclusive("scratch write failed");
            break;
        }
        let limit = 64 * inp.len() + SERDE_CAP + SLACK;
        let res: (Result<Result<Vec<String>, String>, String>, usize) = match part.as_str() {
            "g-walstore" => measured(|| {
                let mut c = WalConfig::default();
                c.enable_checksums = checksums;
                let w = TensorWal::open(&path, c).map_err(|e| e.to_string())?;
                w.replay().map(|v| v.iter().map(canon_wal_entry).collect()).map_err(|e| e.to_string())
            }),
            "g-walraft" => measured(|| {
                let mut c = ChainWalConfig::default();
                c.enable_checksums = checksums;
                c.pre_check_space = false;
                let w = RaftWal::open_with_config(&path, c).map_err(|e| e.to_string())?;
                w.replay().map(|v| v.iter().map(|e| format!("{:?}", e)).collect()).map_err(|e| e.to_string())
            }),
            _ => measured(|| {
                let mut c = ChainWalConfig::default();
                c.enable_checksums = checksums;
                c.pre_check_space = false;
                let w = TxWal::open_with_config(&path, c).map_err(|e| e.to_string())?;
                w.replay().map(|v| v.iter().map(|e| format!("{:?}", e)).collect()).map_err(|e| e.to_string())
            }),
        };
        match cx.judge("open+replay", &how, &inp, limit, "64*file_length+4MiB+64KiB", res) {
            None => {
                cleanup(&path);
                return;
            }
            Some(Ok(got)) => {
                cx.r.count(&format!("{}:replayed-ok", part), 1);
                // with record checksums on, a corrupted log may lose a tail but must not invent or
                // alter records (2^-32 per record aside)
                let altering = how.starts_with("bitflip") || how.starts_with("overwrite") || how.starts_with("truncate");
                if checksums && altering && !is_prefix(&want, &got) {
                    cx.r.violation(
                        format!("{}:corruption-accepted", part),
                        format!("checksummed log, {}: replay returned Ok with records that are not a prefix of what was appended: appended {:?} replayed {:?}", how, want, got),
                        cx.replay(),
                    );
                    cleanup(&path);
                    return;
                }
            }
            Some(Err(_)) => cx.r.count(&format!("{}:rejected", part), 1),
        }
        h = hash_combine(h, hash_bytes(&inp));
    }
    cleanup(&path);
    cx.r.eval(h, true);
}

// ---- g-snapfile: the store's snapshot files (v3 header + zstd, and the quantising format) ------

fn g_snapfile_case(cx: &mut GCtx, dir: &Path) {
    let mut rng = Rng::new(cx.case_seed);
    let path = fresh_path(dir, "snap");
    let quantising = rng.bool();
    let store = TensorStore::new();
    for i in 0..1 + rng.below(4) {
        let mut t = TensorData::new();
        t.set("n", TensorValue::Scalar(ScalarValue::Int(i as i64)));
        match rng.below(4) {
            0 => t.set("ids", TensorValue::Vector(vec![1.0, 2.0, 9.0])),
            1 => t.set("sp", TensorValue::Sparse(SparseVector::from_parts(200, vec![3, 50], vec![1.0, 2.0]))),
            2 => t.set("v", TensorValue::Vector((0..20).map(|x| x as f32 * 0.5).collect())),
            _ => t.set("s", TensorValue::Scalar(ScalarValue::String("x".repeat(rng.below(30))))),
        }
        let _ = store.put(format!("k{}", i), t);
    }
    let with_tt = quantising && rng.bool();
    if with_tt {
        // an embedding, so that the file carries tensor-train cores
        let mut t = TensorData::new();
        t.set("_embedding", TensorValue::Vector((0..64).map(|i| ((i as f32) * 0.37).sin()).collect()));
        let _ = store.put("emb:e", t);
    }
    let tensor_mode = if with_tt { Some(TensorMode::TensorTrain(TTConfig::for_dim(64).unwrap())) } else { None };
    let saved = if quantising { store.save_snapshot_compressed(&path, CompressionConfig { tensor_mode, delta_encoding: true, rle_encoding: true }) } else { store.save_snapshot(&path) };
    drop(store);
    if saved.is_err() {
        cx.r.inconclusive("g-snapfile: save failed");
        cleanup(&path);
        return;
    }
    let valid = std::fs::read(&path).unwrap_or_default();
    // the fixed 20-byte header exhaustively (bit flips + truncations), the body sampled
    let mut inputs: Vec<(String, Vec<u8>)> = Vec::new();
    if !quantising {
        let b = rng.below(160.min(valid.len() * 8));
        for bit in [b, (b + 37) % 160, (b + 91) % 160] {
            if bit / 8 < valid.len() {
                let mut v = valid.clone();
                v[bit / 8] ^= 1 << (bit % 8);
                inputs.push((format!("header-bitflip@{}", bit), v));
            }
        }
        inputs.push((format!("header-truncate@{}", b / 8), valid[..(b / 8).min(valid.len())].to_vec()));
    }
    for _ in 0..if with_tt { 24 } else { 4 } {
        let bit = rng.below(valid.len() * 8);
        let mut v = valid.clone();
        v[bit / 8] ^= 1 << (bit % 8);
        inputs.push((format!("bitflip@{}", bit), v));
    }
    inputs.push((format!("truncate@{}", valid.len() / 2), valid[..valid.len() / 2].to_vec()));
    let k = rng.below(64);
    inputs.push(("random".into(), rng.bytes(k)));
    let mut h = 0u64;
    for (how, inp) in inputs {
        if std::fs::write(&path, &inp).is_err() {
            cx.r.inconclusive("scratch write failed");
            break;
        }
        // allocation is not judged here: zstd and slab construction have no declared ceiling
        let res = measured(|| if quantising { TensorStore::load_snapshot_compressed(&path).map(|s| s.len()) } else { TensorStore::load_snapshot(&path).map(|s| s.len()) });
        match cx.judge(if quantising { "TensorStore::load_snapshot_compressed" } else { "TensorStore::load_snapshot" }, &how, &inp, usize::MAX, "-", res) {
            None => {
                cleanup(&path);
                return;
            }
            Some(Ok(_)) => cx.r.count("g-snapfile:loaded-ok", 1),
            Some(Err(_)) => cx.r.count("g-snapfile:rejected", 1),
        }
        h = hash_combine(h, hash_bytes(&inp));
    }
    cleanup(&path);
    cx.r.eval(h, true);
}

// ---- g-hostile / g-hostfile: structurally VALID encodings of semantically hostile values -------
//
// The inputs of these two parts are not damaged bytes: every one is produced by the crate's own
// encoders (compress_ids, compress_sparse, bitcode of the real container types, or of a
// field-for-field mirror where the real type refuses to hold the value) from values that break what
// the decoder would like to assume: position lists that are unsorted / duplicated / out of range /
// above 32 bits, value counts that do not match position counts, dimensions 0 / 1 / off by one /
// above the declared maximum, tensor-train cores that do not chain, run lengths without values.
// A decoder cannot tell such bytes from honest ones by their structure, so everything it relies on
// must be checked by the decoder itself. Oracle: Err or a valid value (never a panic / abort /
// allocation above the ceiling); where the encoded value is well defined (the controls, and pairs
// that are merely listed out of order) it must come back exactly.

#[derive(serde::Serialize)]
struct SvMirror {
    dimension: usize,
    positions: Vec<u32>,
    values: Vec<f32>,
}
#[derive(serde::Serialize)]
struct RvMirror {
    term: u64,
    candidate_id: String,
    last_log_index: u64,
    last_log_term: u64,
    state_embedding: SvMirror,
}
/// `network::Message::RequestVote` is variant 0; the byte identity with the real encoder is
/// verified at run time before the mirror is used
#[derive(serde::Serialize)]
enum MsgMirror {
    RequestVote(RvMirror),
}

#[derive(Clone, Debug)]
struct HostileSparse {
    dimension: usize,
    positions: Vec<u64>,
    values: Vec<f32>,
}

#[derive(Clone, Copy, Debug, Default)]
struct SparseFeatures {
    unsorted: bool,
    duplicate: bool,
    out_of_range: bool,
    /// an out-of-range position precedes an in-range one
    oob_before_in_range: bool,
    above_u32: bool,
    count_mismatch: bool,
}
impl SparseFeatures {
    fn of(h: &HostileSparse) -> SparseFeatures {
        let d = h.dimension as u64;
        let mut f = SparseFeatures::default();
        let mut seen = BTreeSet::new();
        let mut oob_seen = false;
        for (i, &p) in h.positions.iter().enumerate() {
            if i > 0 && h.positions[i - 1] > p {
                f.unsorted = true;
            }
            if !seen.insert(p) {
                f.duplicate = true;
            }
            if p >= d {
                f.out_of_range = true;
                oob_seen = true;
            } else if oob_seen {
                f.oob_before_in_range = true;
            }
            if p > u32::MAX as u64 {
                f.above_u32 = true;
            }
        }
        f.count_mismatch = h.positions.len() != h.values.len();
        f
    }
    /// sorted, unique, in range, one value per position: what `compress_sparse` documents
    fn honest(&self) -> bool {
        !(self.unsorted || self.duplicate || self.out_of_range || self.count_mismatch)
    }
    /// a well-defined set of (position, value) pairs, in whatever order
    fn pair_set(&self) -> bool {
        !(self.duplicate || self.out_of_range || self.count_mismatch)
    }
    fn count(&self, part: &str, r: &mut Report) {
        for (on, name) in [
            (self.honest(), "honest-control"),
            (self.unsorted, "unsorted"),
            (self.duplicate, "duplicate"),
            (self.out_of_range, "out-of-range"),
            (self.oob_before_in_range, "out-of-range-before-in-range"),
            (self.above_u32, "above-u32"),
            (self.count_mismatch, "count-mismatch"),
        ] {
            if on {
                r.count(&format!("{}:sparse[{}]", part, name), 1);
            }
        }
    }
}

fn gen_hostile_sparse(rng: &mut Rng, extreme_dimensions: bool) -> HostileSparse {
    let dimension: usize = match rng.below(10) {
        0 => 0,
        1 => 1,
        2 | 3 => 2 + rng.below(15),
        4..=6 => 2 + rng.below(64),
        7 => 2 + rng.below(5000),
        _ if extreme_dimensions => *rng.pick(&[u32::MAX as usize - 1, u32::MAX as usize, u32::MAX as usize + 1, 1usize << 40, usize::MAX / 4, usize::MAX]),
        _ => 2 + rng.below(300),
    };
    let n = match rng.below(6) {
        0 => 0,
        1 => 1,
        2 => 2,
        _ => 2 + rng.below(24),
    };
    let hostile_atoms = rng.chance(3, 4);
    let d = dimension as u64;
    let mut pos: Vec<u64> = Vec::with_capacity(n);
    for _ in 0..n {
        let inr = if dimension == 0 { 0 } else { rng.below(dimension.min(1 << 31)) as u64 };
        let p = if !hostile_atoms {
            inr
        } else {
            match rng.below(14) {
                0 => d,
                1 => d.saturating_add(1),
                2 => d.saturating_add(rng.below(300) as u64),
                3 => d.saturating_sub(1),
                4 => (1u64 << 32) + inr, // comes back into range when cut to 32 bits
                5 => *rng.pick(&U64_EDGES),
                6 => u32::MAX as u64 - rng.below(2) as u64,
                _ => inr,
            }
        };
        pos.push(p);
    }
    if rng.bool() {
        let set: BTreeSet<u64> = pos.iter().copied().collect();
        pos = set.into_iter().collect();
        rng.shuffle(&mut pos);
    } else if !pos.is_empty() && rng.bool() {
        let (a, b) = (rng.below(pos.len()), rng.below(pos.len()));
        pos[a] = pos[b];
    }
    match rng.below(5) {
        0 | 1 => pos.sort_unstable(),
        2 => pos.sort_unstable_by(|a, b| b.cmp(a)),
        _ => {} // as generated / shuffled
    }
    let nv = if rng.chance(1, 6) {
        match rng.below(4) {
            0 => 0,
            1 => pos.len().saturating_sub(1 + rng.below(3)),
            _ => pos.len() + 1 + rng.below(3),
        }
    } else {
        pos.len()
    };
    // distinct recognisable values (so that the oracle can tell which pair an element came from),
    // with the hostile floats mixed in
    let values: Vec<f32> = (0..nv).map(|i| if rng.chance(1, 5) { g_f32(rng) } else { (i + 1) as f32 + 0.5 }).collect();
    HostileSparse { dimension, positions: pos, values }
}

/// the field as the crate's own encoders build it (the public `compress_sparse` wherever its
/// signature can carry the value)
fn hostile_sparse_field(h: &HostileSparse, r: &mut Report, part: &str) -> CompressedValue {
    if h.positions.len() == h.values.len() && h.positions.iter().all(|&p| p <= u32::MAX as u64) {
        r.count(&format!("{}:sparse-built-by-compress_sparse", part), 1);
        let p32: Vec<u32> = h.positions.iter().map(|&p| p as u32).collect();
        tensor_compress::compress_sparse(h.dimension, &p32, &h.values)
    } else {
        CompressedValue::VectorSparse { dimension: h.dimension, positions: compress_ids(&h.positions), values: h.values.clone() }
    }
}

/// judges `decompress_vector` on a sparse field. `field` is the value to decode (as built, or as it
/// came back from a container), `h` what was encoded
fn judge_sparse_field(cx: &mut GCtx, field: &CompressedValue, h: &HostileSparse, level: &str) -> bool {
    let f = SparseFeatures::of(h);
    let pos_bytes: Vec<u8> = match field {
        CompressedValue::VectorSparse { positions, .. } => positions.clone(),
        _ => Vec::new(),
    };
    let how = format!("{} VectorSparse{{dimension: {}, positions: compress_ids({:?}), {} values}} [{:?}]", level, h.dimension, h.positions, h.values.len(), f);
    let input_len = pos_bytes.len() + 4 * h.values.len();
    let limit = 4 * h.dimension + 64 * input_len + SLACK;
    let res = measured(|| decompress_vector(field));
    let d = match cx.judge("decompress_vector(VectorSparse)", &how, &pos_bytes, limit, "4*dimension+64*input+64KiB", res) {
        None => return false,
        Some(Err(e)) => {
            if f.honest() {
                cx.r.violation("g-hostile:honest-sparse-field-rejected", format!("{}: {}", how, e), cx.replay());
                return false;
            }
            cx.r.count(&format!("{}:sparse-rejected", cx.part), 1);
            return true;
        }
        Some(Ok(d)) => d,
    };
    cx.r.count(&format!("{}:sparse-decoded-ok", cx.part), 1);
    if d.len() != h.dimension {
        cx.r.violation("g-hostile:sparse-field-decoded-with-wrong-dimension", format!("{}: decoded {} elements", how, d.len()), cx.replay());
        return false;
    }
    // content is demanded only where the encoded value is well defined: the pairs form a set (unique
    // in-range positions, one value each), listed in whatever order
    if f.pair_set() {
        let mut want = vec![0u32; h.dimension];
        for (&p, &v) in h.positions.iter().zip(&h.values) {
            want[p as usize] = v.to_bits();
        }
        if let Some(i) = d.iter().zip(&want).position(|(x, w)| if f32::from_bits(*w) == 0.0 { *x != 0.0 } else { x.to_bits() != *w }) {
            cx.r.violation(
                if f.honest() { "g-hostile:honest-sparse-field-altered" } else { "g-hostile:unsorted-sparse-field-altered" },
                format!("{}: element {} has bits {:08x}, encoded {:08x}", how, i, d[i].to_bits(), want[i]),
                cx.replay(),
            );
            return false;
        }
        cx.r.count(&format!("{}:sparse-fields-exact", cx.part), 1);
    }
    cx.r.count(&format!("{}:sparse-elements-checked", cx.part), d.len() as u64);
    true
}

#[derive(Clone, Debug)]
struct HostileTt {
    value: CompressedValue,
    class: &'static str,
    /// honest control: must decode
    consistent: bool,
    /// checked product of the declared shape
    product: Option<usize>,
    original_dim: usize,
    data_len: usize,
    zero_rank: bool,
}

fn gen_hostile_tt(rng: &mut Rng) -> HostileTt {
    const HUGE: [usize; 5] = [1 << 40, 1 << 62, usize::MAX / 2, usize::MAX - 1, usize::MAX];
    let n = 1 + rng.below(4);
    let mut shape: Vec<usize> = (0..n).map(|_| 1 + rng.below(5)).collect();
    let mut ranks: Vec<usize> = vec![1];
    for _ in 1..n {
        ranks.push(1 + rng.below(3));
    }
    ranks.push(1);
    let mut cores: Vec<TTCore> = (0..n)
        .map(|k| {
            let len = ranks[k] * shape[k] * ranks[k + 1];
            TTCore { data: (0..len).map(|_| rng.f64_in(-1.0, 1.0) as f32).collect(), shape: (ranks[k], shape[k], ranks[k + 1]) }
        })
        .collect();
    let mut original_dim: usize = shape.iter().product();
    let hostile_num = |rng: &mut Rng, old: usize| -> usize {
        match rng.below(6) {
            0 => 0,
            1 => old + 1,
            2 => old.saturating_sub(1),
            3 => old + 1 + rng.below(7),
            _ => *rng.pick(&HUGE),
        }
    };
    let k = rng.below(n);
    let class = match rng.below(13) {
        0 | 1 => "consistent-control",
        12 if n >= 2 => {
            // a chain through a zero rank: the two cores at the bond hold no data, every product
            // r1*mode*r2 still equals the data length
            let b = rng.below(n - 1);
            cores[b].shape.2 = 0;
            cores[b].data.clear();
            cores[b + 1].shape.0 = 0;
            cores[b + 1].data.clear();
            "zero-rank-chain"
        }
        2 => {
            cores[k].shape.0 = hostile_num(rng, cores[k].shape.0);
            "left-rank-changed"
        }
        3 => {
            cores[k].shape.1 = hostile_num(rng, cores[k].shape.1);
            "core-mode-changed"
        }
        4 => {
            cores[k].shape.2 = hostile_num(rng, cores[k].shape.2);
            "right-rank-changed"
        }
        5 => {
            match rng.below(3) {
                0 => cores[k].data.clear(),
                1 => {
                    cores[k].data.pop();
                }
                _ => cores[k].data.extend((0..1 + rng.below(5)).map(|_| 1.0f32)),
            }
            "core-data-count-changed"
        }
        6 => {
            shape[k] = hostile_num(rng, shape[k]);
            "shape-entry-changed"
        }
        7 => {
            if rng.bool() {
                cores.remove(k);
            } else {
                let c = cores[k].clone();
                cores.insert(k, c);
            }
            "core-count-changed"
        }
        8 => {
            if rng.bool() {
                shape.pop();
            } else {
                shape.push(1 + rng.below(4));
            }
            "shape-length-changed"
        }
        9 => {
            original_dim = hostile_num(rng, original_dim);
            if rng.bool() {
                ranks = g_vec(rng, 5, |r| hostile_num(r, 1));
            }
            "original-dim-or-rank-list-changed"
        }
        10 => {
            // self-consistent cores whose chain does not start / end with rank 1
            let r = 2 + rng.below(2);
            if rng.bool() {
                let c = &mut cores[0];
                c.shape.0 = r;
                c.data = vec![0.5; r * c.shape.1 * c.shape.2];
            } else {
                let c = &mut cores[n - 1];
                c.shape.2 = r;
                c.data = vec![0.5; c.shape.0 * c.shape.1 * r];
            }
            "open-chain"
        }
        _ => {
            for s in shape.iter_mut() {
                *s = *rng.pick(&HUGE);
            }
            "shape-product-overflows"
        }
    };
    let product = shape.iter().try_fold(1usize, |a, &b| a.checked_mul(b));
    HostileTt {
        consistent: class == "consistent-control",
        class,
        product,
        original_dim,
        data_len: cores.iter().map(|c| c.data.len()).sum(),
        zero_rank: cores.iter().any(|c| c.shape.0 == 0 || c.shape.2 == 0),
        value: CompressedValue::VectorTT { cores, original_dim, shape, ranks },
    }
}

fn judge_tt_field(cx: &mut GCtx, field: &CompressedValue, t: &HostileTt, level: &str) -> bool {
    // a chain through a zero rank holds no data whatever its mode sizes are: such a field can
    // legitimately claim any number of (zero) elements, and no ceiling is declared for that
    let small = t.product.is_some_and(|p| p <= 1 << 16);
    if !small && t.zero_rank {
        cx.r.count(&format!("{}:skipped-legitimately-expansive", cx.part), 1);
        return true;
    }
    let how = format!("{} VectorTT [{}] {:?}", level, t.class, field);
    let how = if how.len() > 700 { format!("{}...", &how[..700]) } else { how };
    // without a zero rank every consistent core holds at least `mode` values, so the output of a
    // successful decode is bounded by the product of the data lengths; a field claiming more
    // cannot be decoded and must not be allocated for
    let out = if small { t.product.unwrap_or(0) } else { 0 };
    let limit = 64 * out + 256 * 4 * t.data_len + SLACK;
    let res = measured(|| decompress_vector(field).map(|v| v.len()));
    match cx.judge("decompress_vector(VectorTT)", &how, &[], limit, "64*product(shape)+1024*core_values+64KiB", res) {
        None => false,
        Some(Err(e)) => {
            if t.consistent {
                cx.r.violation("g-hostile:consistent-tensor-train-field-rejected", format!("{}: {}", how, e), cx.replay());
                return false;
            }
            cx.r.count(&format!("{}:tt-rejected", cx.part), 1);
            true
        }
        Some(Ok(len)) => {
            cx.r.count(&format!("{}:tt-decoded-ok", cx.part), 1);
            if t.consistent && Some(len) != t.product {
                cx.r.violation(
                    "g-hostile:consistent-tensor-train-field-decoded-with-wrong-length",
                    format!("{}: decoded {} elements; declared shape has {:?}, original_dim {}", how, len, t.product, t.original_dim),
                    cx.replay(),
                );
                return false;
            }
            true
        }
    }
}

fn gen_hostile_rle(rng: &mut Rng) -> RleEncoded<i64> {
    let n = rng.below(8);
    let values: Vec<i64> = (0..n).map(|_| g_u64(rng) as i64).collect();
    let runs = match rng.below(4) {
        0 => n,
        1 => n.saturating_sub(1 + rng.below(2)),
        _ => n + rng.below(4),
    };
    let run_lengths: Vec<u32> = (0..runs)
        .map(|i| {
            if i < n {
                *rng.pick(&[0u32, 0, 1, 1, 2, 3, 255, 256, 1000, 40_000])
            } else {
                // run lengths without a value
                *rng.pick(&[0u32, 1, 1000, 1 << 20, 1 << 26])
            }
        })
        .collect();
    RleEncoded { values, run_lengths }
}

fn judge_rle_field(cx: &mut GCtx, field: &CompressedValue, enc: &RleEncoded<i64>, level: &str) -> bool {
    let pairs = enc.values.len().min(enc.run_lengths.len());
    let want: Vec<i64> = enc.values[..pairs].iter().zip(&enc.run_lengths[..pairs]).flat_map(|(v, &c)| std::iter::repeat(*v).take(c as usize)).collect();
    let how = format!("{} RleInt{{values: {:?}, run_lengths: {:?}}}", level, enc.values, enc.run_lengths);
    let input_len = 8 * enc.values.len() + 4 * enc.run_lengths.len();
    let limit = 16 * want.len() + 64 * input_len + SLACK;
    let res = measured(|| decompress_ints(field));
    match cx.judge("decompress_ints(RleInt)", &how, &[], limit, "16*decoded_elements+64*input+64KiB", res) {
        None => false,
        Some(got) => {
            if enc.values.len() == enc.run_lengths.len() && got != want {
                let i = got.iter().zip(&want).position(|(a, b)| a != b).unwrap_or(got.len().min(want.len()));
                cx.r.violation(
                    "g-hostile:run-length-field-altered",
                    format!("{}: decoded {} elements, the paired runs hold {}; first difference at {}", how, got.len(), want.len(), i),
                    cx.replay(),
                );
                return false;
            }
            cx.r.count(&format!("{}:rle-decoded-ok", cx.part), 1);
            true
        }
    }
}

fn judge_ids_field(cx: &mut GCtx, field: &CompressedValue, ids: &[u64], level: &str) -> bool {
    let bytes: Vec<u8> = match field {
        CompressedValue::IdList(b) => b.clone(),
        _ => Vec::new(),
    };
    let how = format!("{} IdList(compress_ids({:?}{}))", level, &ids[..ids.len().min(24)], if ids.len() > 24 { "..." } else { "" });
    let res = measured(|| decompress_vector(field));
    match cx.judge("decompress_vector(IdList)", &how, &bytes, 64 * bytes.len() + SLACK, "64*input+64KiB", res) {
        None => false,
        Some(Err(e)) => {
            cx.r.violation("g-hostile:id-list-field-rejected", format!("{}: {}", how, e), cx.replay());
            false
        }
        Some(Ok(v)) => {
            let want: Vec<f32> = ids.iter().map(|&i| i as f32).collect();
            if let Some(i) = value_eq_f32(&want, &v) {
                cx.r.violation(
                    if is_sorted(ids) { "g-hostile:sorted-id-list-field-altered" } else { "g-hostile:unsorted-id-list-field-altered" },
                    format!("{}: differs at {} ({} ids, {} decoded): {:?} vs {:?}", how, i, ids.len(), v.len(), want.get(i), v.get(i)),
                    cx.replay(),
                );
                return false;
            }
            cx.r.count(&format!("{}:ids-decoded-ok", cx.part), 1);
            true
        }
    }
}

enum HostileField {
    Sparse(HostileSparse),
    Tt(HostileTt),
    Rle(RleEncoded<i64>),
    Ids(Vec<u64>),
}

fn gen_hostile_field(rng: &mut Rng, extreme_dimensions: bool, r: &mut Report, part: &str) -> (CompressedValue, HostileField) {
    match rng.weighted(&[6, 3, 1, 1]) {
        0 => {
            let h = gen_hostile_sparse(rng, extreme_dimensions);
            SparseFeatures::of(&h).count(part, r);
            (hostile_sparse_field(&h, r, part), HostileField::Sparse(h))
        }
        1 => {
            let t = gen_hostile_tt(rng);
            r.count(&format!("{}:tt[{}]", part, t.class), 1);
            (t.value.clone(), HostileField::Tt(t))
        }
        2 => {
            let e = gen_hostile_rle(rng);
            r.count(&format!("{}:rle[{}]", part, if e.values.len() == e.run_lengths.len() { "paired" } else { "count-mismatch" }), 1);
            (CompressedValue::RleInt(e.clone()), HostileField::Rle(e))
        }
        _ => {
            let (mut ids, class) = gen_ids(rng);
            ids.truncate(200);
            r.count(&format!("{}:ids[{}]", part, class), 1);
            (CompressedValue::IdList(compress_ids(&ids)), HostileField::Ids(ids))
        }
    }
}

fn judge_hostile_field(cx: &mut GCtx, v: &CompressedValue, f: &HostileField, level: &str) -> bool {
    match f {
        HostileField::Sparse(h) => judge_sparse_field(cx, v, h, level),
        HostileField::Tt(t) => judge_tt_field(cx, v, t, level),
        HostileField::Rle(e) => judge_rle_field(cx, v, e, level),
        HostileField::Ids(ids) => judge_ids_field(cx, v, ids, level),
    }
}

/// (c) of g-hostile: the wire form of `SparseVector`, alone, in a sequence and inside a network frame
fn hostile_sparse_wire(cx: &mut GCtx, rng: &mut Rng) -> bool {
    // a value of the SparseVector shape that the real constructors refuse to build
    let h = gen_hostile_sparse(rng, true);
    let f = SparseFeatures::of(&h);
    let mirror = |h: &HostileSparse| SvMirror { dimension: h.dimension, positions: h.positions.iter().map(|&p| p as u32).collect(), values: h.values.clone() };
    // judged on the 32-bit positions that are actually on the wire
    let wire = HostileSparse { dimension: h.dimension, positions: mirror(&h).positions.iter().map(|&p| p as u64).collect(), values: h.values.clone() };
    let wf = SparseFeatures::of(&wire);
    if f.above_u32 {
        cx.r.count("g-hostile:wire:sparse[positions-cut-to-32-bits]", 1);
    }
    let valid = wf.honest() && wire.dimension <= tensor_store::SPARSE_MAX_DIMENSION;
    let nonzero = |p: &[u32], v: &[f32]| -> Vec<(u32, u32)> { p.iter().zip(v).filter(|(_, x)| **x != 0.0).map(|(&p, x)| (p, x.to_bits())).collect() };
    let wire_nonzero = nonzero(&mirror(&h).positions, &wire.values);
    wf.count("g-hostile:wire", cx.r);
    let how = format!("SparseVector wire {{dimension: {}, positions: {:?}, {} values}} [{:?}]", wire.dimension, wire.positions, wire.values.len(), wf);
    // the mirror must be the encoder's own byte layout: checked on an honest value every time
    let honest = SparseVector::from_parts(100, vec![1, 5, 99], vec![1.0, -2.0, 3.5]);
    let honest_m = SvMirror { dimension: 100, positions: vec![1, 5, 99], values: vec![1.0, -2.0, 3.5] };
    match (bitcode::serialize(&honest), bitcode::serialize(&honest_m)) {
        (Ok(a), Ok(b)) if a == b => {}
        _ => {
            cx.r.inconclusive("g-hostile: the SparseVector mirror no longer matches the real encoding");
            return true;
        }
    }
    let bytes = match bitcode::serialize(&mirror(&h)) {
        Ok(b) => b,
        Err(_) => {
            cx.r.inconclusive("g-hostile: mirror serialisation failed");
            return true;
        }
    };
    let limit = 256 * bytes.len() + SERDE_CAP + SLACK;
    let check_value = |cx: &mut GCtx, s: &SparseVector, what: &str| -> bool {
        if let Some(why) = sparse_invalid(s) {
            cx.r.violation("g-hostile:invalid-sparse-vector-accepted", format!("{} returned Ok for {}, but the value breaks the type's invariant: {}", what, how, why), cx.replay());
            return false;
        }
        if valid && (s.dimension() != wire.dimension || nonzero(s.positions(), s.values()) != wire_nonzero) {
            cx.r.violation("g-hostile:honest-sparse-vector-altered", format!("{}: {} decoded as {}", what, how, canon_sparse(s)), cx.replay());
            return false;
        }
        if s.dimension() <= 1 << 16 {
            let res = measured(|| (s.to_dense().len(), s.magnitude(), s.dot(s)));
            if cx.judge("SparseVector methods on decoded value", &how, &[], 4 * s.dimension() + SLACK, "4*dimension+64KiB", res).is_none() {
                return false;
            }
        }
        true
    };
    // alone
    let res = measured(|| bitcode::deserialize::<SparseVector>(&bytes));
    match cx.judge("bitcode<SparseVector>", &how, &bytes, limit, "256*input+4MiB+64KiB", res) {
        None => return false,
        Some(Err(e)) => {
            if valid {
                cx.r.violation("g-hostile:honest-sparse-vector-rejected", format!("{}: {}", how, e), cx.replay());
                return false;
            }
            cx.r.count("g-hostile:wire-rejected", 1);
        }
        Some(Ok(s)) => {
            cx.r.count("g-hostile:wire-decoded-ok", 1);
            if !check_value(cx, &s, "bitcode::deserialize::<SparseVector>") {
                return false;
            }
        }
    }
    // in a sequence next to an honest one
    if let Ok(b) = bitcode::serialize(&vec![honest_m, mirror(&h)]) {
        let res = measured(|| bitcode::deserialize::<Vec<SparseVector>>(&b));
        match cx.judge("bitcode<Vec<SparseVector>>", &how, &b, 256 * b.len() + SERDE_CAP + SLACK, "256*input+4MiB+64KiB", res) {
            None => return false,
            Some(Err(_)) => {
                if valid {
                    cx.r.violation("g-hostile:honest-sparse-vector-rejected", format!("in a sequence: {}", how), cx.replay());
                    return false;
                }
            }
            Some(Ok(v)) => {
                if v.len() != 2 || !check_value(cx, &v[1], "bitcode::deserialize::<Vec<SparseVector>>") {
                    return false;
                }
            }
        }
    }
    // inside a network frame: RequestVote.state_embedding
    let rv = |e: SvMirror| MsgMirror::RequestVote(RvMirror { term: 7, candidate_id: "n1".into(), last_log_index: 3, last_log_term: 2, state_embedding: e });
    let codec = LengthDelimitedCodec::new(1 << 20);
    let real = Message::RequestVote(RequestVote { term: 7, candidate_id: "n1".into(), last_log_index: 3, last_log_term: 2, state_embedding: honest });
    let same = match (codec.encode(&real), bitcode::serialize(&rv(SvMirror { dimension: 100, positions: vec![1, 5, 99], values: vec![1.0, -2.0, 3.5] }))) {
        (Ok(f), Ok(m)) => f.len() >= 4 && f[4..] == m[..],
        _ => false,
    };
    if !same {
        cx.r.inconclusive("g-hostile: the RequestVote mirror no longer matches the real frame encoding");
        return true;
    }
    if let Ok(payload) = bitcode::serialize(&rv(mirror(&h))) {
        let v2 = rng.bool();
        let inp: Vec<u8> = if v2 {
            let mut p = vec![0u8];
            p.extend_from_slice(&payload);
            p
        } else {
            payload
        };
        let declared = if v2 { (1usize << 20).max(tcpc::MAX_DECOMPRESSED_SIZE) } else { 1 << 20 };
        let res = measured(|| if v2 { codec.decode_payload_v2(&inp) } else { codec.decode_payload(&inp) });
        match cx.judge(if v2 { "decode_payload_v2" } else { "decode_payload" }, &format!("RequestVote carrying {}", how), &inp, declared + 256 * inp.len() + SERDE_CAP + SLACK, "max_frame_length(+MAX_DECOMPRESSED_SIZE)+256*input+4MiB+64KiB", res) {
            None => return false,
            Some(Err(_)) => {
                if valid {
                    cx.r.violation("g-hostile:honest-sparse-vector-rejected", format!("inside a RequestVote frame: {}", how), cx.replay());
                    return false;
                }
                cx.r.count("g-hostile:frame-rejected", 1);
            }
            Some(Ok(Message::RequestVote(m))) => {
                cx.r.count("g-hostile:frame-decoded-ok", 1);
                if !check_value(cx, &m.state_embedding, "decode_payload(RequestVote)") {
                    return false;
                }
                let validator = CompositeValidator::new(MessageValidationConfig::default());
                let msg = Message::RequestVote(m);
                let res = measured(|| {
                    let _ = format!("{:?}", msg);
                    let _ = validator.validate(&msg, &"peer".to_string());
                    bitcode::serialize(&msg).is_ok()
                });
                if cx.judge("use of decoded Message (Debug, validate, re-serialize)", &how, &inp, usize::MAX, "-", res).is_none() {
                    return false;
                }
            }
            Some(Ok(other)) => {
                cx.r.violation("g-hostile:frame-decoded-as-other-message", format!("{} decoded as {}", how, other.type_name()), cx.replay());
                return false;
            }
        }
    }
    true
}

fn g_hostile_case(cx: &mut GCtx) {
    let mut rng = Rng::new(cx.case_seed);
    let part = cx.part.to_string();
    // (a) value level: the field as the encoders built it
    let mut fields: Vec<(CompressedValue, HostileField)> = Vec::new();
    for _ in 0..1 + rng.below(4) {
        fields.push(gen_hostile_field(&mut rng, false, cx.r, &part));
    }
    let mut h = 0u64;
    for (v, f) in &fields {
        if !judge_hostile_field(cx, v, f, "as built:") {
            return;
        }
    }
    // (b) container level: the same fields after a trip through the snapshot container
    let mut map = BTreeMap::new();
    for (k, (v, _)) in fields.iter().enumerate() {
        map.insert(format!("f{}", k), v.clone());
    }
    let snap = CompressedSnapshot { header: Header::new(CompressionConfig::default(), 1), entries: vec![CompressedEntry { key: "k".into(), fields: map }] };
    match snap.serialize() {
        Ok(bytes) => {
            h = hash_combine(h, hash_bytes(&bytes));
            let res = measured(|| CompressedSnapshot::deserialize(&bytes));
            match cx.judge("CompressedSnapshot::deserialize", "container of hostile fields", &bytes, 256 * bytes.len() + SERDE_CAP + SLACK, "256*input+4MiB+64KiB", res) {
                None => return,
                Some(Err(e)) => {
                    cx.r.violation("g-hostile:structurally-valid-snapshot-rejected", format!("deserialize(serialize(s)) failed: {}", e), cx.replay());
                    return;
                }
                Some(Ok(back)) => {
                    for (k, (_, f)) in fields.iter().enumerate() {
                        match back.entries.first().and_then(|e| e.fields.get(&format!("f{}", k))) {
                            Some(v) => {
                                if !judge_hostile_field(cx, v, f, "from a decoded snapshot:") {
                                    return;
                                }
                            }
                            None => {
                                cx.r.violation("g-hostile:snapshot-lost-a-field", format!("field f{} missing after deserialize(serialize(s))", k), cx.replay());
                                return;
                            }
                        }
                    }
                    cx.r.count("g-hostile:containers-decoded", 1);
                }
            }
        }
        Err(_) => cx.r.count("g-hostile:container-serialize-error", 1),
    }
    // (c) the wire form of SparseVector
    if !hostile_sparse_wire(cx, &mut rng) {
        return;
    }
    cx.r.eval(hash_combine(h, cx.case_seed), true);
}

// ---- g-hostfile: the same hostile fields in a snapshot FILE, through the store's loader ----------

fn g_hostfile_case(cx: &mut GCtx, dir: &Path) {
    let mut rng = Rng::new(cx.case_seed);
    let part = cx.part.to_string();
    let path = fresh_path(dir, "hsnap");
    let mut entries = Vec::new();
    let mut expect: Vec<(String, String, HostileField)> = Vec::new();
    let mut what = Vec::new();
    for i in 0..1 + rng.below(2) {
        let key = format!("k{}", i);
        let mut fields = BTreeMap::new();
        fields.insert("n".to_string(), CompressedValue::Scalar(CompressedScalar::Int(i as i64)));
        for k in 0..1 + rng.below(2) {
            let name = format!("f{}", k);
            let (v, f) = loop {
                let (v, f) = gen_hostile_field(&mut rng, true, &mut Report::new(), &part);
                // the loader expands these without a declared ceiling: only small claims
                let ok = match &f {
                    HostileField::Tt(t) => t.product.is_some_and(|p| p <= 1 << 16) || !t.zero_rank,
                    _ => true,
                };
                if ok {
                    break (v, f);
                }
            };
            match &f {
                HostileField::Sparse(h) => {
                    SparseFeatures::of(h).count(&part, cx.r);
                    if h.dimension > tensor_store::SPARSE_MAX_DIMENSION {
                        cx.r.count("g-hostfile:sparse[dimension-above-MAX_DIMENSION]", 1);
                    } else if h.dimension >= u32::MAX as usize - 1 {
                        cx.r.count("g-hostfile:sparse[dimension-at-MAX_DIMENSION]", 1);
                    }
                    what.push(format!("{}.{} = VectorSparse{{dimension: {}, positions: compress_ids({:?}), {} values}}", key, name, h.dimension, h.positions, h.values.len()));
                }
                HostileField::Tt(t) => {
                    cx.r.count(&format!("{}:tt[{}]", part, t.class), 1);
                    what.push(format!("{}.{} = VectorTT[{}]", key, name, t.class));
                }
                HostileField::Rle(e) => what.push(format!("{}.{} = RleInt{{{} values, run_lengths {:?}}}", key, name, e.values.len(), e.run_lengths)),
                HostileField::Ids(ids) => what.push(format!("{}.{} = IdList({} ids)", key, name, ids.len())),
            }
            fields.insert(name.clone(), v);
            expect.push((key.clone(), name, f));
        }
        entries.push(CompressedEntry { key, fields });
    }
    let snap = CompressedSnapshot { header: Header::new(CompressionConfig::default(), entries.len() as u64), entries };
    let bytes = match snap.serialize() {
        Ok(b) => b,
        Err(_) => {
            cx.r.inconclusive("g-hostfile: serialize failed");
            return;
        }
    };
    if std::fs::write(&path, &bytes).is_err() {
        cx.r.inconclusive("scratch write failed");
        return;
    }
    let how = format!("snapshot file built by CompressedSnapshot::serialize with {}", what.join("; "));
    let how = if how.len() > 900 { format!("{}...", &how[..900]) } else { how };
    // allocation is not judged here: slab construction has no declared ceiling
    let res = measured(|| {
        TensorStore::load_snapshot_compressed(&path).map(|s| {
            let mut got: Vec<Option<TensorValue>> = Vec::new();
            for (key, name, _) in &expect {
                got.push(s.get(key).ok().and_then(|t| t.get(name).cloned()));
            }
            got
        })
    });
    cleanup(&path);
    match cx.judge("TensorStore::load_snapshot_compressed", &how, &bytes, usize::MAX, "-", res) {
        None => return,
        Some(Err(_)) => cx.r.count("g-hostfile:rejected", 1),
        Some(Ok(got)) => {
            cx.r.count("g-hostfile:loaded-ok", 1);
            for ((key, name, f), g) in expect.iter().zip(got) {
                let (h, s) = match (f, g) {
                    (HostileField::Sparse(h), Some(TensorValue::Sparse(s))) => (h, s),
                    _ => continue,
                };
                cx.r.count("g-hostfile:sparse-fields-loaded", 1);
                if let Some(why) = sparse_invalid(&s) {
                    cx.r.violation("g-hostfile:invalid-sparse-vector-loaded", format!("{}: {}.{} loaded as {} which breaks the type's invariant: {}", how, key, name, canon_sparse(&s), why), cx.replay());
                    return;
                }
                let feat = SparseFeatures::of(h);
                if feat.honest() && !feat.above_u32 && h.dimension <= tensor_store::SPARSE_MAX_DIMENSION {
                    // the honest control: the non-zero pairs, exactly
                    let want: Vec<(u32, u32)> = h.positions.iter().zip(&h.values).filter(|(_, v)| **v != 0.0).map(|(&p, v)| (p as u32, v.to_bits())).collect();
                    let have: Vec<(u32, u32)> = s.positions().iter().zip(s.values()).map(|(&p, v)| (p, v.to_bits())).collect();
                    if s.dimension() != h.dimension || want != have {
                        cx.r.violation("g-hostfile:honest-sparse-field-altered", format!("{}: {}.{} loaded as {}", how, key, name, canon_sparse(&s)), cx.replay());
                        return;
                    }
                    cx.r.count("g-hostfile:honest-sparse-fields-exact", 1);
                }
            }
        }
    }
    cx.r.eval(hash_bytes(&bytes), true);
}

// ------------------------------------------------------------------------------------------------
// part tables
// ------------------------------------------------------------------------------------------------

struct PartSpec {
    name: &'static str,
    evals_counter: &'static str,
    quick: u64,
    thorough: u64,
    budget_q: u64,
    budget_t: u64,
    floor: u64,
    garbage: bool,
    /// cases per child process (garbage parts)
    chunk: u64,
}

const PARTS: &[PartSpec] = &[
    PartSpec { name: "ids", evals_counter: "evals:ids", quick: 40000, thorough: 1500000, budget_q: 8, budget_t: 90, floor: 2_000, garbage: false, chunk: 0 },
    PartSpec { name: "rle", evals_counter: "evals:rle", quick: 500, thorough: 15000, budget_q: 8, budget_t: 90, floor: 100, garbage: false, chunk: 0 },
    PartSpec { name: "sparse", evals_counter: "evals:sparse", quick: 10000, thorough: 300000, budget_q: 8, budget_t: 90, floor: 500, garbage: false, chunk: 0 },
    PartSpec { name: "vecfield", evals_counter: "evals:vecfield", quick: 10000, thorough: 300000, budget_q: 8, budget_t: 90, floor: 500, garbage: false, chunk: 0 },
    PartSpec { name: "walstore", evals_counter: "evals:walstore", quick: 3000, thorough: 100000, budget_q: 10, budget_t: 120, floor: 150, garbage: false, chunk: 0 },
    PartSpec { name: "walraft", evals_counter: "evals:walraft", quick: 3000, thorough: 100000, budget_q: 10, budget_t: 120, floor: 150, garbage: false, chunk: 0 },
    PartSpec { name: "waltx", evals_counter: "evals:waltx", quick: 3000, thorough: 100000, budget_q: 10, budget_t: 120, floor: 150, garbage: false, chunk: 0 },
    PartSpec { name: "frame", evals_counter: "evals:frame", quick: 13200, thorough: 660000, budget_q: 15, budget_t: 180, floor: 1_000, garbage: false, chunk: 0 },
    PartSpec { name: "tcpcomp", evals_counter: "evals:tcpcomp", quick: 1600, thorough: 16000, budget_q: 10, budget_t: 120, floor: 100, garbage: false, chunk: 0 },
    PartSpec { name: "tt", evals_counter: "evals:tt", quick: 1500, thorough: 40000, budget_q: 15, budget_t: 180, floor: 60, garbage: false, chunk: 0 },
    PartSpec { name: "ttspec", evals_counter: "evals:ttspec", quick: 4000, thorough: 150000, budget_q: 12, budget_t: 240, floor: 300, garbage: false, chunk: 0 },
    PartSpec { name: "validate", evals_counter: "evals:validate", quick: 2850, thorough: 114_000, budget_q: 8, budget_t: 90, floor: 300, garbage: false, chunk: 0 },
    PartSpec { name: "g-ids", evals_counter: "evals:g-ids", quick: 2500, thorough: 80000, budget_q: 25, budget_t: 400, floor: 60, garbage: true, chunk: 250 },
    PartSpec { name: "g-rle", evals_counter: "evals:g-rle", quick: 1200, thorough: 40000, budget_q: 25, budget_t: 400, floor: 40, garbage: true, chunk: 100 },
    PartSpec { name: "g-sparse", evals_counter: "evals:g-sparse", quick: 2500, thorough: 80000, budget_q: 25, budget_t: 400, floor: 60, garbage: true, chunk: 250 },
    PartSpec { name: "g-snapfmt", evals_counter: "evals:g-snapfmt", quick: 2000, thorough: 60000, budget_q: 25, budget_t: 400, floor: 40, garbage: true, chunk: 100 },
    PartSpec { name: "g-frame", evals_counter: "evals:g-frame", quick: 1500, thorough: 50000, budget_q: 25, budget_t: 400, floor: 40, garbage: true, chunk: 100 },
    PartSpec { name: "g-comp", evals_counter: "evals:g-comp", quick: 1500, thorough: 40000, budget_q: 25, budget_t: 400, floor: 40, garbage: true, chunk: 100 },
    PartSpec { name: "g-walstore", evals_counter: "evals:g-walstore", quick: 600, thorough: 20000, budget_q: 25, budget_t: 400, floor: 20, garbage: true, chunk: 40 },
    PartSpec { name: "g-walraft", evals_counter: "evals:g-walraft", quick: 600, thorough: 20000, budget_q: 25, budget_t: 400, floor: 20, garbage: true, chunk: 40 },
    PartSpec { name: "g-waltx", evals_counter: "evals:g-waltx", quick: 600, thorough: 20000, budget_q: 25, budget_t: 400, floor: 20, garbage: true, chunk: 40 },
    PartSpec { name: "g-snapfile", evals_counter: "evals:g-snapfile", quick: 96, thorough: 2400, budget_q: 25, budget_t: 400, floor: 6, garbage: true, chunk: 8 },
    PartSpec { name: "g-hostile", evals_counter: "evals:g-hostile", quick: 12000, thorough: 600000, budget_q: 25, budget_t: 400, floor: 300, garbage: true, chunk: 500 },
    PartSpec { name: "g-hostfile", evals_counter: "evals:g-hostfile", quick: 1200, thorough: 60000, budget_q: 25, budget_t: 400, floor: 40, garbage: true, chunk: 50 },
];

fn part_salt(name: &str) -> u64 {
    hash_str(name) | 1
}
fn spec_of(name: &str) -> Option<&'static PartSpec> {
    PARTS.iter().find(|p| p.name == name)
}
fn selected(filter: &str, p: &PartSpec) -> bool {
    match filter {
        "" | "all" => true,
        "roundtrip" => !p.garbage,
        "garbage" => p.garbage,
        f => f.split(',').any(|x| x == p.name),
    }
}

fn run_roundtrip_case(part: &str, i: u64, s: u64, thorough: bool, dir: &Path, r: &mut Report) {
    let (e0, i0) = (r.evaluations, r.inconclusive);
    run_roundtrip_case_inner(part, i, s, thorough, dir, r);
    if r.evaluations == e0 && r.inconclusive == i0 {
        // the oracle was evaluated and refuted (the case functions return at the first violation)
        r.eval(s, true);
    }
}
fn run_roundtrip_case_inner(part: &str, i: u64, s: u64, thorough: bool, dir: &Path, r: &mut Report) {
    match part {
        "ids" => part_ids(s, r),
        "rle" => part_rle(s, r),
        "sparse" => part_sparse(s, r),
        "vecfield" => part_vecfield(s, r),
        "walstore" => part_walstore(s, dir, r),
        "walraft" => part_walraft(s, dir, r),
        "waltx" => part_waltx(s, dir, r),
        "frame" => part_frame(i, s, r),
        "tcpcomp" => part_tcpcomp(i, s, thorough, r),
        "tt" => part_tt(s, r),
        "ttspec" => part_ttspec(s, r),
        "validate" => part_validate(i, s, r),
        _ => r.inconclusive("unknown part"),
    }
}

fn run_garbage_case(part: &str, s: u64, dir: &Path, r: &mut Report) {
    let (e0, i0) = (r.evaluations, r.inconclusive);
    run_garbage_case_inner(part, s, dir, r);
    if r.evaluations == e0 && r.inconclusive == i0 {
        r.eval(s, true);
    }
}
fn run_garbage_case_inner(part: &str, s: u64, dir: &Path, r: &mut Report) {
    let mut cx = GCtx { part, case_seed: s, r };
    match part {
        "g-ids" => g_ids_case(&mut cx),
        "g-rle" => g_rle_case(&mut cx),
        "g-sparse" => g_sparse_case(&mut cx),
        "g-snapfmt" => g_snapfmt_case(&mut cx),
        "g-frame" => g_frame_case(&mut cx),
        "g-comp" => g_comp_case(&mut cx),
        "g-walstore" | "g-walraft" | "g-waltx" => g_wal_case(&mut cx, dir),
        "g-snapfile" => g_snapfile_case(&mut cx, dir),
        "g-hostile" => g_hostile_case(&mut cx),
        "g-hostfile" => g_hostfile_case(&mut cx, dir),
        _ => cx.r.inconclusive("unknown part"),
    }
}

// ------------------------------------------------------------------------------------------------
// child process: runs a range of garbage cases, checkpoints its report, records where it is
// ------------------------------------------------------------------------------------------------

fn now_ms() -> u64 {
    std::time::SystemTime::now().duration_since(std::time::UNIX_EPOCH).map(|d| d.as_millis() as u64).unwrap_or(0)
}

fn write_checkpoint(out: &Path, r: &Report, next: u64) {
    let mut v = r.to_json_with_hashes();
    v["next"] = json!(next);
    let tmp = out.with_extension("ckpt-tmp");
    if std::fs::write(&tmp, serde_json::to_vec(&v).unwrap_or_default()).is_ok() {
        let _ = std::fs::rename(&tmp, out);
    }
}

fn child_main(args: &Args) {
    use std::os::unix::fs::FileExt;
    quiet_panics();
    // requests above this are refused (=> classified abort) instead of inviting the OOM killer
    REFUSE_ABOVE.store(6 * GIB, Ordering::Relaxed);
    let part = args.extra.get("part").cloned().unwrap_or_default();
    let from = args.extra_u64("from", 0);
    let count = args.extra_u64("count", 0);
    let deadline = args.extra_u64("deadline-ms", u64::MAX);
    let single = args.extra.get("case-seed").and_then(|s| s.parse::<u64>().ok());
    let progress = std::fs::OpenOptions::new().create(true).write(true).open(args.extra.get("progress").cloned().unwrap_or_else(|| "/dev/null".into())).ok();
    let scratch = args.scratch_dir(&format!("c20-{}", part));
    let mut r = Report::new();
    let base = args.seed ^ part_salt(&part);
    let mut next = from;
    let mut last_ckpt_viol = 0u64;
    let iter: Vec<(u64, u64)> = match single {
        Some(s) => vec![(0, s)],
        None => (from..from + count).map(|i| (i, case_seed(base, i))).collect(),
    };
    for (i, s) in iter {
        if now_ms() > deadline {
            r.count("budget_stops", 1);
            break;
        }
        if let Some(f) = &progress {
            let mut b = [0u8; 16];
            b[..8].copy_from_slice(&i.to_le_bytes());
            b[8..].copy_from_slice(&s.to_le_bytes());
            let _ = f.write_all_at(&b, 0);
        }
        if args.extra_u64("selftest-abort-at", u64::MAX) == i {
            // self-test of the abort classification (never set by the check driver): an allocation
            // the guard refuses, through an infallible API, ends the process the way a decoder would
            let v: Vec<u8> = vec![0u8; 7 * GIB];
            std::hint::black_box(v);
        }
        let res = std::panic::catch_unwind(std::panic::AssertUnwindSafe(|| run_garbage_case(&part, s, scratch.path(), &mut r)));
        if let Err(e) = res {
            let m = panic_msg(&e);
            r.violation(format!("{}:panic-outside-measured-call:{}", part, first_line(&m)), format!("case seed {}: {}", s, m), json!({"part": part, "case_seed": s}));
        }
        r.count("cases", 1);
        next = i + 1;
        if r.violations_total != last_ckpt_viol || (i + 1 - from) % 25 == 0 {
            last_ckpt_viol = r.violations_total;
            write_checkpoint(&args.out, &r, next);
        }
    }
    write_checkpoint(&args.out, &r, if single.is_some() { 1 } else { next.max(from) });
    let mut v: Value = serde_json::from_slice(&std::fs::read(&args.out).unwrap_or_default()).unwrap_or(json!({}));
    v["complete"] = json!(true);
    let _ = std::fs::write(&args.out, serde_json::to_vec(&v).unwrap_or_default());
}

fn classify_abort(part: &str, status: &std::process::ExitStatus, stderr: &str) -> (String, String) {
    use std::os::unix::process::ExitStatusExt;
    let tail: String = stderr.lines().rev().take(12).collect::<Vec<_>>().into_iter().rev().collect::<Vec<_>>().join(" | ");
    if let Some(l) = stderr.lines().find(|l| l.contains("AddressSanitizer")) {
        return (format!("{}:asan:{}", part, first_line(l.trim_start_matches(|c: char| !c.is_alphabetic()))), tail);
    }
    if let Some(l) = stderr.lines().find(|l| l.contains("memory allocation of")) {
        return (format!("{}:abort:allocation-refused-or-failed", part), format!("{} (requests above 6 GiB are refused by the harness allocator) | {}", l.trim(), tail));
    }
    if stderr.contains("stack overflow") || stderr.contains("has overflowed its stack") {
        return (format!("{}:abort:stack-overflow", part), tail);
    }
    if stderr.contains("capacity overflow") {
        return (format!("{}:abort:capacity-overflow", part), tail);
    }
    match status.signal() {
        Some(s) => (format!("{}:abort:signal-{}", part, s), tail),
        None => (format!("{}:abort:exit-{}", part, status.code().unwrap_or(-1)), tail),
    }
}

/// runs cases [from, from+count) of a garbage part in child processes; survives and classifies aborts
fn run_chunk(args: &Args, part: &str, from: u64, count: u64, single: Option<u64>, deadline_ms: u64, dir: &Path, total: &mut Report) {
    use std::os::unix::fs::FileExt;
    let exe = std::env::current_exe().expect("current_exe");
    let mut at = from;
    let end = from + count;
    let mut respawns = 0;
    while at < end {
        let tag = format!("{}-{}-{}", part, at, FILE_CTR.fetch_add(1, Ordering::Relaxed));
        let out = dir.join(format!("{}.json", tag));
        let prog = dir.join(format!("{}.prog", tag));
        let errp = dir.join(format!("{}.err", tag));
        let errf = match std::fs::File::create(&errp) {
            Ok(f) => f,
            Err(_) => {
                total.inconclusive("child: cannot create stderr file");
                return;
            }
        };
        let mut cmd = std::process::Command::new(&exe);
        cmd.arg("child")
            .args(["--tier", args.tier_name(), "--seed", &args.seed.to_string(), "--out"])
            .arg(&out)
            .arg("--scratch")
            .arg(dir)
            .args(["--part", part, "--from", &at.to_string(), "--count", &(end - at).to_string(), "--deadline-ms", &deadline_ms.to_string(), "--progress"])
            .arg(&prog)
            .stdin(std::process::Stdio::null())
            .stdout(std::process::Stdio::null())
            .stderr(errf);
        if let Some(s) = single {
            cmd.args(["--case-seed", &s.to_string()]);
        }
        if let Some(x) = args.extra.get("selftest-abort-at") {
            cmd.args(["--selftest-abort-at", x]);
        }
        let mut child = match cmd.spawn() {
            Ok(c) => c,
            Err(e) => {
                total.inconclusive(&format!("child spawn failed: {}", first_line(&e.to_string())));
                return;
            }
        };
        // watchdog: the workload deadline plus a generous margin (never a verdict)
        let kill_at = deadline_ms.saturating_add(180_000).max(now_ms() + 240_000);
        let status = loop {
            match child.try_wait() {
                Ok(Some(s)) => break Some(s),
                Ok(None) => {
                    if now_ms() > kill_at {
                        let _ = child.kill();
                        let _ = child.wait();
                        break None;
                    }
                    std::thread::sleep(Duration::from_millis(5));
                }
                Err(_) => break None,
            }
        };
        let rep: Option<Value> = std::fs::read(&out).ok().and_then(|b| serde_json::from_slice(&b).ok());
        let stderr = std::fs::read_to_string(&errp).unwrap_or_default();
        let progress: Option<(u64, u64)> = std::fs::File::open(&prog).ok().and_then(|f| {
            let mut b = [0u8; 16];
            f.read_exact_at(&mut b, 0).ok()?;
            Some((u64::from_le_bytes(b[..8].try_into().unwrap()), u64::from_le_bytes(b[8..].try_into().unwrap())))
        });
        for p in [&out, &prog, &errp] {
            let _ = std::fs::remove_file(p);
        }
        let mut next = at;
        let mut complete = false;
        if let Some(v) = &rep {
            total.merge(Report::from_json(v));
            next = v["next"].as_u64().unwrap_or(at);
            complete = v["complete"].as_bool().unwrap_or(false);
        }
        match status {
            None => {
                total.inconclusive(&format!("{}: child watchdog fired", part));
                return;
            }
            Some(s) if s.success() && complete => return, // whole range done (or budget stop inside the child)
            Some(s) => {
                // died: the case in progress is the witness
                let (idx, seed) = progress.unwrap_or((next, single.unwrap_or(0)));
                let (sig, detail) = classify_abort(part, &s, &stderr);
                total.violation(sig, format!("child process running case {} (seed {}) of {} died ({}): {}", idx, seed, part, s, detail), json!({"part": part, "case_seed": seed}));
                total.count("child_aborts", 1);
                if idx > next {
                    total.count("cases_lost_to_abort", idx - next);
                }
                if single.is_some() {
                    return;
                }
                at = idx.max(next) + 1;
                respawns += 1;
                if respawns > 30 {
                    total.inconclusive(&format!("{}: more than 30 aborts in one chunk, rest skipped", part));
                    return;
                }
            }
        }
    }
}

// ------------------------------------------------------------------------------------------------
// main
// ------------------------------------------------------------------------------------------------

fn main() {
    let args = Args::parse();
    if args.rest.first().map(|s| s.as_str()) == Some("child") {
        child_main(&args);
        return;
    }
    let started = Instant::now();
    quiet_panics();
    let mut total = Report::new();
    total.max_samples = 14;
    let filter = args.extra.get("part").cloned().unwrap_or_default();
    let scratch = args.scratch_dir("c20");
    let thorough = !args.quick();
    let mut floors: Vec<(&'static str, u64)> = Vec::new();

    if let Some(p) = &args.replay {
        let v: Value = serde_json::from_str(&std::fs::read_to_string(p).expect("replay file")).expect("json");
        let rp = if v.get("replay").is_some() { v["replay"].clone() } else { v.clone() };
        let part = rp["part"].as_str().unwrap_or("").to_string();
        let s = rp["case_seed"].as_u64().unwrap_or(0);
        let i = rp["case"].as_u64().unwrap_or(0);
        match spec_of(&part) {
            Some(ps) if ps.garbage => run_chunk(&args, &part, 0, 1, Some(s), u64::MAX / 4, scratch.path(), &mut total),
            Some(_) => {
                let res = std::panic::catch_unwind(std::panic::AssertUnwindSafe(|| run_roundtrip_case(&part, i, s, thorough, scratch.path(), &mut total)));
                if let Err(e) = res {
                    let m = panic_msg(&e);
                    total.violation(format!("panic:{}", first_line(&m)), m, rp.clone());
                }
            }
            None => total.inconclusive("replay file names no known part"),
        }
    } else {
        // ---- round-trip parts, one after the other, each on all threads
        for ps in PARTS.iter().filter(|p| !p.garbage && selected(&filter, p)) {
            let n = args.by_tier(ps.quick, ps.thorough);
            let dir = scratch.path().to_path_buf();
            let name = ps.name;
            let base = args.seed ^ part_salt(name);
            let t0 = Instant::now();
            let mut rep = par_cases(args.threads, base, n, args.budget(ps.budget_q, ps.budget_t), |i, s, r| run_roundtrip_case(name, i, s, thorough, &dir, r));
            // panics caught by par_cases carry only (case, case_seed): name the part for replay
            for v in rep.violations.iter_mut() {
                if v.replay.get("part").is_none() {
                    v.replay["part"] = json!(name);
                    v.signature = format!("{}:{}", name, v.signature);
                }
            }
            total.count(ps.evals_counter, rep.evaluations);
            total.count(&format!("wall_ms:{}", name), t0.elapsed().as_millis() as u64);
            floors.push((ps.evals_counter, ps.floor));
            total.merge(rep);
        }
        // the spectrum part must have judged every input group, and inputs whose singular values really are close
        if PARTS.iter().any(|p| p.name == "ttspec" && selected(&filter, p)) {
            floors.push(("ttspec:judged[dense-full-rank]", 100));
            floors.push(("ttspec:judged[clustered-spectrum]", 150));
            floors.push(("ttspec:judged[degenerate-spectrum]", 80));
            floors.push(("ttspec:judged-with-leading-singular-values-within-10%", 200));
            floors.push(("ttspec:judged-with-neighbouring-singular-values-within-5%", 200));
            floors.push(("ttspec:judged-with-leading-singular-values-within-0.01%", 40));
            floors.push(("ttspec:judged-with-returned-rank>=4", 200));
        }
        // derived coverage counters of the frame part
        if PARTS.iter().any(|p| p.name == "frame" && selected(&filter, p)) {
            let variants = total.counters.keys().filter(|k| k.starts_with("msg[")).count() as u64;
            total.count("message_variants_roundtripped", variants);
            let mut both = 0;
            let fields: BTreeSet<String> = total.counters.keys().filter(|k| k.starts_with("opt[")).map(|k| k.split(']').next().unwrap_or("").to_string()).collect();
            for f in &fields {
                let s = total.counters.get(&format!("{}]:some", f)).copied().unwrap_or(0);
                let n = total.counters.get(&format!("{}]:none", f)).copied().unwrap_or(0);
                if s > 0 && n > 0 {
                    both += 1;
                }
            }
            total.count("optional_fields_seen_both_ways", both);
            floors.push(("message_variants_roundtripped", 30));
            floors.push(("optional_fields_seen_both_ways", 11));
            floors.push(("frame_v2_compressed_on_wire", 50));
            floors.push(("frame_limit_within_2_bytes_of_payload", 100));
        }
        // ---- garbage parts: chunks of cases in child processes, spread over the worker threads
        let gparts: Vec<&PartSpec> = PARTS.iter().filter(|p| p.garbage && selected(&filter, p)).collect();
        if !gparts.is_empty() {
            let budget = gparts.iter().map(|p| args.budget(p.budget_q, p.budget_t)).max().unwrap_or(Duration::from_secs(30));
            let deadline_ms = now_ms() + budget.as_millis() as u64;
            let mut chunks: Vec<(&'static str, u64, u64)> = Vec::new();
            let rounds = gparts.iter().map(|p| (args.by_tier(p.quick, p.thorough) + p.chunk - 1) / p.chunk).max().unwrap_or(0);
            for k in 0..rounds {
                for p in &gparts {
                    let n = args.by_tier(p.quick, p.thorough);
                    let from = k * p.chunk;
                    if from < n {
                        chunks.push((p.name, from, p.chunk.min(n - from)));
                    }
                }
            }
            let next = AtomicUsize::new(0);
            let t0 = Instant::now();
            let reports: Vec<Report> = std::thread::scope(|sc| {
                let hs: Vec<_> = (0..args.threads.max(1))
                    .map(|_| {
                        sc.spawn(|| {
                            let mut r = Report::new();
                            loop {
                                let i = next.fetch_add(1, Ordering::Relaxed);
                                if i >= chunks.len() {
                                    break;
                                }
                                if now_ms() > deadline_ms {
                                    r.count("budget_stops", 1);
                                    break;
                                }
                                let (part, from, count) = chunks[i];
                                let mut cr = Report::new();
                                run_chunk(&args, part, from, count, None, deadline_ms, scratch.path(), &mut cr);
                                r.count(&format!("evals:{}", part), cr.evaluations);
                                r.merge(cr);
                            }
                            r
                        })
                    })
                    .collect();
                hs.into_iter().map(|h| h.join().expect("worker")).collect()
            });
            for r in reports {
                total.merge(r);
            }
            total.count("wall_ms:garbage", t0.elapsed().as_millis() as u64);
            for p in &gparts {
                floors.push((p.evals_counter, p.floor));
            }
            // the hostile families must actually have been fed to the decoders (and the controls too)
            if gparts.iter().any(|p| p.name == "g-hostile") {
                for c in [
                    "g-hostile:sparse[honest-control]",
                    "g-hostile:sparse[unsorted]",
                    "g-hostile:sparse[duplicate]",
                    "g-hostile:sparse[out-of-range-before-in-range]",
                    "g-hostile:sparse[count-mismatch]",
                    "g-hostile:sparse-decoded-ok",
                    "g-hostile:tt[consistent-control]",
                    "g-hostile:tt-rejected",
                    "g-hostile:wire:sparse[out-of-range]",
                    "g-hostile:wire:sparse[unsorted]",
                    "g-hostile:wire-rejected",
                    "g-hostile:frame-decoded-ok",
                ] {
                    floors.push((c, 40));
                }
            }
            if gparts.iter().any(|p| p.name == "g-hostfile") {
                for c in ["g-hostfile:sparse[honest-control]", "g-hostfile:sparse[out-of-range]", "g-hostfile:sparse[unsorted]"] {
                    floors.push((c, 10));
                }
            }
        }
    }
    if args.replay.is_some() {
        floors.clear();
    }
    let meta = Meta {
        property: "C20",
        rule: "round trip: one evaluation = one generated value (id list / run-length data / sparse vector / snapshot container + vector field / log of 1-30 records / network message through one codec configuration / byte buffer / low-TT-rank vector / vector with a full, clustered or degenerate spectrum at its unfoldings (ttspec: counted per preset and family in 'ttspec[...]', per group in 'ttspec:judged[...]', with the measured closeness of the singular values in 'ttspec:judged-with-...')) encoded and decoded by the real code and compared NaN-aware and map-order-free; distinct by hash of the encoding; non-trivial if the value is non-empty (>= 2 ids, >= 2 run elements, >= 1 non-zero, accepted by the encoder). garbage: one evaluation = one valid encoding together with all its hostile variants (every truncation and single-bit flip when <= 40 bytes, else a sample; random strings; overwrites; hostile length prefixes), each fed to the real decoder under the counting allocator; distinct by hash of the inputs; per-input counts are in '<part>:inputs'. hostile (g-hostile, g-hostfile): one evaluation = 1-4 snapshot fields (sparse / tensor-train / run-length / id list) built by the crate's own encoders from values that break the decoder's preconditions (unsorted, duplicate, out-of-range and >32-bit positions, mismatched counts, extreme dimensions, cores that do not chain) plus honest controls, decoded as built, after a trip through the snapshot container, as a SparseVector wire value (alone, in a sequence, inside a RequestVote frame) and - g-hostfile - from a snapshot file through TensorStore::load_snapshot_compressed; verdict per decode: Err or a valid value (declared dimension, type invariants), well-defined values (controls, pair sets in any order, paired runs, id lists) exact; what was fed is counted per family in '<part>:sparse[...]', '<part>:tt[...]', '<part>:wire:sparse[...]'.",
        assumptions: vec![
            "zeros of a dense vector are 'absence' for SparseVector: the sign of a zero is not required to survive; every non-zero element must come back bit for bit".into(),
            "vector fields of the quantising snapshot format are compared by value (an id list passes through integers)".into(),
            "compress_ints and rle_encode are not called by any persistence path of the store (only rle_decode is), so compress_ints' f32 fallback is not judged".into(),
            "tensor-train: bound = relative L2 error 1% (for_dim) / 0.1% (high_accuracy) as documented in tensor_compress/src/lib.rs and docs/book/src/architecture/tensor-compress.md; only inputs built with TT-rank <= max_rank/2; results whose ranks reach max_rank are inconclusive".into(),
            "tensor-train, part ttspec: the same documented bounds are demanded of every finite non-zero vector whose returned ranks stay below max_rank (the statement's 'every lossy encoding reconstructs within its documented error bound' names no exception for close or equal singular values); inputs are generated in f64 and rounded to f32 once, the error is measured against that f32 input; the three input groups carry their own signatures (dense-full-rank, clustered-spectrum: gaps >= 0.1 %; degenerate-spectrum: spikes, +-1 vectors, gaps 0..0.1 %) because they fail for different reasons; the spectrum measured for the evidence (f64 Gram matrix + Jacobi) never enters a verdict".into(),
            "allocation ceilings: max_frame_length (v1) / max(max_frame_length, MAX_DECOMPRESSED_SIZE) (v2) + 256*input + 64 KiB for frames; MAX_DECOMPRESSED_SIZE for decompress; 64*file_length + 64 KiB for log replay; 256*input + 4 MiB (serde pre-allocates at most 1 MiB worth of elements for an untrusted length, up to 2.2 MB for a HashMap) + 64 KiB for bitcode decoders without a declared limit, and the same 4 MiB on top of every ceiling that includes a bitcode decode; inherently expansive decoders (run lengths, sparse->dense, tensor-train) are only called when the element count they claim is small and are judged on panics".into(),
            "with record checksums on, replay of a corrupted log must return Err or a prefix of the appended records (a CRC collision, 2^-32 per record, would be a false alarm)".into(),
            "the harness profile has overflow-checks and debug-assertions on: an arithmetic-overflow panic reported here wraps silently in a default release build".into(),
            "hostile-but-well-formed fields: a sparse field whose pairs form a set (unique in-range positions, one value each) must decode to exactly those pairs in whatever order they are listed (the position list is an id list, and id lists are exact for unsorted input); for lists with duplicates, out-of-range positions or mismatched counts the statement names no value, so only 'Err, or a vector of the declared dimension' is demanded (likewise: content of run-length fields only when every run has a value, length of tensor-train fields only for the consistent control, content of SparseVector wire values only for honest ones - the type's invariants for everything that is accepted); tensor-train fields that chain through a zero rank and claim more than 2^16 elements are not decoded (legitimately expansive, no declared ceiling); hostile SparseVector wire values are built through a serde mirror of the struct whose bytes are compared with the real encoder's on an honest value in every case (a mismatch is inconclusive, never a verdict)".into(),
        ],
        floors,
        exhaustive: false,
    };
    write_result(&args, &meta, &total, started);
}
