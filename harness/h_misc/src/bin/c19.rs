//! C19 — the blob store returns the bytes that were stored and never collects live data.
//!
//! Everything below drives the REAL `tensor_blob::BlobStore` over a real `TensorStore` and judges
//! what it did with a reference model `artifact id -> bytes` plus a reading of the underlying store
//! (the `_blob:chunk:*` / `_blob:meta:*` records the blob layer writes).
//!
//! Parts (`--part all|seq|default-chunk|concurrent|inflight`, default `all` = seq + default-chunk +
//! concurrent; `inflight` is opt-in, see the final note in `inflight_case`):
//!  seq           : random sequential programs over put / streamed writers (interleaved, abandoned) /
//!                  delete / age / gc / full_gc / repair / streamed read / damage-a-chunk-underneath,
//!                  chunk size 16 or 64, sizes around chunk boundaries, overlapping content.  After
//!                  every step (a quiescent point) the whole state is judged.
//!  default-chunk : the same executor once per run with the default 1 MiB chunk size.
//!  concurrent    : 2-4 tokio tasks on a multi-thread runtime (writers, deleters, collectors of
//!                  overlapping content) in several scenario kinds; judged at quiescence after every
//!                  round.  Runnable alone (`--part concurrent`, optionally `--scenario <name>`).
//!  inflight      : deterministic interleavings of ONE streamed writer with full_gc / repair between
//!                  its write() and finish() (opt-in).
//!
//! Damage: half of the sequential programs and a third of the concurrent rounds leave an injected
//! damage (a chunk record removed, all chunk records of one artifact removed, or a chunk's `_data`
//! altered) IN the store and go on using it: further uploads that share chunks with damaged and
//! healthy artifacts, deletes, incremental and full collections, repair.  From then on an artifact
//! whose stored chunks all still hold its bytes is judged exactly as before (byte-exact read, verify
//! true, its chunks never collected); an artifact that is unhealthy only through keys the harness
//! itself damaged is judged by verify reporting it; reference counts stay conserved for every
//! chunk except keys whose record the harness removed (their count is void from then on).
//!
//! Time: `gc_min_age = 0` everywhere; `gc` collects a zero-reference chunk only when its `_created`
//! second is strictly older than "now", so the harness lets time pass either by really sleeping
//! 1.1 s (a few cases) or — equivalent for the code, which only ever compares `_created` with the
//! clock — by moving `_created` of the stored chunks 100 s into the past at a quiescent point.

use common::*;
use serde_json::{json, Value};
use std::collections::{BTreeMap, BTreeSet, HashMap};
use std::sync::atomic::{AtomicU64, AtomicUsize, Ordering};
use std::sync::Arc;
use std::time::{Duration, Instant};
use tensor_blob::{BlobConfig, BlobError, BlobStore, BlobWriter, Chunk, PutOptions};
use tensor_store::{ScalarValue, TensorData, TensorStore, TensorValue};

const CHUNK_PREFIX: &str = "_blob:chunk:";
const META_PREFIX: &str = "_blob:meta:";

// ------------------------------------------------------------------------------------------------
// reading the store the blob layer writes to
// ------------------------------------------------------------------------------------------------

fn t_int(t: &TensorData, f: &str) -> Option<i64> {
    match t.get(f) {
        Some(TensorValue::Scalar(ScalarValue::Int(i))) => Some(*i),
        _ => None,
    }
}
fn t_bytes(t: &TensorData, f: &str) -> Option<Vec<u8>> {
    match t.get(f) {
        Some(TensorValue::Scalar(ScalarValue::Bytes(b))) => Some(b.clone()),
        _ => None,
    }
}
fn t_ptrs(t: &TensorData, f: &str) -> Option<Vec<String>> {
    match t.get(f) {
        Some(TensorValue::Pointers(p)) => Some(p.clone()),
        _ => None,
    }
}

#[derive(Default, Clone)]
struct ChunkRec {
    refs: Option<i64>,
    data: Option<Vec<u8>>,
}

#[derive(Default, Clone)]
struct View {
    chunks: BTreeMap<String, ChunkRec>,
    /// artifact id -> ordered chunk list
    metas: BTreeMap<String, Vec<String>>,
}

fn view(store: &TensorStore) -> View {
    let mut v = View::default();
    for k in store.scan(CHUNK_PREFIX) {
        if let Ok(t) = store.get(&k) {
            v.chunks.insert(k, ChunkRec { refs: t_int(&t, "_refs"), data: t_bytes(&t, "_data") });
        }
    }
    for k in store.scan(META_PREFIX) {
        if let Ok(t) = store.get(&k) {
            let id = k[META_PREFIX.len()..].to_string();
            v.metas.insert(id, t_ptrs(&t, "_chunks").unwrap_or_default());
        }
    }
    v
}

/// occurrences of every chunk key in the chunk lists of the given (model-live) artifacts
fn occurrences<'a>(v: &View, live: impl Iterator<Item = &'a String>) -> HashMap<String, i64> {
    let mut occ: HashMap<String, i64> = HashMap::new();
    for id in live {
        if let Some(list) = v.metas.get(id) {
            for k in list {
                *occ.entry(k.clone()).or_insert(0) += 1;
            }
        }
    }
    occ
}

/// What the harness itself did to the store underneath the blob layer (sticky for the rest of the
/// program): `lost` = keys whose record it removed at some time (the reference count of such a key is
/// void from then on, also after a later upload re-creates it); `altered` = keys whose `_data` it
/// changed (the record and its `_refs` were kept, so the count is still meaningful).
#[derive(Default, Clone)]
struct Damage {
    lost: BTreeSet<String>,
    altered: BTreeSet<String>,
}
impl Damage {
    fn any(&self) -> bool {
        !self.lost.is_empty() || !self.altered.is_empty()
    }
}

#[derive(PartialEq, Eq, Debug, Clone, Copy)]
enum Health {
    /// every listed chunk holds exactly the artifact's bytes (or the list has an unexpected shape:
    /// then the ordinary read check decides)
    Judge,
    /// unhealthy, and every bad position is a key the harness damaged; `content_differs` = the stored
    /// concatenation is not the artifact's bytes (so verification has something to report)
    Excused { content_differs: bool },
}

fn health(v: &View, list: Option<&Vec<String>>, want: &[u8], c: usize, dmg: &Damage) -> Health {
    let list = match list {
        Some(l) => l,
        None => return Health::Judge,
    };
    if !dmg.any() || list.len() != want.len().div_ceil(c) {
        return Health::Judge;
    }
    let mut bad = 0;
    let mut concat: Option<Vec<u8>> = Some(Vec::with_capacity(want.len()));
    for (i, k) in list.iter().enumerate() {
        let exp = &want[i * c..((i + 1) * c).min(want.len())];
        match v.chunks.get(k) {
            None => {
                if !dmg.lost.contains(k) {
                    return Health::Judge; // not the harness's doing: the read check reports it
                }
                bad += 1;
                concat = None;
            }
            Some(rec) => {
                match (&rec.data, concat.as_mut()) {
                    (Some(d), Some(cc)) => cc.extend_from_slice(d),
                    _ => concat = None,
                }
                if rec.data.as_deref() != Some(exp) {
                    if !dmg.altered.contains(k) {
                        return Health::Judge;
                    }
                    bad += 1;
                }
            }
        }
    }
    if bad == 0 {
        Health::Judge
    } else {
        Health::Excused { content_differs: concat.as_deref() != Some(want) }
    }
}

/// let `secs` seconds pass for the collector: it only compares `_created` with the clock
fn age_chunks(store: &TensorStore, secs: i64) -> u64 {
    let mut n = 0;
    for k in store.scan(CHUNK_PREFIX) {
        if let Ok(mut t) = store.get(&k) {
            let c = t_int(&t, "_created").unwrap_or(0);
            t.set("_created", TensorValue::Scalar(ScalarValue::Int((c - secs).max(0))));
            if store.put(k, t).is_ok() {
                n += 1;
            }
        }
    }
    n
}

fn short(k: &str) -> String {
    // "_blob:chunk:sha256:abcdef…" -> "abcdef01"
    let h = k.rsplit(':').next().unwrap_or(k);
    h.chars().take(8).collect()
}

fn sid(id: &str) -> &str {
    id.get(..8).unwrap_or(id)
}

fn err_name(e: &BlobError) -> String {
    match e {
        BlobError::NotFound(_) => "NotFound".into(),
        BlobError::ChunkMissing(k) => format!("ChunkMissing({})", short(k)),
        BlobError::EmptyData => "EmptyData".into(),
        other => format!("{:?}", other),
    }
}

// ------------------------------------------------------------------------------------------------
// content with overlap
// ------------------------------------------------------------------------------------------------

struct Pool {
    c: usize,
    blocks: Vec<Vec<u8>>,
}

fn mk_pool(rng: &mut Rng, c: usize, m: usize) -> Pool {
    let mut blocks = Vec::with_capacity(m);
    for i in 0..m {
        if i == 1 {
            blocks.push(vec![0u8; c]); // a block of zeros (repeats inside one artifact are common)
        } else {
            blocks.push(rng.bytes(c));
        }
    }
    Pool { c, blocks }
}

/// `size` bytes: the pool blocks concatenated cyclically from block `start`
fn sized(pool: &Pool, size: usize, start: usize) -> Vec<u8> {
    let mut out = Vec::with_capacity(size);
    let mut b = start;
    while out.len() < size {
        let blk = &pool.blocks[b % pool.blocks.len()];
        let take = (size - out.len()).min(blk.len());
        out.extend_from_slice(&blk[..take]);
        b += 1;
    }
    out
}

fn block_seq(pool: &Pool, rng: &mut Rng, n: usize, tail: bool) -> Vec<u8> {
    let mut out = Vec::new();
    for _ in 0..n {
        out.extend_from_slice(&pool.blocks[rng.below(pool.blocks.len())]);
    }
    if tail && pool.c > 1 {
        let len = 1 + rng.below(pool.c - 1);
        let blk = &pool.blocks[rng.below(pool.blocks.len())];
        out.extend_from_slice(&blk[..len]);
    }
    out
}

fn gen_content(rng: &mut Rng, pool: &Pool, live: &[Arc<Vec<u8>>], big: bool) -> Vec<u8> {
    let c = pool.c;
    match rng.weighted(&[30, 30, 12, 8, 10]) {
        0 => {
            let sizes = [0, 1, c - 1, c, c + 1, 2 * c - 1, 2 * c, 2 * c + 1, 3 * c + 7, 5 * c];
            let n = if big { sizes.len() - 1 } else { sizes.len() };
            let size = sizes[rng.below(n)];
            let start = if rng.chance(2, 3) { 0 } else { rng.below(pool.blocks.len()) };
            sized(pool, size, start)
        }
        2 if !live.is_empty() => rng.pick(live).as_ref().clone(),
        3 => {
            // misaligned: one byte, then whole blocks (tails/heads equal, chunk boundaries shifted)
            let mut v = vec![rng.next_u64() as u8];
            v.extend(sized(pool, c * (1 + rng.below(2)) + rng.below(3), 0));
            v
        }
        4 => {
            let max = if big { c + c / 2 } else { 5 * c };
            let n = rng.below(max + 1);
            rng.bytes(n)
        }
        _ => {
            let n = 1 + rng.below(if big { 3 } else { 6 });
            let tail = rng.bool();
            block_seq(pool, rng, n, tail)
        }
    }
}

// ------------------------------------------------------------------------------------------------
// the quiescent-point oracle (shared by all parts)
// ------------------------------------------------------------------------------------------------

type Live = BTreeMap<String, Arc<Vec<u8>>>;
type Viol = (String, String);

fn first_diff(a: &[u8], b: &[u8]) -> usize {
    a.iter().zip(b.iter()).position(|(x, y)| x != y).unwrap_or(a.len().min(b.len()))
}

async fn read_check(blob: &BlobStore, id: &str, want: &[u8], prefix: &str, when: &str) -> Result<(), Viol> {
    match blob.get(id).await {
        Ok(b) if b == want => Ok(()),
        Ok(b) => Err((
            format!("{prefix}:read-bytes-differ{when}"),
            format!("get({}) returned {} bytes, written {} bytes, first difference at offset {}", sid(id), b.len(), want.len(), first_diff(&b, want)),
        )),
        Err(BlobError::ChunkMissing(k)) => Err((
            format!("{prefix}:live-artifact-chunk-missing{when}"),
            format!("get({}) of a live {}-byte artifact = ChunkMissing({})", sid(id), want.len(), short(&k)),
        )),
        Err(e) => Err((
            format!("{prefix}:read-error-on-live-artifact{when}"),
            format!("get({}) of a live {}-byte artifact = Err({})", sid(id), want.len(), err_name(&e)),
        )),
    }
}

struct Slack<'a> {
    /// references held by open (unfinished) writers: not yet in any artifact's list
    pending: &'a HashMap<String, i64>,
    /// references leaked by abandoned writers (never released; only repair/full_gc clean them)
    extra: &'a HashMap<String, i64>,
}

/// Judges one quiescent state: every live artifact reads back exactly and verifies; every chunk's
/// stored reference count equals its occurrences in live artifacts' chunk lists (+ what open /
/// abandoned writers legitimately hold); every referenced chunk exists; no content is stored
/// under two chunk keys; every stored chunk matches its content address.  With harness-injected
/// damage present (see `Damage`): artifacts unhealthy only through damaged keys must be reported by
/// verify and are not read; everything else is judged as before; counts of `lost` keys are void.
#[allow(clippy::too_many_arguments)]
async fn check_quiescent(blob: &BlobStore, store: &TensorStore, live: &Live, slack: &Slack<'_>, dmg: &Damage, c: usize, prefix: &str, when: &str, r: &mut Report) -> Option<Viol> {
    let v = view(store);
    let mut excused = 0u64;
    for (id, want) in live {
        if let Health::Excused { content_differs } = health(&v, v.metas.get(id), want, c, dmg) {
            excused += 1;
            if content_differs {
                match blob.verify(id) {
                    Ok(true) => {
                        return Some((
                            format!("{prefix}:verify-true-on-damaged-artifact:persistent"),
                            format!("artifact {} has a damaged chunk in the store (stored content differs from what was written) and verify() = Ok(true)", sid(id)),
                        ))
                    }
                    _ => r.count("damaged_artifacts_reported_by_verify", 1),
                }
            }
            continue;
        }
        if let Err(v) = read_check(blob, id, want, prefix, when).await {
            return Some(v);
        }
        r.count("reads_checked", 1);
        if dmg.any() {
            r.count("healthy_reads_with_damage_present", 1);
        }
        match blob.verify(id) {
            Ok(true) => r.count("verify_true_on_undamaged", 1),
            Ok(false) => return Some((format!("{prefix}:verify-false-on-undamaged-artifact"), format!("verify({}) = false although get() returned the written bytes", sid(id)))),
            Err(e) => return Some((format!("{prefix}:verify-error-on-undamaged-artifact"), format!("verify({}) = Err({})", sid(id), err_name(&e)))),
        }
    }
    if excused > 0 {
        r.count("quiescent_checks_with_damaged_artifact", 1);
    }
    let occ = occurrences(&v, live.keys());
    // every referenced chunk exists
    for (k, n) in &occ {
        if !v.chunks.contains_key(k) && !dmg.lost.contains(k) {
            return Some((format!("{prefix}:referenced-chunk-absent"), format!("chunk {} occurs {} time(s) in live artifacts' lists but has no record", short(k), n)));
        }
    }
    let mut seen: HashMap<&[u8], &String> = HashMap::new();
    for (k, rec) in &v.chunks {
        if dmg.lost.contains(k) {
            r.count("info_chunks_with_void_count_skipped", 1);
            continue;
        }
        let o = occ.get(k).copied().unwrap_or(0);
        let lo = o + slack.pending.get(k).copied().unwrap_or(0);
        let hi = lo + slack.extra.get(k).copied().unwrap_or(0);
        let refs = rec.refs.unwrap_or(i64::MIN);
        if refs < lo {
            return Some((
                format!("{prefix}:refcount-undercount"),
                format!(
                    "chunk {}{}: stored _refs = {:?} but it occurs {} time(s) in the chunk lists of live artifacts (+{} held by open writers)",
                    short(k),
                    if dmg.altered.contains(k) { " (its _data was altered underneath earlier; record and _refs were kept)" } else { "" },
                    rec.refs,
                    o,
                    lo - o
                ),
            ));
        }
        if refs > hi {
            // An over-count only delays collection (a leak that full_gc/repair clean up); the
            // statement demands that live data is never collected and that a full collection
            // after deleting everything leaves nothing - both are judged elsewhere. Observed, not
            // judged.
            r.count("info_refcount_overcount_observed", 1);
        }
        r.count("chunk_refcounts_checked", 1);
        if o >= 2 {
            r.count("shared_chunk_observations", 1);
        }
        if dmg.altered.contains(k) {
            r.count("altered_chunk_refcounts_checked", 1);
            continue; // its content is the harness's doing: no content checks
        }
        if let Some(d) = &rec.data {
            if let Some(other) = seen.insert(d.as_slice(), k) {
                return Some((format!("{prefix}:same-content-stored-under-two-chunk-keys"), format!("chunks {} and {} hold identical {} bytes", short(other), short(k), d.len())));
            }
        }
        match tensor_blob::verify_chunk(store, k) {
            Ok(true) => {}
            other => return Some((format!("{prefix}:verify_chunk-not-true-on-undamaged-chunk"), format!("verify_chunk({}) = {:?}", short(k), other.map_err(|e| err_name(&e))))),
        }
    }
    None
}

// ------------------------------------------------------------------------------------------------
// sequential programs
// ------------------------------------------------------------------------------------------------

struct Open {
    w: BlobWriter,
    data: Arc<Vec<u8>>,
    written: usize,
}

fn chunk_keys_of_prefix(data: &[u8], written: usize, c: usize) -> Vec<String> {
    (0..written / c).map(|i| Chunk::new(data[i * c..(i + 1) * c].to_vec()).key()).collect()
}

fn pending_of(opens: &[Open], c: usize) -> HashMap<String, i64> {
    let mut p = HashMap::new();
    for o in opens {
        for k in chunk_keys_of_prefix(&o.data, o.written, c) {
            *p.entry(k).or_insert(0) += 1;
        }
    }
    p
}

async fn mk_blob(c: Option<usize>, batch: usize) -> Result<(BlobStore, TensorStore), String> {
    let store = TensorStore::new();
    let mut cfg = BlobConfig::default().with_gc_min_age(Duration::ZERO).with_gc_batch_size(batch);
    if let Some(c) = c {
        cfg = cfg.with_chunk_size(c);
    }
    match BlobStore::new(store.clone(), cfg).await {
        Ok(b) => Ok((b, store)),
        Err(e) => Err(format!("BlobStore::new: {:?}", e)),
    }
}

const DAMAGE_KINDS: [&str; 7] = ["flip-byte", "truncate", "append-byte", "delete-chunk", "data-wrong-type", "replace-content", "delete-all-chunks"];

/// Damage chunk record(s) of a live artifact underneath the blob layer; every verification of an
/// artifact containing a damaged chunk must then not answer Ok(true).  `persist` = false: the original
/// records are put back afterwards; true: the damage stays for the rest of the program and is
/// recorded in `dmg`.
#[allow(clippy::too_many_arguments)]
async fn damage_check(blob: &BlobStore, store: &TensorStore, live: &Live, c: usize, persist: bool, dmg: &mut Damage, rng: &mut Rng, r: &mut Report, trace: &mut Vec<String>, prefix: &str) -> Option<Viol> {
    let v = view(store);
    let cands: Vec<&String> = live.keys().filter(|id| v.metas.get(*id).map(|l| !l.is_empty()).unwrap_or(false)).collect();
    if cands.is_empty() {
        return None;
    }
    let id = (*rng.pick(&cands)).clone();
    let list = &v.metas[&id];
    let kind = DAMAGE_KINDS[rng.below(DAMAGE_KINDS.len())];
    // (key, original record, new record or None = remove)
    let mut changes: Vec<(String, TensorData, Option<TensorData>)> = Vec::new();
    if kind == "delete-all-chunks" {
        let keys: BTreeSet<&String> = list.iter().collect();
        for k in keys {
            if let Ok(t) = store.get(k) {
                changes.push((k.clone(), t, None));
            }
        }
    } else {
        // never alter a record that already carries an alteration: two of them can cancel out
        let fresh: Vec<&String> = list.iter().filter(|k| kind == "delete-chunk" || !dmg.altered.contains(*k)).collect();
        if fresh.is_empty() {
            return None;
        }
        let key = (*rng.pick(&fresh)).clone();
        let orig = match store.get(&key) {
            Ok(t) => t,
            Err(_) => return None,
        };
        let data = t_bytes(&orig, "_data").unwrap_or_default();
        let mut t = orig.clone();
        let new = match kind {
            "flip-byte" => {
                let mut d = data.clone();
                if d.is_empty() {
                    return None;
                }
                let i = rng.below(d.len());
                d[i] ^= 1 << rng.below(8);
                t.set("_data", TensorValue::Scalar(ScalarValue::Bytes(d)));
                Some(t)
            }
            "truncate" => {
                let mut d = data.clone();
                if d.is_empty() {
                    return None;
                }
                d.pop();
                t.set("_data", TensorValue::Scalar(ScalarValue::Bytes(d)));
                Some(t)
            }
            "append-byte" => {
                let mut d = data.clone();
                d.push(rng.next_u64() as u8);
                t.set("_data", TensorValue::Scalar(ScalarValue::Bytes(d)));
                Some(t)
            }
            "delete-chunk" => None,
            "data-wrong-type" => {
                t.set("_data", TensorValue::Scalar(ScalarValue::Int(7)));
                Some(t)
            }
            _ => {
                let mut d = rng.bytes(data.len());
                if d == data {
                    if d.is_empty() {
                        return None;
                    }
                    d[0] ^= 0xFF;
                }
                t.set("_data", TensorValue::Scalar(ScalarValue::Bytes(d)));
                Some(t)
            }
        };
        changes.push((key, orig, new));
    }
    if changes.is_empty() {
        return None;
    }
    let mut applied: Vec<(String, TensorData, bool)> = Vec::new(); // (key, original, removed)
    for (k, orig, new) in changes {
        let removed = new.is_none();
        let ok = match new {
            None => store.delete(&k).is_ok(),
            Some(t) => store.put(k.clone(), t).is_ok(),
        };
        if ok {
            applied.push((k, orig, removed));
        }
    }
    if applied.is_empty() {
        return None;
    }
    let keys: BTreeSet<String> = applied.iter().map(|x| x.0.clone()).collect();
    trace.push(format!("damage[{}{}] {} chunk(s) e.g. {} of {}", kind, if persist { ",stays" } else { "" }, keys.len(), short(&applied[0].0), sid(&id)));
    // the sticky record comes first: the judgement below uses it
    let mut now = dmg.clone();
    for (k, _, removed) in &applied {
        if *removed {
            now.lost.insert(k.clone());
        } else {
            now.altered.insert(k.clone());
        }
    }
    let v2 = view(store);
    let mut out = None;
    for (aid, l) in &v.metas {
        let want = match live.get(aid) {
            Some(w) => w,
            None => continue,
        };
        if !l.iter().any(|k| keys.contains(k)) {
            continue;
        }
        // earlier damage may, by coincidence, cancel out (bytes moved between adjacent chunks)
        if health(&v2, Some(l), want, c, &now) != (Health::Excused { content_differs: true }) {
            continue;
        }
        match blob.verify(aid) {
            Ok(true) => {
                out = Some((format!("{prefix}:verify-true-on-damaged-artifact:{kind}"), format!("chunk {} of artifact {} damaged underneath ({}), verify() still = Ok(true)", short(&applied[0].0), sid(aid), kind)));
                break;
            }
            _ => r.count("damage_reported_by_verify", 1),
        }
        if let Ok(mut rd) = blob.reader(aid).await {
            match rd.verify().await {
                Ok(true) => {
                    out = Some((format!("{prefix}:reader-verify-true-on-damaged-artifact:{kind}"), format!("chunk {} of artifact {} damaged underneath ({}), BlobReader::verify() still = Ok(true)", short(&applied[0].0), sid(aid), kind)));
                    break;
                }
                _ => r.count("damage_reported_by_reader_verify", 1),
            }
        }
    }
    if out.is_none() {
        for (k, _, _) in &applied {
            match tensor_blob::verify_chunk(store, k) {
                Ok(true) => {
                    out = Some((format!("{prefix}:verify_chunk-true-on-damaged-chunk:{kind}"), format!("chunk {} damaged underneath ({}), verify_chunk = Ok(true)", short(k), kind)));
                    break;
                }
                _ => r.count("damage_reported_by_verify_chunk", 1),
            }
        }
    }
    r.count(&format!("damage[{}]", kind), 1);
    if persist {
        *dmg = now;
        r.count("damage_left_in_store", 1);
    } else {
        // put the original records back (the program goes on with an undamaged store)
        for (k, orig, _) in applied {
            let _ = store.put(k, orig);
        }
    }
    out
}

/// the chunk keys an upload of `data` addresses
fn upload_keys(data: &[u8], c: usize) -> Vec<String> {
    data.chunks(c).map(|p| Chunk::new(p.to_vec()).key()).collect()
}

/// evidence: an upload that shares a chunk with a damaged stored chunk
fn note_upload(store: &TensorStore, dmg: &Damage, data: &[u8], c: usize, r: &mut Report) {
    if !dmg.any() {
        return;
    }
    let keys = upload_keys(data, c);
    if keys.iter().any(|k| dmg.altered.contains(k) && store.exists(k)) {
        r.count("uploads_sharing_a_chunk_with_an_altered_stored_chunk", 1);
    }
    if keys.iter().any(|k| dmg.lost.contains(k)) {
        r.count("uploads_sharing_a_chunk_with_a_lost_chunk", 1);
    }
    r.count("uploads_with_damage_present", 1);
}

async fn stream_read_check(blob: &BlobStore, id: &str, want: &[u8], rng: &mut Rng, c: usize, r: &mut Report) -> Option<Viol> {
    let mut rd = match blob.reader(id).await {
        Ok(x) => x,
        Err(e) => return Some(("seq:reader-error-on-live-artifact".into(), format!("reader({}) = Err({})", sid(&id), err_name(&e)))),
    };
    let mut got = Vec::new();
    if rng.bool() {
        let bs = 1 + rng.below(2 * c.min(4096));
        let mut buf = vec![0u8; bs];
        loop {
            match rd.read(&mut buf).await {
                Ok(0) => break,
                Ok(n) => got.extend_from_slice(&buf[..n]),
                Err(e) => return Some(("seq:reader-error-on-live-artifact".into(), format!("read() on {} = Err({})", sid(&id), err_name(&e)))),
            }
            if got.len() > want.len() + 4 * c {
                break;
            }
        }
    } else {
        loop {
            match rd.next_chunk().await {
                Ok(None) => break,
                Ok(Some(d)) => got.extend(d),
                Err(e) => return Some(("seq:reader-error-on-live-artifact".into(), format!("next_chunk() on {} = Err({})", sid(&id), err_name(&e)))),
            }
        }
    }
    if got != want {
        return Some(("seq:streamed-read-bytes-differ".into(), format!("streamed read of {} gave {} bytes, written {}, first difference at {}", sid(&id), got.len(), want.len(), first_diff(&got, want))));
    }
    match rd.verify().await {
        Ok(true) => {}
        other => return Some(("seq:reader-verify-not-true-on-undamaged".into(), format!("BlobReader::verify on {} = {:?}", sid(&id), other.map_err(|e| err_name(&e))))),
    }
    r.count("streamed_reads_checked", 1);
    None
}

/// what a collection removed must have been unreferenced at that moment
fn removed_only_unreferenced(before: &View, after: &View, live: &Live, pending: &HashMap<String, i64>, dmg: &Damage, op: &str) -> Option<Viol> {
    let occ = occurrences(before, live.keys());
    for k in before.chunks.keys() {
        if !after.chunks.contains_key(k) && !dmg.lost.contains(k) {
            let o = occ.get(k).copied().unwrap_or(0) + pending.get(k).copied().unwrap_or(0);
            if o > 0 {
                return Some((format!("seq:{op}-removed-referenced-chunk"), format!("{op} removed chunk {} which occurs {} time(s) in live artifacts' chunk lists (stored _refs was {:?})", short(k), o, before.chunks[k].refs)));
            }
        }
    }
    None
}

fn seq_case(case_seed: u64, big: bool, r: &mut Report) {
    let rt = match tokio::runtime::Builder::new_current_thread().enable_time().build() {
        Ok(rt) => rt,
        Err(e) => {
            r.inconclusive(&format!("tokio runtime: {e}"));
            return;
        }
    };
    rt.block_on(seq_case_async(case_seed, big, r));
}

async fn seq_case_async(case_seed: u64, big: bool, r: &mut Report) {
    let part = if big { "default-chunk" } else { "seq" };
    let replay = json!({"part": part, "case_seed": case_seed});
    let mut rng = Rng::new(case_seed);
    let c: usize = if big { 1024 * 1024 } else { *rng.pick(&[16usize, 16, 64]) };
    let batch = *rng.pick(&[1usize, 3, 100, 1 << 20]);
    let real_clock = !big && rng.chance(1, 120);
    // half of the programs keep injected damage in the store and go on using it
    let persist = rng.bool();
    let mut dmg = Damage::default();
    let mut damages_left = if persist { 1 + rng.below(3) } else { usize::MAX };
    let (blob, store) = match mk_blob(if big { None } else { Some(c) }, batch).await {
        Ok(x) => x,
        Err(e) => {
            r.inconclusive(&e);
            return;
        }
    };
    let m = if big { 3 } else { 3 + rng.below(5) };
    let pool = mk_pool(&mut rng, c, m);
    let steps = if big { 14 } else if real_clock { 14 } else { 15 + rng.below(45) };
    let mut live: Live = BTreeMap::new();
    let mut opens: Vec<Open> = Vec::new();
    let mut extra: HashMap<String, i64> = HashMap::new();
    let mut trace: Vec<String> = Vec::new();
    let mut ages_left = if real_clock { 2 } else { usize::MAX };
    let (mut deletes, mut collections, mut shared_seen) = (0u64, 0u64, false);
    let mut sizes_seen: BTreeSet<&'static str> = BTreeSet::new();

    if big {
        // the boundary sizes at the default chunk size, overlapping content (same leading blocks),
        // one-shot or streamed in pieces that do not divide the chunk size
        for size in [1usize, c - 1, c, c + 1, 3 * c + 7] {
            let data = sized(&pool, size, 0);
            note_size(&mut sizes_seen, size, c);
            let streamed = rng.bool();
            let out = if streamed {
                match blob.writer("s", PutOptions::new()).await {
                    Ok(mut w) => {
                        let piece = 60_000 + rng.below(10_000);
                        let mut err = None;
                        for p in data.chunks(piece) {
                            if let Err(e) = w.write(p).await {
                                err = Some(e);
                                break;
                            }
                        }
                        match err {
                            Some(e) => Err(e),
                            None => w.finish().await,
                        }
                    }
                    Err(e) => Err(e),
                }
            } else {
                blob.put("f", &data, PutOptions::new()).await
            };
            trace.push(format!("{}({})", if streamed { "stream" } else { "put" }, size));
            match out {
                Ok(id) => {
                    live.insert(id, Arc::new(data));
                    r.count(if streamed { "streams_finished" } else { "puts" }, 1);
                }
                Err(e) => {
                    r.inconclusive(&format!("put returned {}", err_name(&e)));
                    return;
                }
            }
        }
    }

    macro_rules! fail {
        ($v:expr) => {{
            let (sig, detail) = $v;
            r.violation(sig, format!("{} | chunk_size={} gc_batch={} | program: {}", detail, c, batch, trace.join("; ")), replay.clone());
            return;
        }};
    }

    for step in 0..=steps {
        let last = step == steps;
        let have_open = !opens.is_empty();
        // weights: put, open, feed, finish, abandon, delete, age, gc, full_gc, repair, stream-read, damage, purge
        let w: [u32; 13] = if last {
            [0, 0, 0, 0, 0, 0, 0, 0, 0, 0, 0, 0, 1]
        } else {
            [
                22,
                if opens.len() < 3 { 8 } else { 0 },
                if have_open { 14 } else { 0 },
                if have_open { 8 } else { 0 },
                if have_open { 2 } else { 0 },
                if live.is_empty() { 0 } else { 12 },
                if ages_left > 0 { 6 } else { 0 },
                8,
                if have_open { 0 } else { 4 },
                if have_open { 0 } else { 3 },
                if live.is_empty() { 0 } else { 6 },
                if live.is_empty() || have_open || damages_left == 0 { 0 } else if persist { 8 } else { 5 },
                if have_open { 0 } else { 1 },
            ]
        };
        let op = rng.weighted(&w);
        let live_contents: Vec<Arc<Vec<u8>>> = live.values().cloned().collect();
        match op {
            0 => {
                let data = gen_content(&mut rng, &pool, &live_contents, big);
                note_size(&mut sizes_seen, data.len(), c);
                trace.push(format!("put({})", data.len()));
                note_upload(&store, &dmg, &data, c, r);
                match blob.put("f", &data, PutOptions::new()).await {
                    Ok(id) => {
                        r.count("puts", 1);
                        live.insert(id, Arc::new(data));
                    }
                    Err(BlobError::EmptyData) if data.is_empty() => r.count("put_empty_rejected", 1),
                    Err(e) => {
                        r.inconclusive(&format!("put returned {}", err_name(&e)));
                        return;
                    }
                }
            }
            1 => {
                let data = gen_content(&mut rng, &pool, &live_contents, big);
                note_size(&mut sizes_seen, data.len(), c);
                trace.push(format!("open({})", data.len()));
                match blob.writer("s", PutOptions::new()).await {
                    Ok(w) => opens.push(Open { w, data: Arc::new(data), written: 0 }),
                    Err(e) => {
                        r.inconclusive(&format!("writer returned {}", err_name(&e)));
                        return;
                    }
                }
            }
            2 => {
                let i = rng.below(opens.len());
                let o = &mut opens[i];
                let rem = o.data.len() - o.written;
                let n = match rng.below(5) {
                    0 => 0,
                    1 => 1.min(rem),
                    2 => c.min(rem),
                    3 => rem,
                    _ => rng.below(rem + 1),
                };
                trace.push(format!("feed#{}({})", i, n));
                let piece = o.data[o.written..o.written + n].to_vec();
                if let Err(e) = o.w.write(&piece).await {
                    r.inconclusive(&format!("write returned {}", err_name(&e)));
                    return;
                }
                o.written += n;
                r.count("stream_pieces", 1);
            }
            3 => {
                let i = rng.below(opens.len());
                let mut o = opens.swap_remove(i);
                // mostly feed the rest first; sometimes finish with what has been written so far
                if rng.chance(3, 4) && o.written < o.data.len() {
                    let piece = o.data[o.written..].to_vec();
                    if let Err(e) = o.w.write(&piece).await {
                        r.inconclusive(&format!("write returned {}", err_name(&e)));
                        return;
                    }
                    o.written = o.data.len();
                }
                trace.push(format!("finish#{}({})", i, o.written));
                note_upload(&store, &dmg, &o.data[..o.written], c, r);
                match o.w.finish().await {
                    Ok(id) => {
                        r.count("streams_finished", 1);
                        if o.written == 0 {
                            r.count("empty_streamed_artifacts", 1);
                        }
                        live.insert(id, Arc::new(o.data[..o.written].to_vec()));
                    }
                    Err(e) => {
                        r.inconclusive(&format!("finish returned {}", err_name(&e)));
                        return;
                    }
                }
            }
            4 => {
                let i = rng.below(opens.len());
                let o = opens.swap_remove(i);
                trace.push(format!("abandon#{}({})", i, o.written));
                for k in chunk_keys_of_prefix(&o.data, o.written, c) {
                    *extra.entry(k).or_insert(0) += 1;
                }
                r.count("streams_abandoned", 1);
                drop(o);
            }
            5 => {
                let ids: Vec<String> = live.keys().cloned().collect();
                let id = rng.pick(&ids).clone();
                trace.push(format!("delete({})", sid(&id)));
                match blob.delete(&id).await {
                    Ok(()) => {
                        live.remove(&id);
                        deletes += 1;
                        r.count("deletes", 1);
                    }
                    Err(e) => {
                        r.inconclusive(&format!("delete returned {}", err_name(&e)));
                        return;
                    }
                }
            }
            6 => {
                if real_clock {
                    ages_left -= 1;
                    trace.push("sleep(1.1s)".into());
                    tokio::time::sleep(Duration::from_millis(1100)).await;
                    r.count("real_clock_waits", 1);
                } else {
                    trace.push("age(100s)".into());
                    age_chunks(&store, 100);
                }
            }
            7 | 8 | 9 => {
                let name = ["gc", "full_gc", "repair"][op - 7];
                let pending = pending_of(&opens, c);
                let before = view(&store);
                trace.push(name.to_string());
                if dmg.any() {
                    r.count(&format!("{}_calls_with_damage_in_store", name), 1);
                    if live.iter().any(|(id, want)| matches!(health(&before, before.metas.get(id), want, c, &dmg), Health::Excused { .. })) {
                        r.count(&format!("{}_calls_with_damaged_artifact_present", name), 1);
                    }
                }
                let removed = match op {
                    7 => blob.gc().await.map(|s| s.deleted),
                    8 => blob.full_gc().await.map(|s| s.deleted),
                    _ => blob.repair().map(|s| s.orphans_deleted),
                };
                match removed {
                    Ok(n) => r.count(&format!("{}_chunks_removed", name), n as u64),
                    Err(e) => {
                        r.inconclusive(&format!("{} returned {}", name, err_name(&e)));
                        return;
                    }
                }
                r.count(&format!("{}_calls", name), 1);
                collections += 1;
                let after = view(&store);
                if let Some(v) = removed_only_unreferenced(&before, &after, &live, &pending, &dmg, name) {
                    fail!(v);
                }
                if op == 9 {
                    extra.clear();
                }
            }
            10 => {
                let ids: Vec<String> = live.keys().cloned().collect();
                let id = rng.pick(&ids).clone();
                let want = live[&id].clone();
                let vw = view(&store);
                if health(&vw, vw.metas.get(&id), &want, c, &dmg) != Health::Judge {
                    trace.push(format!("stream-read({}) skipped: damaged", sid(&id)));
                } else {
                    trace.push(format!("stream-read({})", sid(&id)));
                    if let Some(v) = stream_read_check(&blob, &id, &want, &mut rng, c, r).await {
                        fail!(v);
                    }
                }
            }
            11 => {
                if persist {
                    damages_left -= 1;
                }
                if let Some(v) = damage_check(&blob, &store, &live, c, persist, &mut dmg, &mut rng, r, &mut trace, "seq").await {
                    fail!(v);
                }
            }
            _ => {
                // purge: delete everything, full collection => no chunk may remain
                trace.push("delete-all+full_gc".into());
                // at the end of the program open writers are finished or abandoned first
                while let Some(o) = opens.pop() {
                    drop(o);
                }
                let ids: Vec<String> = live.keys().cloned().collect();
                for id in ids {
                    if let Err(e) = blob.delete(&id).await {
                        r.inconclusive(&format!("delete returned {}", err_name(&e)));
                        return;
                    }
                    live.remove(&id);
                    deletes += 1;
                }
                match blob.full_gc().await {
                    Ok(s) => r.count("full_gc_chunks_removed", s.deleted as u64),
                    Err(e) => {
                        r.inconclusive(&format!("full_gc returned {}", err_name(&e)));
                        return;
                    }
                }
                collections += 1;
                let v = view(&store);
                if !v.chunks.is_empty() {
                    fail!(("seq:chunks-left-after-delete-all-and-full-gc".to_string(), format!("{} chunk record(s) remain, e.g. {} with _refs {:?}", v.chunks.len(), short(v.chunks.keys().next().unwrap()), v.chunks.values().next().unwrap().refs)));
                }
                extra.clear();
                r.count("purges_checked", 1);
            }
        }
        // ---- the quiescent oracle after every step
        let pending = pending_of(&opens, c);
        {
            let present: BTreeSet<String> = store.scan(CHUNK_PREFIX).into_iter().collect();
            extra.retain(|k, _| present.contains(k));
        }
        let before_shared = r.counters.get("shared_chunk_observations").copied().unwrap_or(0);
        if let Some(v) = check_quiescent(&blob, &store, &live, &Slack { pending: &pending, extra: &extra }, &dmg, c, "seq", "", r).await {
            fail!(v);
        }
        if r.counters.get("shared_chunk_observations").copied().unwrap_or(0) > before_shared {
            shared_seen = true;
        }
        r.count("seq_steps", 1);
    }
    for s in &sizes_seen {
        r.count(&format!("size[{}]", s), 1);
    }
    if big {
        r.count("default_chunk_size_programs", 1);
    } else {
        r.count("seq_programs", 1);
        r.count(&format!("seq_programs[chunk={}]", c), 1);
        if dmg.any() {
            r.count("seq_programs_continued_with_damage_in_store", 1);
        }
    }
    let nontrivial = shared_seen && deletes > 0 && collections > 0;
    r.eval(hash_str(&format!("{}|{}|{}", c, batch, trace.join(";"))), nontrivial);
    if r.want_sample() && (big || rng.chance(1, 20)) {
        r.sample(json!({"part": part, "chunk_size": c, "gc_batch": batch, "real_clock": real_clock, "damage_stays": persist, "program": trace.iter().take(40).collect::<Vec<_>>()}));
    }
}

fn note_size(seen: &mut BTreeSet<&'static str>, n: usize, c: usize) {
    let tag = if n == 0 {
        "0"
    } else if n == 1 {
        "1"
    } else if n == c - 1 {
        "c-1"
    } else if n == c {
        "c"
    } else if n == c + 1 {
        "c+1"
    } else if n > 2 * c {
        "many-chunks"
    } else {
        "other"
    };
    seen.insert(tag);
}

// ------------------------------------------------------------------------------------------------
// in-flight writer vs full_gc / repair (opt-in)
// ------------------------------------------------------------------------------------------------

/// NOTE on scope: the statement speaks of artifacts and of "stream-write" as one operation of a
/// sequence; whether a full collection / repair issued between write() and finish() of a streamed
/// upload must leave that upload intact is not said (the book documents full_gc as "ignores age").
/// This part therefore is not in the default run; it records a deterministic witness.
fn inflight_case(case_seed: u64, r: &mut Report) {
    let rt = match tokio::runtime::Builder::new_current_thread().build() {
        Ok(rt) => rt,
        Err(e) => {
            r.inconclusive(&format!("tokio runtime: {e}"));
            return;
        }
    };
    rt.block_on(async {
        let mut rng = Rng::new(case_seed);
        let c = *rng.pick(&[16usize, 64]);
        let which = rng.below(3); // 0 full_gc/new chunks, 1 repair/new chunks, 2 repair/shared chunk
        let (blob, store) = match mk_blob(Some(c), 1 << 20).await {
            Ok(x) => x,
            Err(e) => {
                r.inconclusive(&e);
                return;
            }
        };
        let dlen = c * (2 + rng.below(3)) + rng.below(c);
        let data = rng.bytes(dlen);
        let mut other: Option<String> = None;
        if which == 2 {
            match blob.put("b", &data, PutOptions::new()).await {
                Ok(id) => other = Some(id),
                Err(e) => {
                    r.inconclusive(&format!("put returned {}", err_name(&e)));
                    return;
                }
            }
        }
        let mut w = match blob.writer("a", PutOptions::new()).await {
            Ok(w) => w,
            Err(_) => return,
        };
        let cut = c + rng.below(data.len() - c);
        if w.write(&data[..cut]).await.is_err() {
            return;
        }
        let name = if which == 0 { "full_gc" } else { "repair" };
        let res = if which == 0 { blob.full_gc().await.map(|_| ()) } else { blob.repair().map(|_| ()) };
        if res.is_err() {
            r.inconclusive("collector returned error");
            return;
        }
        if w.write(&data[cut..]).await.is_err() {
            return;
        }
        let id = match w.finish().await {
            Ok(id) => id,
            Err(e) => {
                r.inconclusive(&format!("finish returned {}", err_name(&e)));
                return;
            }
        };
        if let Some(o) = &other {
            // the other holder of the content goes away; a collection follows
            let _ = blob.delete(o).await;
            age_chunks(&store, 100);
            let _ = blob.gc().await;
        }
        r.count("inflight_cases", 1);
        r.eval(case_seed, true);
        if let Err((_, d)) = read_check(&blob, &id, &data, "inflight", "").await {
            r.violation(
                format!("inflight:{name}-breaks-open-writer"),
                format!("writer.write({} of {} bytes); {}(); writer.write(rest); finish() = Ok; {}{}", cut, data.len(), name, if which == 2 { "delete(other artifact with the same content); gc(); " } else { "" }, d),
                json!({"part": "inflight", "case_seed": case_seed}),
            );
        }
    });
}

// ------------------------------------------------------------------------------------------------
// concurrent rounds
// ------------------------------------------------------------------------------------------------

#[derive(Clone, Copy, Debug, PartialEq, Eq)]
enum Scen {
    PutDelete,
    GcVsWriter,
    Mixed,
    DeleteFullGc,
    SameArtifactDeletedTwice,
}
const SCENS: [Scen; 5] = [Scen::PutDelete, Scen::GcVsWriter, Scen::Mixed, Scen::DeleteFullGc, Scen::SameArtifactDeletedTwice];
impl Scen {
    fn name(self) -> &'static str {
        match self {
            Scen::PutDelete => "put-delete",
            Scen::GcVsWriter => "gc-vs-writer",
            Scen::Mixed => "mixed",
            Scen::DeleteFullGc => "delete-fullgc",
            Scen::SameArtifactDeletedTwice => "same-artifact-deleted-twice",
        }
    }
    fn from_name(s: &str) -> Option<Scen> {
        SCENS.iter().copied().find(|x| x.name() == s)
    }
}

#[derive(Clone, Debug)]
enum Act {
    Put { content: usize, streamed: bool, piece: usize },
    DelOwn,
    DelId(String),
    /// collect (gc or full_gc) at least `min` times and for as long as any mutator is running
    CollectWhile { min: usize, full: bool },
}

#[derive(Default)]
struct ActorResult {
    made: Vec<(String, usize)>,
    deleted: Vec<String>,
    errors: Vec<String>,
    not_found: u64,
    ops: Vec<(u64, u64)>,
    collected: u64,
    collections: u64,
}

struct Shared {
    blob: BlobStore,
    contents: Vec<Arc<Vec<u8>>>,
    tick: AtomicU64,
    mutators: AtomicUsize,
    barrier: tokio::sync::Barrier,
}

async fn run_actor(sh: Arc<Shared>, acts: Vec<Act>, is_mutator: bool, mut yields: Rng) -> ActorResult {
    let mut res = ActorResult::default();
    sh.barrier.wait().await;
    for a in acts {
        let inv = sh.tick.fetch_add(1, Ordering::SeqCst);
        match a {
            Act::Put { content, streamed, piece } => {
                let data = &sh.contents[content];
                let out = if streamed {
                    match sh.blob.writer("s", PutOptions::new()).await {
                        Ok(mut w) => {
                            let mut err = None;
                            for p in data.chunks(piece.max(1)) {
                                if let Err(e) = w.write(p).await {
                                    err = Some(e);
                                    break;
                                }
                            }
                            match err {
                                Some(e) => Err(e),
                                None => w.finish().await,
                            }
                        }
                        Err(e) => Err(e),
                    }
                } else {
                    sh.blob.put("f", data, PutOptions::new()).await
                };
                match out {
                    Ok(id) => res.made.push((id, content)),
                    Err(e) => res.errors.push(format!("put: {}", err_name(&e))),
                }
            }
            Act::DelOwn => {
                let victim = res.made.iter().map(|(id, _)| id.clone()).find(|id| !res.deleted.contains(id));
                if let Some(id) = victim {
                    match sh.blob.delete(&id).await {
                        Ok(()) => res.deleted.push(id),
                        Err(e) => res.errors.push(format!("delete own: {}", err_name(&e))),
                    }
                }
            }
            Act::DelId(id) => match sh.blob.delete(&id).await {
                Ok(()) => res.deleted.push(id),
                // somebody else deleted it first (only in scenario same-artifact-deleted-twice): the
                // statement does not say what the loser is told; the artifact stays live in the model
                // unless some delete of it answered Ok
                Err(_) => res.not_found += 1,
            },
            Act::CollectWhile { min, full } => {
                let mut i = 0;
                while i < min || sh.mutators.load(Ordering::SeqCst) > 0 {
                    let n = if full {
                        match sh.blob.full_gc().await {
                            Ok(s) => s.deleted,
                            Err(e) => {
                                res.errors.push(format!("full_gc: {}", err_name(&e)));
                                0
                            }
                        }
                    } else {
                        match sh.blob.gc().await {
                            Ok(s) => s.deleted,
                            Err(e) => {
                                res.errors.push(format!("gc: {}", err_name(&e)));
                                0
                            }
                        }
                    };
                    res.collected += n as u64;
                    res.collections += 1;
                    i += 1;
                    if i > 100_000 {
                        break;
                    }
                    if yields.chance(1, 3) {
                        tokio::task::yield_now().await;
                    }
                }
            }
        }
        let resv = sh.tick.fetch_add(1, Ordering::SeqCst);
        res.ops.push((inv, resv));
        if yields.chance(1, 4) {
            tokio::task::yield_now().await;
        }
    }
    if is_mutator {
        sh.mutators.fetch_sub(1, Ordering::SeqCst);
    }
    res
}

/// returns true when a violation was reported
fn conc_case(case_seed: u64, forced: Option<Scen>, r: &mut Report) -> bool {
    let mut rng = Rng::new(case_seed);
    let picked = SCENS[rng.weighted(&[30, 30, 20, 10, 10])];
    let scen = forced.unwrap_or(picked);
    let workers = 2 + rng.below(3);
    let rt = match tokio::runtime::Builder::new_multi_thread().worker_threads(workers).build() {
        Ok(rt) => rt,
        Err(e) => {
            r.inconclusive(&format!("tokio runtime: {e}"));
            return false;
        }
    };
    let mut replay = json!({"part": "concurrent", "case_seed": case_seed, "scenario": scen.name()});
    if forced.is_some() {
        replay["forced"] = json!(true);
    }
    let out = rt.block_on(conc_case_async(rng, scen, workers, replay, r));
    drop(rt);
    out
}

async fn conc_case_async(mut rng: Rng, scen: Scen, workers: usize, replay: Value, r: &mut Report) -> bool {
    let prefix = format!("conc:{}", scen.name());
    let c = *rng.pick(&[16usize, 64]);
    let m = if scen == Scen::GcVsWriter { 4 + rng.below(6) } else { 2 + rng.below(4) };
    let pool = mk_pool(&mut rng, c, m);
    let (blob, store) = match mk_blob(Some(c), 1 << 20).await {
        Ok(x) => x,
        Err(e) => {
            r.inconclusive(&e);
            return false;
        }
    };
    // overlapping contents: each starts with block 0 most of the time
    let k = 1 + rng.below(3);
    let mut contents: Vec<Arc<Vec<u8>>> = Vec::new();
    for _ in 0..k {
        let n = if scen == Scen::GcVsWriter { 2 + rng.below(7) } else { 1 + rng.below(4) };
        let mut d = if rng.chance(3, 4) { sized(&pool, n * c, 0) } else { block_seq(&pool, &mut rng, n, false) };
        if rng.chance(1, 3) {
            d.extend_from_slice(&pool.blocks[0][..1 + rng.below(c - 1)]);
        }
        contents.push(Arc::new(d));
    }
    // the shared block is rebuilt before every round (the start barrier depends on the number of
    // actors); the BlobStore is moved from one to the next
    let mut sh = Arc::new(Shared { blob, contents: contents.clone(), tick: AtomicU64::new(0), mutators: AtomicUsize::new(0), barrier: tokio::sync::Barrier::new(1) });
    let mut live: BTreeMap<String, usize> = BTreeMap::new();
    let rounds = 2 + rng.below(5);
    let none: HashMap<String, i64> = HashMap::new();
    let mut history: Vec<String> = Vec::new();
    let mut dmg = Damage::default();

    macro_rules! seq_put {
        ($ci:expr) => {{
            let ci: usize = $ci;
            match sh.blob.put("p", &contents[ci], PutOptions::new()).await {
                Ok(id) => {
                    live.insert(id, ci);
                }
                Err(e) => {
                    r.inconclusive(&format!("put returned {}", err_name(&e)));
                    return false;
                }
            }
        }};
    }
    let pick_content = |rng: &mut Rng| if rng.chance(2, 3) { 0 } else { rng.below(k) };

    for round in 0..rounds {
        // ---------------- sequential preparation
        let mut plans: Vec<(Vec<Act>, bool)> = Vec::new(); // (acts, is_mutator)
        match scen {
            Scen::PutDelete => {
                let target = rng.below(7);
                while live.len() < target {
                    seq_put!(pick_content(&mut rng));
                }
                let nw = 2 + rng.below(workers - 1);
                let nd = if live.is_empty() || nw >= 4 { 0 } else { rng.below(4 - nw + 1).min(2) };
                for _ in 0..nw {
                    let n = 5 + rng.below(25);
                    let acts = (0..n)
                        .map(|_| if rng.chance(1, 5) { Act::DelOwn } else { Act::Put { content: pick_content(&mut rng), streamed: rng.chance(1, 4), piece: 1 + rng.below(2 * c) } })
                        .collect();
                    plans.push((acts, true));
                }
                let mut ids: Vec<String> = live.keys().cloned().collect();
                rng.shuffle(&mut ids);
                let take = if nd == 0 { 0 } else { rng.below(ids.len() + 1) };
                for d in 0..nd {
                    let acts = ids.iter().take(take).enumerate().filter(|(i, _)| i % nd == d).map(|(_, id)| Act::DelId(id.clone())).collect();
                    plans.push((acts, true));
                }
            }
            Scen::GcVsWriter => {
                // every content once, then everything deleted: all chunks are zero-reference and old
                for ci in 0..k {
                    seq_put!(ci);
                }
                let ids: Vec<String> = live.keys().cloned().collect();
                for id in ids {
                    if sh.blob.delete(&id).await.is_err() {
                        r.inconclusive("sequential delete failed");
                        return false;
                    }
                    live.remove(&id);
                }
                age_chunks(&store, 100);
                let n = 3 + rng.below(10);
                let acts = (0..n).map(|_| Act::Put { content: rng.below(k), streamed: rng.chance(1, 4), piece: 1 + rng.below(2 * c) }).collect();
                plans.push((acts, true));
                let nc = 1 + rng.below(2.min(workers - 1));
                for _ in 0..nc {
                    plans.push((vec![Act::CollectWhile { min: 2, full: false }], false));
                }
            }
            Scen::Mixed => {
                let target = 2 + rng.below(7);
                while live.len() < target {
                    seq_put!(pick_content(&mut rng));
                }
                age_chunks(&store, 100);
                let nw = 1 + rng.below(2);
                for _ in 0..nw {
                    let n = 5 + rng.below(20);
                    let acts = (0..n)
                        .map(|_| if rng.chance(1, 4) { Act::DelOwn } else { Act::Put { content: pick_content(&mut rng), streamed: rng.chance(1, 4), piece: 1 + rng.below(2 * c) } })
                        .collect();
                    plans.push((acts, true));
                }
                let mut ids: Vec<String> = live.keys().cloned().collect();
                rng.shuffle(&mut ids);
                let take = 1 + rng.below(ids.len());
                plans.push((ids.iter().take(take).map(|id| Act::DelId(id.clone())).collect(), true));
                plans.push((vec![Act::CollectWhile { min: 2, full: false }], false));
            }
            Scen::DeleteFullGc => {
                let target = 4 + rng.below(7);
                while live.len() < target {
                    seq_put!(rng.below(k));
                }
                let nd = 1 + rng.below(2);
                let mut ids: Vec<String> = live.keys().cloned().collect();
                rng.shuffle(&mut ids);
                let take = 1 + rng.below(ids.len());
                for d in 0..nd {
                    let acts = ids.iter().take(take).enumerate().filter(|(i, _)| i % nd == d).map(|(_, id)| Act::DelId(id.clone())).collect();
                    plans.push((acts, true));
                }
                plans.push((vec![Act::CollectWhile { min: 2, full: true }], false));
            }
            Scen::SameArtifactDeletedTwice => {
                let target = 2 + rng.below(5);
                while live.len() < target {
                    seq_put!(pick_content(&mut rng));
                }
                let mut ids: Vec<String> = live.keys().cloned().collect();
                rng.shuffle(&mut ids);
                let take = 1 + rng.below(ids.len());
                let na = 2 + rng.below(2);
                for _ in 0..na {
                    plans.push((ids.iter().take(take).map(|id| Act::DelId(id.clone())).collect(), true));
                }
            }
        }
        // ---------------- sometimes: damage underneath that stays while the store keeps being used
        if !live.is_empty() && rng.chance(1, 3) {
            let lb: Live = live.iter().map(|(id, ci)| (id.clone(), contents[*ci].clone())).collect();
            let mut t = Vec::new();
            if let Some((sig, detail)) = damage_check(&sh.blob, &store, &lb, c, true, &mut dmg, &mut rng, r, &mut t, &prefix).await {
                r.violation(sig, format!("{} | {}", detail, history.join(" | ")), replay.clone());
                return true;
            }
            history.extend(t);
        }
        // ---------------- concurrent phase
        let n_actors = plans.len();
        let n_mut = plans.iter().filter(|p| p.1).count();
        {
            // rebuild the shared block with a barrier for this round's actor count
            let old = match Arc::try_unwrap(sh) {
                Ok(s) => s,
                Err(_) => {
                    r.inconclusive("harness: shared state still referenced");
                    return false;
                }
            };
            sh = Arc::new(Shared { blob: old.blob, contents: old.contents, tick: AtomicU64::new(0), mutators: AtomicUsize::new(n_mut), barrier: tokio::sync::Barrier::new(n_actors) });
        }
        let desc: Vec<String> = plans
            .iter()
            .map(|(a, _)| {
                let puts = a.iter().filter(|x| matches!(x, Act::Put { .. })).count();
                let dels = a.iter().filter(|x| matches!(x, Act::DelOwn | Act::DelId(_))).count();
                let col = a.iter().any(|x| matches!(x, Act::CollectWhile { .. }));
                if col {
                    "collector".to_string()
                } else {
                    format!("{}put/{}del", puts, dels)
                }
            })
            .collect();
        history.push(format!("round {}: live_before={} actors=[{}]", round, live.len(), desc.join(", ")));
        let mut handles = Vec::new();
        for (acts, is_mut) in plans {
            let y = rng.fork(handles.len() as u64 + 1);
            handles.push(tokio::spawn(run_actor(sh.clone(), acts, is_mut, y)));
        }
        let mut results = Vec::new();
        for h in handles {
            match h.await {
                Ok(x) => results.push(x),
                Err(e) => {
                    // a panic inside the code under test on a worker thread
                    r.violation(format!("{prefix}:panic-in-actor"), format!("actor task failed: {}", first_line(&e.to_string())), replay.clone());
                    return true;
                }
            }
        }
        // ---------------- merge what the actors were told
        let mut errors = Vec::new();
        let mut order: Vec<(u64, usize)> = Vec::new();
        let (mut overlapped, mut nops, mut collected) = (0u64, 0u64, 0u64);
        for (ai, res) in results.iter().enumerate() {
            for (id, ci) in &res.made {
                live.insert(id.clone(), *ci);
            }
            errors.extend(res.errors.iter().cloned());
            for (inv, resv) in &res.ops {
                order.push((*inv, ai));
                nops += 1;
                if resv - inv > 1 {
                    overlapped += 1;
                }
            }
            collected += res.collected;
            r.count("conc_collections", res.collections);
            r.count("conc_delete_not_found", res.not_found);
        }
        for res in &results {
            for id in &res.deleted {
                live.remove(id);
            }
        }
        r.count("conc_rounds", 1);
        r.count(&format!("conc_rounds[{}]", scen.name()), 1);
        if dmg.any() {
            r.count("conc_rounds_with_damage_in_store", 1);
            r.count("conc_collections_with_damage_in_store", results.iter().map(|x| x.collections).sum());
            r.count("conc_puts_with_damage_in_store", results.iter().map(|x| x.made.len() as u64).sum());
        }
        r.count("conc_ops", nops);
        r.count("conc_ops_overlapping_another_actor", overlapped);
        r.count("conc_chunks_collected_during_rounds", collected);
        r.count("conc_puts", results.iter().map(|x| x.made.len() as u64).sum());
        r.count("conc_deletes", results.iter().map(|x| x.deleted.len() as u64).sum());
        if !errors.is_empty() {
            r.inconclusive(&format!("unexpected operation error in concurrent round: {}", errors[0]));
            return false;
        }
        order.sort();
        let mut h = hash_str(scen.name());
        for (_, ai) in &order {
            h = hash_combine(h, *ai as u64);
        }
        r.eval(hash_combine(h, nops), overlapped > 0);

        // ---------------- quiescent oracle
        let live_bytes: Live = live.iter().map(|(id, ci)| (id.clone(), contents[*ci].clone())).collect();
        let ctx = |history: &Vec<String>| format!("chunk_size={} contents={:?} workers={} | {}", c, contents.iter().map(|x| x.len()).collect::<Vec<_>>(), workers, history.join(" | "));
        if let Some((sig, detail)) = check_quiescent(&sh.blob, &store, &live_bytes, &Slack { pending: &none, extra: &none }, &dmg, c, &prefix, "", r).await {
            // describe the user-visible consequence of a wrong count: let time pass, collect, read
            let mut consequence = String::new();
            if sig.ends_with("refcount-undercount") {
                age_chunks(&store, 100);
                let _ = sh.blob.gc().await;
                let vw = view(&store);
                for (id, want) in &live_bytes {
                    if health(&vw, vw.metas.get(id), want, c, &dmg) != Health::Judge {
                        continue;
                    }
                    if let Err((_, d)) = read_check(&sh.blob, id, want, &prefix, "").await {
                        consequence = format!(" | consequence after time passes and gc(): {}", d);
                        break;
                    }
                }
            }
            r.violation(sig, format!("{}{} | {}", detail, consequence, ctx(&history)), replay.clone());
            return true;
        }
        // time passes, incremental collection, everything alive must still be there
        age_chunks(&store, 100);
        match sh.blob.gc().await {
            Ok(s) => r.count("conc_chunks_collected_at_quiescence", s.deleted as u64),
            Err(_) => {}
        }
        if let Some((sig, d)) = check_quiescent(&sh.blob, &store, &live_bytes, &Slack { pending: &none, extra: &none }, &dmg, c, &prefix, "-after-gc", r).await {
            r.violation(sig, format!("{} | {}", d, ctx(&history)), replay.clone());
            return true;
        }
        if r.want_sample() && round == 0 && rng.chance(1, 10) {
            r.sample(json!({"part": "concurrent", "scenario": scen.name(), "chunk_size": c, "content_sizes": contents.iter().map(|x| x.len()).collect::<Vec<_>>(), "round": history.last(), "ops": nops, "ops_overlapping": overlapped, "live_after": live.len()}));
        }
    }
    // ---------------- the end: delete everything, full collection, nothing may remain
    let ids: Vec<String> = live.keys().cloned().collect();
    for id in ids {
        if sh.blob.delete(&id).await.is_err() {
            r.inconclusive("sequential delete failed");
            return false;
        }
    }
    if sh.blob.full_gc().await.is_err() {
        r.inconclusive("full_gc returned error");
        return false;
    }
    let v = view(&store);
    if !v.chunks.is_empty() {
        r.violation(format!("{prefix}:chunks-left-after-delete-all-and-full-gc"), format!("{} chunk record(s) remain | {}", v.chunks.len(), history.join(" | ")), replay.clone());
        return true;
    }
    r.count("conc_cases", 1);
    false
}

// ------------------------------------------------------------------------------------------------
// main
// ------------------------------------------------------------------------------------------------

fn main() {
    let args = Args::parse();
    let started = Instant::now();
    quiet_panics();
    let mut total = Report::new();
    total.max_samples = 10;
    let part = args.extra.get("part").cloned().unwrap_or_else(|| "all".into());
    let forced = args.extra.get("scenario").and_then(|s| Scen::from_name(s));
    let mut floors: Vec<(&'static str, u64)> = Vec::new();

    if let Some(p) = &args.replay {
        let v: Value = serde_json::from_str(&std::fs::read_to_string(p).expect("replay file")).expect("json");
        let rp = if v.get("replay").is_some() { v["replay"].clone() } else { v.clone() };
        let s = rp["case_seed"].as_u64().unwrap_or(0);
        match rp["part"].as_str().unwrap_or("") {
            "seq" => seq_case(s, false, &mut total),
            "default-chunk" => seq_case(s, true, &mut total),
            "inflight" => inflight_case(s, &mut total),
            "concurrent" => {
                // the schedule is the operating system's: repeat the seeded case until the race recurs
                let f = if rp["forced"].as_bool().unwrap_or(false) { rp["scenario"].as_str().and_then(Scen::from_name) } else { None };
                let reps = args.extra_u64("reps", 400);
                let mut hit = false;
                for i in 0..reps {
                    if conc_case(s, f, &mut total) {
                        total.count("replay_repetitions_until_reproduced", i + 1);
                        hit = true;
                        break;
                    }
                }
                if !hit {
                    total.inconclusive("concurrent case did not reproduce within the repetition limit (schedule-dependent)");
                }
            }
            other => {
                // a panic caught by par_cases carries only {case, case_seed}: try every part
                let _ = other;
                seq_case(s, false, &mut total);
                conc_case(s, None, &mut total);
            }
        }
    } else {
        let want = |p: &str| part == "all" || part == p;
        if want("seq") {
            let n = args.by_tier(6_000u64, 150_000u64);
            // real-clock cases sleep: oversubscribe a little so that sleeping workers do not idle cores
            let rep = par_cases(args.threads + args.threads / 2, args.seed ^ 0x5E9, n, args.budget(45, 420), |_i, s, r| seq_case(s, false, r));
            total.merge(rep);
            floors.extend([("seq_programs", 300), ("reads_checked", 5_000), ("chunk_refcounts_checked", 5_000), ("shared_chunk_observations", 1_000), ("gc_chunks_removed", 100), ("full_gc_chunks_removed", 100), ("damage_reported_by_verify", 100), ("streams_finished", 300), ("streamed_reads_checked", 100), ("purges_checked", 300), ("seq_programs_continued_with_damage_in_store", 100), ("healthy_reads_with_damage_present", 2_000), ("damaged_artifacts_reported_by_verify", 500), ("gc_calls_with_damaged_artifact_present", 100), ("full_gc_calls_with_damaged_artifact_present", 50), ("uploads_sharing_a_chunk_with_an_altered_stored_chunk", 100), ("uploads_sharing_a_chunk_with_a_lost_chunk", 100), ("altered_chunk_refcounts_checked", 500)]);
        }
        if want("default-chunk") {
            let rep = par_cases(1, args.seed ^ 0xD1, args.by_tier(1, 4), args.budget(60, 240), |_i, s, r| seq_case(s, true, r));
            total.merge(rep);
            floors.push(("default_chunk_size_programs", 1));
        }
        if want("concurrent") {
            let n = args.by_tier(1_500u64, 100_000u64);
            let rep = par_cases(args.threads.div_ceil(2).max(1), args.seed ^ 0xC0C, n, args.budget(45, 480), |_i, s, r| {
                conc_case(s, forced, r);
            });
            total.merge(rep);
            floors.extend([("conc_rounds", 100), ("conc_ops", 2_000), ("conc_ops_overlapping_another_actor", 100), ("conc_puts", 1_000), ("conc_deletes", 100), ("conc_rounds_with_damage_in_store", 50), ("conc_collections_with_damage_in_store", 100), ("conc_puts_with_damage_in_store", 300)]);
        }
        if part == "inflight" {
            let rep = par_cases(args.threads, args.seed ^ 0x1F, args.by_tier(60, 600), args.budget(30, 60), |_i, s, r| inflight_case(s, r));
            total.merge(rep);
            floors.push(("inflight_cases", 20));
        }
    }

    let meta = Meta {
        property: "C19",
        rule: "seq: one evaluation = one random sequential program (15-60 steps; chunk size 16 or 64; put / up to 3 interleaved streamed writers fed in random pieces, finished early or abandoned / delete / time passing / gc / full_gc / repair / streamed read / damage one chunk underneath) on the real BlobStore with the complete oracle (exact bytes of every live artifact, verify true, per-chunk stored _refs = occurrences in live artifacts' chunk lists, every referenced chunk present, collections removed only unreferenced chunks, no content under two keys, damage always reported, delete-all + full_gc leaves no chunk) evaluated after every step; in half of the programs the injected damage stays in the store and the program continues on it (healthy artifacts judged in full, damaged ones by verify); distinct by the hash of (chunk size, gc batch, op trace); non-trivial if some chunk was shared by >= 2 list entries of live artifacts, at least one delete and at least one collection happened. concurrent: one evaluation = one round of 2-4 tokio tasks (multi-thread runtime) judged at quiescence; distinct by the hash of (scenario, actor order of operation invocations); non-trivial if at least one operation's invocation..response interval contained another actor's event.",
        assumptions: vec![
            "time passing is produced by moving `_created` of stored chunks 100 s into the past at quiescent points (the collector only compares that field with the clock); a few sequential programs really sleep 1.1 s instead".into(),
            "put(empty) answering EmptyData is the documented contract and is not judged; a zero-length artifact is produced through the streamed writer".into(),
            "an unexpected Err from put/write/finish/delete/gc is reported as inconclusive, not as a violation (the statement does not speak about availability)".into(),
            "references held by open writers are expected on top of the live artifacts' occurrences; references leaked by abandoned writers are tolerated (upper bound only) until the next repair".into(),
            "full_gc / repair are never issued while a streamed writer is open in the judged parts (the statement is silent about in-flight uploads; see --part inflight)".into(),
            "damage that leaves the concatenated content unchanged (moving bytes between adjacent chunks) is not generated: the artifact would still read back exactly; should several injected damages cancel out that way, the artifact is not judged".into(),
            "half of the sequential programs (1-3 injections) and a third of the concurrent rounds leave the injected damage in the store and continue: an artifact all of whose listed chunks still hold its bytes is judged in full (byte-exact read, verify true, chunks never collected); an artifact that is unhealthy only through keys the harness damaged is judged by verify not answering Ok(true); an artifact unhealthy through any other key is judged in full (and so reported)".into(),
            "reference counts stay judged for chunks whose _data the harness altered (record and _refs were kept); for a key whose record the harness removed the count is void for the rest of the program (a later upload re-creates it with count 1 while older artifacts still list it), so such keys are exempt from conservation and from 'collected while referenced'".into(),
            "concurrent: each artifact is deleted by exactly one task except in scenario same-artifact-deleted-twice; gc-vs-writer has exactly one writer and no deleter so that the only racing parties are the collector and the deduplicating writer".into(),
        ],
        floors: if args.replay.is_some() { vec![] } else { floors },
        exhaustive: false,
    };
    write_result(&args, &meta, &total, started);
}
