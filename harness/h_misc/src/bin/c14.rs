//! C14 — Vault: no access without a live grant, no plaintext at rest.
//!
//! One real `tensor_vault::Vault` per program (real TensorStore, real GraphEngine), driven by a random
//! program of set / get / get_version / batch_get / list / list_versions / current_version / rotate /
//! rollback / delete / grant / grant_with_permission / grant_with_ttl / revoke / delegate /
//! get_permission / MEMBER-edge (and foreign-edge) creation and removal / waiting past a TTL, issued
//! by root and 3-5 identities (+ groups) over several secrets and namespaces.
//!
//! Monitors:
//!  access     : an independent access model (grants with level and expiry bracket, directed MEMBER
//!               edges, AttenuationPolicy arithmetic re-implemented from the documented table) decides
//!               for every non-root call whether a sufficient live grant can exist. Only the ONLY-IF
//!               direction is a violation: the real call succeeded (or `list` returned the name, or
//!               `get_permission` reported a level) although the model has no sufficient grant.
//!               Over-denials are counted, never alarmed. TTL grants count as "possibly live" until
//!               (return of the granting call + ttl + MARGIN).
//!  at-rest    : unique 18+ byte cores of every secret name and every secret value must not occur
//!               (raw, lowercase hex, base64) in store.snapshot_bytes(), in any raw key / field name /
//!               field value reachable through scan("")+get, or in a saved snapshot file.
//!  audit      : no value core in the Debug or JSON form of any audit record.
//!  errors     : no value core in Display/Debug of any error returned.

use common::*;
use graph_engine::{Direction, GraphEngine, PropertyValue};
use serde_json::{json, Value};
use std::collections::{HashMap, HashSet, VecDeque};
use std::sync::Arc;
use std::time::{Duration, Instant};
use tensor_store::{ScalarValue, TensorStore, TensorValue};
use tensor_vault::{AttenuationPolicy, Permission, Vault, VaultConfig, VaultError};

/// slack added to the latest possible expiry instant before a TTL grant is treated as certainly dead
/// (and subtracted from the earliest possible one before it is treated as certainly live)
const MARGIN: Duration = Duration::from_millis(30);
const MAX_VIOLATIONS_PER_PROGRAM: usize = 6;
/// a TTL table that went through persist -> reopen is rebuilt from wall-clock stamps taken with two
/// separate clock reads; on a loaded machine the reloaded deadline may sit later than the original by
/// the preemption between those reads. Grants that crossed a reopen get this much extra don't-care.
const REOPEN_SLACK: Duration = Duration::from_millis(150);
static SEEN_SIGNATURES: std::sync::OnceLock<std::sync::Mutex<HashMap<String, u32>>> = std::sync::OnceLock::new();

// ------------------------------------------------------------------------------------------------
// access model
// ------------------------------------------------------------------------------------------------

#[derive(Clone, Copy, PartialEq, Eq, Debug)]
enum GState {
    Live,
    Revoked,
    /// removed because the delegation that created it was revoked (directly or by a cascade)
    RevokedDelegation,
    Deleted,
}

/// one delegation record (parent -> child), as the documented contract keeps it: the latest
/// delegate(parent, child, ..) call defines what revoking that delegation takes away
#[derive(Clone, Debug)]
struct DRec {
    parent: String,
    child: String,
    secrets: Vec<usize>,
    grants: Vec<usize>,
}

#[derive(Clone, Debug)]
struct Grant {
    holder: String,
    secret: usize,
    level: u8,
    /// (earliest, latest) possible expiry instant; None = no TTL
    exp: Option<(Instant, Instant)>,
    state: GState,
}

#[derive(Clone, Debug)]
struct MEdge {
    id: u64,
    from: String,
    /// entity key, or "#<secret index>" for an edge that points at a secret's graph node
    to: String,
    etype: String,
}

#[derive(Clone, Copy, Default)]
struct Flags {
    expired: bool,
    revoked: bool,
    revoked_delegation: bool,
    deleted: bool,
    no_atten: bool,
    any_edge: bool,
    /// time mode: true = a TTL grant counts only when it is certainly still live
    certain: bool,
}

#[derive(Clone, Copy, Debug)]
struct Policy {
    admin_limit: usize,
    write_limit: usize,
    horizon: usize,
}

impl Policy {
    /// the documented table (attenuation.rs module doc + AttenuationPolicy field docs):
    /// Admin is preserved up to admin_limit hops, becomes Write up to write_limit, Read beyond;
    /// Write is preserved up to write_limit, Read beyond; nothing beyond the horizon.
    fn attenuate(&self, level: u8, hops: usize) -> u8 {
        if hops > self.horizon {
            return 0;
        }
        match level {
            3 => {
                if hops <= self.admin_limit {
                    3
                } else if hops <= self.write_limit {
                    2
                } else {
                    1
                }
            }
            2 => {
                if hops <= self.write_limit {
                    2
                } else {
                    1
                }
            }
            l => l,
        }
    }
}

struct Model {
    root: String,
    exists: Vec<bool>,
    grants: Vec<Grant>,
    edges: Vec<MEdge>,
    policy: Policy,
    /// secrets whose names are near-duplicates of one another (white space around, ASCII case, NFC/NFD,
    /// one a prefix of the other) share a family id; they are nevertheless DIFFERENT secrets
    family: Vec<usize>,
    /// the same for identity names
    ident_family: HashMap<String, usize>,
}

impl Model {
    /// best level `who` can have on `secret` at instant `at` under `f`
    fn level(&self, who: &str, secret: usize, at: Instant, f: Flags) -> u8 {
        if who == self.root {
            return 3;
        }
        // shortest distance over directed MEMBER edges (attenuation is monotone in hops, so the
        // shortest route gives the best level any route could give)
        let mut dist: HashMap<&str, usize> = HashMap::new();
        let mut q: VecDeque<&str> = VecDeque::new();
        dist.insert(who, 0);
        q.push_back(who);
        let mut best = 0u8;
        while let Some(cur) = q.pop_front() {
            let d = dist[cur];
            for e in &self.edges {
                if e.from != cur {
                    continue;
                }
                let is_member = e.etype == "MEMBER";
                if !(is_member || f.any_edge) {
                    continue;
                }
                if e.to.starts_with('#') {
                    // an edge that is not a grant pointing at a secret node: confers nothing in the
                    // model; only the diagnostic pass (any_edge) lets it count, as Read
                    if f.any_edge && e.to[1..].parse::<usize>().ok() == Some(secret) {
                        best = best.max(1);
                    }
                    continue;
                }
                if !dist.contains_key(e.to.as_str()) {
                    dist.insert(e.to.as_str(), d + 1);
                    q.push_back(e.to.as_str());
                }
            }
        }
        for g in &self.grants {
            if g.secret != secret {
                continue;
            }
            let ok_state = match g.state {
                GState::Live => true,
                GState::Revoked => f.revoked,
                GState::RevokedDelegation => f.revoked_delegation,
                GState::Deleted => f.deleted,
            };
            if !ok_state {
                continue;
            }
            if let Some((lo, hi)) = g.exp {
                let counts = if f.expired {
                    true
                } else if f.certain {
                    at + MARGIN < lo
                } else {
                    at <= hi + MARGIN
                };
                if !counts {
                    continue;
                }
            }
            let Some(&d) = dist.get(g.holder.as_str()) else { continue };
            let eff = if f.no_atten {
                g.level
            } else {
                // the membership walk is bounded by the horizon: a holder d hops away is reached only
                // when d < horizon; the grant itself is one more hop
                if d >= self.policy.horizon {
                    0
                } else {
                    self.policy.attenuate(g.level, d + 1)
                }
            };
            best = best.max(eff);
        }
        best
    }

    /// does `who` hold a sufficient grant on another secret whose name is a near-duplicate of this one?
    fn near_duplicate_secret_granted(&self, who: &str, secret: usize, at: Instant, need: u8) -> bool {
        (0..self.family.len()).any(|j| j != secret && self.family[j] == self.family[secret] && self.level(who, j, at, Flags::default()) >= need)
    }

    /// does an identity whose name is a near-duplicate of `who` hold a sufficient grant on the secret?
    fn near_duplicate_identity_granted(&self, who: &str, secret: usize, at: Instant, need: u8) -> bool {
        let Some(f) = self.ident_family.get(who) else { return false };
        self.ident_family.iter().any(|(other, g)| g == f && other != who && self.level(other, secret, at, Flags::default()) >= need)
    }

    /// why a call that needed `need` was not covered by the model (used for the signature only)
    fn reason(&self, who: &str, secret: usize, at: Instant, need: u8) -> &'static str {
        let mut f = Flags { expired: true, ..Default::default() };
        if self.level(who, secret, at, f) >= need {
            return "expired-ttl-grant";
        }
        f.revoked = true;
        if self.level(who, secret, at, f) >= need {
            return "revoked-grant";
        }
        f.revoked_delegation = true;
        if self.level(who, secret, at, f) >= need {
            return "revoked-delegation";
        }
        f.deleted = true;
        if self.level(who, secret, at, f) >= need {
            return "grant-on-deleted-secret";
        }
        if self.near_duplicate_secret_granted(who, secret, at, need) {
            return "grant-on-near-duplicate-name";
        }
        if self.near_duplicate_identity_granted(who, secret, at, need) {
            return "grant-to-near-duplicate-identity";
        }
        f.no_atten = true;
        if self.level(who, secret, at, f) >= need {
            return "beyond-attenuation";
        }
        f.any_edge = true;
        if self.level(who, secret, at, f) >= need {
            return "membership-or-foreign-edge-only";
        }
        if self.level(who, secret, at, Flags::default()) > 0 {
            return "insufficient-level";
        }
        "no-grant"
    }
}

// ------------------------------------------------------------------------------------------------
// markers and byte search
// ------------------------------------------------------------------------------------------------

#[derive(Clone)]
struct Marker {
    is_name: bool,
    label: String,
    /// needles: (encoding tag, bytes)
    needles: Vec<(&'static str, Vec<u8>)>,
}

const B64: &[u8; 64] = b"ABCDEFGHIJKLMNOPQRSTUVWXYZabcdefghijklmnopqrstuvwxyz0123456789+/";

fn b64(data: &[u8]) -> Vec<u8> {
    let mut out = Vec::new();
    for c in data.chunks(3) {
        if c.len() < 3 {
            break; // only whole groups: their characters do not depend on what follows
        }
        let n = (c[0] as u32) << 16 | (c[1] as u32) << 8 | c[2] as u32;
        out.push(B64[(n >> 18) as usize & 63]);
        out.push(B64[(n >> 12) as usize & 63]);
        out.push(B64[(n >> 6) as usize & 63]);
        out.push(B64[n as usize & 63]);
    }
    out
}

fn make_marker(is_name: bool, label: &str, core: &str) -> Marker {
    let raw = core.as_bytes().to_vec();
    let mut needles = vec![("raw", raw.clone())];
    let hex: String = raw.iter().map(|b| format!("{:02x}", b)).collect();
    needles.push(("hex", hex.into_bytes()));
    for off in 0..3 {
        // inner characters of the base64 text at each alignment (first group after the offset onward)
        let enc = b64(&raw[off..]);
        if enc.len() >= 16 {
            needles.push(("base64", enc));
        }
    }
    Marker { is_name, label: label.to_string(), needles }
}

/// multi-needle search: one pass over the haystack with an 8-byte prefix table
struct Searcher {
    table: HashMap<u64, Vec<(usize, usize)>>, // prefix -> (marker idx, needle idx)
}

impl Searcher {
    fn new(markers: &[Marker]) -> Searcher {
        let mut table: HashMap<u64, Vec<(usize, usize)>> = HashMap::new();
        for (mi, m) in markers.iter().enumerate() {
            for (ni, (_, n)) in m.needles.iter().enumerate() {
                debug_assert!(n.len() >= 8);
                let k = u64::from_le_bytes(n[..8].try_into().unwrap());
                table.entry(k).or_default().push((mi, ni));
            }
        }
        Searcher { table }
    }
    /// returns (marker idx, needle idx) of every needle that occurs in `hay`
    fn find(&self, markers: &[Marker], hay: &[u8]) -> Vec<(usize, usize)> {
        let mut hits = Vec::new();
        if hay.len() < 8 || self.table.is_empty() {
            return hits;
        }
        for i in 0..=hay.len() - 8 {
            let k = u64::from_le_bytes(hay[i..i + 8].try_into().unwrap());
            if let Some(c) = self.table.get(&k) {
                for &(mi, ni) in c {
                    let n = &markers[mi].needles[ni].1;
                    if hay.len() - i >= n.len() && &hay[i..i + n.len()] == n.as_slice() && !hits.contains(&(mi, ni)) {
                        hits.push((mi, ni));
                    }
                }
            }
        }
        hits
    }
}

// ------------------------------------------------------------------------------------------------
// text generation
// ------------------------------------------------------------------------------------------------

const CORE_ALPHABET: &[&str] = &[
    "a", "b", "c", "d", "e", "f", "g", "h", "k", "m", "n", "p", "q", "r", "s", "t", "w", "x", "y", "z", "A", "B", "D", "E", "G", "H", "K",
    "M", "Q", "R", "T", "W", "X", "Z", "2", "3", "4", "5", "6", "7", "8", "9", "-", "_", ".", "é", "ß", "λ", "ж", "中", "🔑",
];
const WILD_ALPHABET: &[&str] = &[
    " ", "\"", "\\", "\n", "\t", "\u{0}", "'", "{", "}", ":", ",", "*", "%", "/", "\u{7f}", "\u{80}", "\u{ffff}", "\u{10ffff}", "ä", "😀", "a",
    "Z", "0", "=", "\r", "\u{1b}", "\u{202e}",
];

fn gen_core(rng: &mut Rng) -> String {
    // >= 18 bytes, unique with overwhelming probability (>= 18 symbols from a 51-symbol alphabet)
    let n = 18 + rng.below(7);
    let mut s = String::new();
    for _ in 0..n {
        s.push_str(*rng.pick(CORE_ALPHABET));
    }
    s
}

fn gen_wild(rng: &mut Rng, max_bytes: usize) -> String {
    let mut s = String::new();
    loop {
        let c = if rng.chance(1, 3) { *rng.pick(WILD_ALPHABET) } else { *rng.pick(CORE_ALPHABET) };
        if s.len() + c.len() > max_bytes {
            break;
        }
        s.push_str(c);
    }
    s
}

fn fill_to(rng: &mut Rng, mut s: String, target_bytes: usize) -> String {
    // cheap filler up to an exact byte length (ASCII tail so that the length is hit exactly)
    let wild_part = target_bytes.saturating_sub(s.len()).min(200);
    s.push_str(&gen_wild(rng, wild_part));
    while s.len() < target_bytes {
        let rest = target_bytes - s.len();
        let chunk = rest.min(64);
        let b = rng.bytes(chunk);
        for x in b {
            s.push((b'a' + (x % 26)) as char);
        }
    }
    s
}

// ------------------------------------------------------------------------------------------------
// program
// ------------------------------------------------------------------------------------------------

fn perm_of(l: u8) -> Permission {
    match l {
        3 => Permission::Admin,
        2 => Permission::Write,
        _ => Permission::Read,
    }
}
fn level_of(p: Permission) -> u8 {
    match p {
        Permission::Admin => 3,
        Permission::Write => 2,
        Permission::Read => 1,
    }
}
fn err_variant(e: &VaultError) -> &'static str {
    match e {
        VaultError::AccessDenied(_) => "AccessDenied",
        VaultError::NotFound(_) => "NotFound",
        VaultError::CryptoError(_) => "CryptoError",
        VaultError::KeyDerivationError(_) => "KeyDerivationError",
        VaultError::StorageError(_) => "StorageError",
        VaultError::GraphError(_) => "GraphError",
        VaultError::InvalidKey(_) => "InvalidKey",
        VaultError::InsufficientPermission(_) => "InsufficientPermission",
        VaultError::RateLimited(_) => "RateLimited",
        VaultError::SecretExpired(_) => "SecretExpired",
        VaultError::QuotaExceeded(_) => "QuotaExceeded",
        _ => "Other",
    }
}

fn entity_node(graph: &GraphEngine, key: &str) -> Option<u64> {
    if let Ok(nodes) = graph.find_nodes_by_property("entity_key", &PropertyValue::String(key.to_string())) {
        if let Some(n) = nodes.first() {
            return Some(n.id);
        }
    }
    let mut props = HashMap::new();
    props.insert("entity_key".to_string(), PropertyValue::String(key.to_string()));
    graph.create_node("VaultEntity", props).ok()
}

fn find_entity_node(graph: &GraphEngine, key: &str) -> Option<u64> {
    graph
        .find_nodes_by_property("entity_key", &PropertyValue::String(key.to_string()))
        .ok()
        .and_then(|n| n.first().map(|x| x.id))
}

struct Prog<'a> {
    case_seed: u64,
    rng: Rng,
    vault: Vault,
    store: TensorStore,
    graph: Arc<GraphEngine>,
    model: Model,
    actors: Vec<String>, // users then groups (all may act as requesters and hold grants)
    n_users: usize,
    names: Vec<String>,
    /// graph node id of each existing secret (learned from root's new outgoing edge at creation)
    secret_node: Vec<Option<u64>>,
    markers: Vec<Marker>,
    value_marker_count: usize,
    trace: Vec<String>,
    reported: HashSet<String>,
    violations: usize,
    allowed: u64,
    denied: u64,
    r: &'a mut Report,
    scratch: &'a std::path::Path,
    short_ttl_pending: Vec<Instant>, // latest possible expiry instants of short TTL grants
    last_ttl_pair: Option<(String, usize)>,
    /// delegation records as the contract keeps them (mirrors delegate / revoke_delegation*)
    deleg: Vec<DRec>,
    cfg: VaultConfig,
    password: Vec<u8>,
    /// the vault could not be reopened / re-keyed: the program cannot continue
    dead: bool,
}

impl<'a> Prog<'a> {
    fn replay(&self) -> Value {
        json!({"part": "program", "case_seed": self.case_seed})
    }

    fn violate(&mut self, sig: String, detail: String) {
        if !self.reported.insert(sig.clone()) {
            self.r.count("violations_repeated_in_program", 1);
            return;
        }
        self.violations += 1;
        let keep = if std::env::var_os("C14_FULL_TRACE").is_some() { usize::MAX } else { 14 }; // triage aid
        let tail: Vec<&String> = self.trace.iter().rev().take(keep).rev().collect();
        let d = format!(
            "{} | policy {:?} | last ops: {:?}",
            detail, self.model.policy, tail
        );
        let rp = self.replay();
        // the shared Report keeps at most 40 witnesses in total: keep two per signature process-wide so
        // that a rare new signature is never crowded out by frequent known ones
        let nth = {
            let mut g = SEEN_SIGNATURES.get_or_init(|| std::sync::Mutex::new(HashMap::new())).lock().unwrap_or_else(|e| e.into_inner());
            let e = g.entry(sig.clone()).or_insert(0u32);
            *e += 1;
            *e
        };
        if nth <= 2 {
            self.r.violation(sig, d, rp);
        } else {
            self.r.violations_total += 1;
            self.r.count(&format!("violations_not_kept[{}]", sig), 1);
        }
    }

    fn new_value(&mut self) -> String {
        // mostly marker-bearing values of modest size; sometimes tiny, big, maximal or over the limit
        let kind = self.rng.weighted(&[60, 8, 8, 3, 3]);
        match kind {
            1 => {
                // tiny (1..15 bytes): cannot carry an unambiguous marker; exercised but not scanned for
                let n = 1 + self.rng.below(15);
                let s = gen_wild(&mut self.rng, n);
                if s.is_empty() {
                    "x".to_string()
                } else {
                    s
                }
            }
            _ => {
                let core = gen_core(&mut self.rng);
                let label = format!("value#{}", self.value_marker_count);
                self.value_marker_count += 1;
                self.markers.push(make_marker(false, &label, &core));
                let target = match kind {
                    0 => core.len() + self.rng.below(160),
                    2 => 2_000 + self.rng.below(6_000),
                    3 => 65_531,
                    _ => 65_532 + self.rng.below(40),
                };
                // core somewhere inside: prefix of wild text, core, filler
                let pre_len = self.rng.below(12);
                let pre = gen_wild(&mut self.rng, pre_len);
                let s = format!("{}{}", pre, core);
                let target = target.max(s.len());
                fill_to(&mut self.rng, s, target)
            }
        }
    }

    fn check_err(&mut self, op: &str, e: &VaultError) {
        self.r.count(&format!("err[{}]", err_variant(e)), 1);
        let text = format!("{} || {:?}", e, e);
        let s = Searcher::new(&self.markers);
        self.r.count("error_messages_checked", 1);
        for (mi, ni) in s.find(&self.markers, text.as_bytes()) {
            if !self.markers[mi].is_name {
                let sig = format!("error-display:secret-value-in-message:{}:{}", op, err_variant(e));
                let d = format!(
                    "{} ({}) occurs in the error returned by {}: {:.200}",
                    self.markers[mi].label, self.markers[mi].needles[ni].0, op, text
                );
                self.violate(sig, d);
            }
        }
    }

    /// judge one access decision of a non-root call. `ok` = the real call let the requester through.
    fn judge(&mut self, op: &str, who: &str, secret: usize, need: u8, ok: bool, denied_by_acl: bool, t0: Instant, t1: Instant) {
        if who == self.model.root {
            return;
        }
        self.r.count("decisions_checked", 1);
        self.r.count(&format!("checked[{}]", op), 1);
        let possible = self.model.level(who, secret, t0, Flags::default());
        if possible < need {
            if self.model.near_duplicate_secret_granted(who, secret, t0, need) {
                self.r.count("decisions_through_near_duplicate_of_granted_name", 1);
            }
            if self.model.near_duplicate_identity_granted(who, secret, t0, need) {
                self.r.count("decisions_by_near_duplicate_of_granted_identity", 1);
            }
        }
        if ok {
            if possible >= need {
                self.allowed += 1;
                self.r.count("decisions_allowed_with_grant", 1);
            } else {
                let reason = self.model.reason(who, secret, t0, need);
                if reason == "expired-ttl-grant" {
                    self.r.count("expired_ttl_decisive", 1);
                }
                let sig = format!("access:{}:{}", op, reason);
                let d = format!(
                    "{} by {} on secret #{} ({:?}) succeeded but the access model has no sufficient grant: needs level {}, best possible level {} ({}); grants on it: {:?}; MEMBER/other edges: {:?}",
                    op,
                    who,
                    secret,
                    short(&self.names[secret]),
                    need,
                    possible,
                    reason,
                    self.model.grants.iter().filter(|g| g.secret == secret).map(|g| format!("{}:L{}:{:?}{}", g.holder, g.level, g.state, match g.exp { Some((_, hi)) => format!(":ttl-ends{}ms", signed_ms(hi, t0)), None => String::new() })).collect::<Vec<_>>(),
                    self.model.edges.iter().map(|e| format!("{}-{}->{}", e.from, e.etype, e.to)).collect::<Vec<_>>()
                );
                self.violate(sig, d);
            }
        } else {
            let certain = self.model.level(who, secret, t1, Flags { certain: true, ..Default::default() });
            if possible < need {
                self.denied += 1;
                self.r.count("decisions_denied_without_grant", 1);
                // was an expired TTL grant what made the difference?
                if self.model.level(who, secret, t0, Flags { expired: true, ..Default::default() }) >= need {
                    self.r.count("expired_ttl_decisive", 1);
                    self.r.count("denied_after_ttl_expiry", 1);
                }
            } else if certain >= need && denied_by_acl && self.model.exists[secret] {
                self.r.count("over_denials", 1);
                self.r.count(&format!("over_denial[{}]", op), 1);
                // the usual cause: sweeping an expired TTL grant (or revoking) removes every grant edge of
                // that (holder, secret) pair, also permanent ones made separately
                let collateral = self.model.grants.iter().any(|g| g.secret == secret && (g.state == GState::Revoked || g.state == GState::RevokedDelegation || g.exp.map_or(false, |(lo, _)| lo < t1 + MARGIN)));
                self.r.count(if collateral { "over_denials_next_to_expired_or_revoked_grant" } else { "over_denials_other" }, 1);
                if !collateral && std::env::var("C14_DEBUG").is_ok() {
                    eprintln!(
                        "OVER-DENIAL {} by {} on #{} need {} certain {} | grants {:?} | edges {:?} | policy {:?} | seed {} | tail {:?}",
                        op,
                        who,
                        secret,
                        need,
                        certain,
                        self.model.grants.iter().filter(|g| g.secret == secret).map(|g| format!("{}:L{}:{:?}", g.holder, g.level, g.state)).collect::<Vec<_>>(),
                        self.model.edges.iter().map(|e| format!("{}-{}->{}", e.from, e.etype, e.to)).collect::<Vec<_>>(),
                        self.model.policy,
                        self.case_seed,
                        self.trace.iter().rev().take(6).collect::<Vec<_>>()
                    );
                }
            } else {
                self.r.count("decisions_dont_care", 1);
            }
        }
    }

    fn pick_actor(&mut self) -> String {
        let i = self.rng.below(self.actors.len());
        self.actors[i].clone()
    }
    fn pick_user(&mut self) -> String {
        let i = self.rng.below(self.n_users);
        self.actors[i].clone()
    }
    fn pick_requester(&mut self, root_weight: u32) -> String {
        if self.rng.chance(root_weight, 100) {
            self.model.root.clone()
        } else if self.rng.chance(4, 5) {
            self.pick_user()
        } else {
            self.pick_actor()
        }
    }
    fn pick_secret(&mut self) -> usize {
        // prefer existing secrets
        let ex: Vec<usize> = (0..self.names.len()).filter(|&i| self.model.exists[i]).collect();
        if !ex.is_empty() && self.rng.chance(9, 10) {
            *self.rng.pick(&ex)
        } else {
            self.rng.below(self.names.len())
        }
    }
    /// a (requester, secret) pair; half of the time one for which some grant (live or not) exists, so
    /// that allowed and denied decisions both occur often
    fn pick_pair(&mut self) -> (String, usize) {
        if self.rng.chance(1, 6) {
            if let Some(p) = self.last_ttl_pair.clone() {
                return p;
            }
        }
        if !self.model.grants.is_empty() && self.rng.chance(14, 20) {
            let live: Vec<usize> = (0..self.model.grants.len()).filter(|&x| self.model.grants[x].state == GState::Live).collect();
            let g = if !live.is_empty() && self.rng.chance(4, 5) { self.model.grants[*self.rng.pick(&live)].clone() } else { self.rng.pick(&self.model.grants).clone() };
            // the holder itself, or somebody with a MEMBER route to the holder
            let mut who = g.holder.clone();
            if self.rng.chance(1, 2) {
                let members: Vec<String> = self.model.edges.iter().filter(|e| e.etype == "MEMBER" && e.to == g.holder).map(|e| e.from.clone()).collect();
                if !members.is_empty() {
                    who = self.rng.pick(&members).clone();
                }
            }
            // sometimes through a near-duplicate of the granted name / of the holder's name
            let mut sec = g.secret;
            if self.rng.chance(1, 4) {
                let sib: Vec<usize> = (0..self.names.len()).filter(|&j| j != sec && self.model.family[j] == self.model.family[sec]).collect();
                if !sib.is_empty() {
                    sec = *self.rng.pick(&sib);
                }
            }
            if self.rng.chance(1, 6) {
                if let Some(f) = self.model.ident_family.get(&who).copied() {
                    let sib: Vec<String> = self.actors.iter().filter(|a| **a != who && self.model.ident_family.get(*a) == Some(&f)).cloned().collect();
                    if !sib.is_empty() {
                        who = self.rng.pick(&sib).clone();
                    }
                }
            }
            return (who, sec);
        }
        (self.pick_requester(4), self.pick_secret())
    }

    fn root_node_targets(&self) -> HashSet<u64> {
        let mut s = HashSet::new();
        if let Some(rid) = find_entity_node(&self.graph, Vault::ROOT) {
            if let Ok(es) = self.graph.edges_of(rid, Direction::Outgoing) {
                for e in es {
                    s.insert(e.to);
                }
            }
        }
        s
    }

    fn op_set(&mut self, who: &str, i: usize) {
        let value = self.new_value();
        let name = self.names[i].clone();
        let existed = self.model.exists[i];
        let before = if !existed && who == self.model.root { Some(self.root_node_targets()) } else { None };
        let t0 = Instant::now();
        let res = self.vault.set(who, &name, &value);
        let t1 = Instant::now();
        self.trace.push(format!("set({},#{},len{})={}", who, i, value.len(), okerr(&res)));
        self.r.count("op[set]", 1);
        match &res {
            Ok(()) => {
                if existed {
                    self.judge("set-overwrite", who, i, 2, true, false, t0, t1);
                } else {
                    if who != self.model.root {
                        self.r.count("nonroot_create_succeeded", 1);
                    }
                    self.model.exists[i] = true;
                    if let Some(b) = before {
                        let after = self.root_node_targets();
                        let new: Vec<u64> = after.difference(&b).copied().collect();
                        self.secret_node[i] = if new.len() == 1 { Some(new[0]) } else { None };
                    }
                }
            }
            Err(e) => {
                let acl = matches!(e, VaultError::AccessDenied(_) | VaultError::InsufficientPermission(_));
                if existed {
                    self.judge("set-overwrite", who, i, 2, false, acl, t0, t1);
                }
                let e = e.clone();
                self.check_err("set", &e);
            }
        }
    }

    fn simple_read<T>(&mut self, op: &str, who: &str, i: usize, need: u8, res: Result<T, VaultError>, t0: Instant, t1: Instant) -> Option<T> {
        self.r.count(&format!("op[{}]", op), 1);
        match res {
            Ok(v) => {
                self.judge(op, who, i, need, true, false, t0, t1);
                Some(v)
            }
            Err(e) => {
                let acl = matches!(e, VaultError::AccessDenied(_) | VaultError::InsufficientPermission(_));
                self.judge(op, who, i, need, false, acl, t0, t1);
                self.check_err(op, &e);
                None
            }
        }
    }

    fn step(&mut self) {
        let w = [
            6,  // 0 root set
            5,  // 1 non-root set (overwrite attempt)
            12, // 2 get
            7,  // 3 get_version
            4,  // 4 batch_get
            8,  // 5 list
            3,  // 6 list_versions / current_version
            8,  // 7 rotate
            2,  // 8 rollback
            4,  // 9 delete
            12, // 10 grant family by root
            7,  // 11 grant family by non-root
            5,  // 12 revoke
            6,  // 13 delegate
            8,  // 14 membership edge add
            3,  // 15 edge remove
            4,  // 16 wait past TTL
            6,  // 17 get_permission
            2,  // 18 foreign / MEMBER edge onto a secret node
            2,  // 19 rotate_master_key
            3,  // 20 restart: reopen the vault on the same store + graph
            2,  // 21 rotate_master_key immediately followed by a restart
            3,  // 22 delegation burst: a small delegation DAG, often followed by a (cascading) revocation
            2,  // 23 revoke_delegation
            2,  // 24 revoke_delegation_cascading
        ];
        let k = self.rng.weighted(&w);
        match k {
            0 => {
                let i = if self.rng.chance(1, 2) { self.rng.below(self.names.len()) } else { self.pick_secret() };
                let root = self.model.root.clone();
                self.op_set(&root, i);
            }
            1 => {
                let (who, i) = self.pick_pair();
                self.op_set(&who, i);
            }
            2 => {
                let (who, i) = self.pick_pair();
                let name = self.names[i].clone();
                let t0 = Instant::now();
                let res = self.vault.get(&who, &name);
                let t1 = Instant::now();
                self.trace.push(format!("get({},#{})={}", who, i, okerr(&res)));
                self.simple_read("get", &who, i, 1, res, t0, t1);
            }
            3 => {
                let (who, i) = self.pick_pair();
                let name = self.names[i].clone();
                let ver = 1 + self.rng.below(3) as u32;
                let t0 = Instant::now();
                let res = self.vault.get_version(&who, &name, ver);
                let t1 = Instant::now();
                self.trace.push(format!("get_version({},#{},{})={}", who, i, ver, okerr(&res)));
                self.simple_read("get_version", &who, i, 1, res, t0, t1);
            }
            4 => {
                let who = self.pick_pair().0;
                let n = 1 + self.rng.below(3);
                let idx: Vec<usize> = (0..n).map(|_| self.pick_secret()).collect();
                let names: Vec<String> = idx.iter().map(|&i| self.names[i].clone()).collect();
                let refs: Vec<&str> = names.iter().map(|s| s.as_str()).collect();
                let t0 = Instant::now();
                let res = self.vault.batch_get(&who, &refs);
                let t1 = Instant::now();
                self.trace.push(format!("batch_get({},{:?})={}", who, idx, okerr(&res)));
                self.r.count("op[batch_get]", 1);
                match res {
                    Ok(items) => {
                        for (pos, (_k, item)) in items.into_iter().enumerate() {
                            let Some(&i) = idx.get(pos) else { continue };
                            match item {
                                Ok(_) => self.judge("batch_get", &who, i, 1, true, false, t0, t1),
                                Err(e) => {
                                    let acl = matches!(e, VaultError::AccessDenied(_) | VaultError::InsufficientPermission(_));
                                    self.judge("batch_get", &who, i, 1, false, acl, t0, t1);
                                    self.check_err("batch_get", &e);
                                }
                            }
                        }
                    }
                    Err(e) => self.check_err("batch_get", &e),
                }
            }
            5 => {
                let (who, i) = self.pick_pair();
                let name = self.names[i].clone();
                let pattern = match self.rng.below(5) {
                    0 => "*".to_string(),
                    1 => String::new(),
                    2 => name.clone(),
                    3 => match name.find('/') {
                        Some(p) => format!("{}*", &name[..=p]),
                        None => "*".to_string(),
                    },
                    _ => {
                        // a prefix of the name cut at a char boundary
                        let mut cut = self.rng.below(name.len() + 1);
                        while !name.is_char_boundary(cut) {
                            cut -= 1;
                        }
                        format!("{}*", &name[..cut])
                    }
                };
                let t0 = Instant::now();
                let res = self.vault.list(&who, &pattern);
                let t1 = Instant::now();
                self.trace.push(format!("list({},{:?})={}", who, short(&pattern), match &res { Ok(v) => format!("ok[{}]", v.len()), Err(e) => err_variant(e).to_string() }));
                self.r.count("op[list]", 1);
                match res {
                    Ok(listed) => {
                        self.r.count("list_names_returned", listed.len() as u64);
                        for j in 0..self.names.len() {
                            if !self.model.exists[j] {
                                continue;
                            }
                            let nm = self.names[j].clone();
                            if listed.iter().any(|x| *x == nm) {
                                self.judge("list", &who, j, 1, true, false, t0, t1);
                            } else if j == i && pattern_matches(&nm, &pattern) {
                                self.judge("list", &who, j, 1, false, true, t0, t1);
                            }
                        }
                        for x in &listed {
                            if !self.names.iter().any(|n| n == x) {
                                self.r.count("list_returned_unknown_name", 1);
                            }
                        }
                    }
                    Err(e) => self.check_err("list", &e),
                }
            }
            6 => {
                let (who, i) = self.pick_pair();
                let name = self.names[i].clone();
                if self.rng.bool() {
                    let t0 = Instant::now();
                    let res = self.vault.list_versions(&who, &name);
                    let t1 = Instant::now();
                    self.trace.push(format!("list_versions({},#{})={}", who, i, okerr(&res)));
                    self.simple_read("list_versions", &who, i, 1, res, t0, t1);
                } else {
                    let t0 = Instant::now();
                    let res = self.vault.current_version(&who, &name);
                    let t1 = Instant::now();
                    self.trace.push(format!("current_version({},#{})={}", who, i, okerr(&res)));
                    self.simple_read("current_version", &who, i, 1, res, t0, t1);
                }
            }
            7 => {
                let (who, i) = self.pick_pair();
                let name = self.names[i].clone();
                let value = self.new_value();
                let t0 = Instant::now();
                let res = self.vault.rotate(&who, &name, &value);
                let t1 = Instant::now();
                self.trace.push(format!("rotate({},#{},len{})={}", who, i, value.len(), okerr(&res)));
                self.simple_read("rotate", &who, i, 2, res, t0, t1);
            }
            8 => {
                let (who, i) = self.pick_pair();
                let name = self.names[i].clone();
                let ver = 1 + self.rng.below(2) as u32;
                let t0 = Instant::now();
                let res = self.vault.rollback(&who, &name, ver);
                let t1 = Instant::now();
                self.trace.push(format!("rollback({},#{},{})={}", who, i, ver, okerr(&res)));
                self.simple_read("rollback", &who, i, 2, res, t0, t1);
            }
            9 => {
                let (who, i) = if self.rng.chance(1, 3) { (self.model.root.clone(), self.pick_secret()) } else { self.pick_pair() };
                let name = self.names[i].clone();
                let t0 = Instant::now();
                let res = self.vault.delete(&who, &name);
                let t1 = Instant::now();
                self.trace.push(format!("delete({},#{})={}", who, i, okerr(&res)));
                if self.simple_read("delete", &who, i, 3, res, t0, t1).is_some() {
                    self.model.exists[i] = false;
                    self.secret_node[i] = None;
                    for g in self.model.grants.iter_mut() {
                        if g.secret == i && g.state == GState::Live {
                            g.state = GState::Deleted;
                        }
                    }
                    let tag = format!("#{}", i);
                    self.model.edges.retain(|e| e.to != tag);
                }
            }
            10 | 11 => {
                let (who, i) = if k == 10 { (self.model.root.clone(), self.pick_secret()) } else { self.pick_pair() };
                let name = self.names[i].clone();
                let to = if self.rng.chance(2, 3) { self.pick_user() } else { self.pick_actor() };
                let lvl = 1 + self.rng.below(3) as u8;
                let form = self.rng.weighted(&[2, 5, 5]);
                let t0 = Instant::now();
                let (res, ttl, lvl) = match form {
                    0 => (self.vault.grant(&who, &to, &name), None, 3u8),
                    1 => (self.vault.grant_with_permission(&who, &to, &name, perm_of(lvl)), None, lvl),
                    _ => {
                        let ttl = if self.rng.chance(3, 4) { Duration::from_millis(35 + self.rng.below(50) as u64) } else { Duration::from_secs(3_600) };
                        (self.vault.grant_with_ttl(&who, &to, &name, perm_of(lvl), ttl), Some(ttl), lvl)
                    }
                };
                let t1 = Instant::now();
                let opname = ["grant", "grant_with_permission", "grant_with_ttl"][form];
                self.trace.push(format!("{}({}->{},#{},L{}{})={}", opname, who, to, i, lvl, ttl.map(|t| format!(",ttl{}ms", t.as_millis())).unwrap_or_default(), okerr(&res)));
                if self.simple_read(opname, &who, i, 3, res, t0, t1).is_some() {
                    let exp = ttl.map(|t| (t0 + t, t1 + t));
                    if let Some(t) = ttl {
                        if t < Duration::from_secs(10) {
                            self.short_ttl_pending.push(t1 + t);
                            self.last_ttl_pair = Some((to.clone(), i));
                            self.r.count("short_ttl_grants", 1);
                        }
                    }
                    self.model.grants.push(Grant { holder: to, secret: i, level: lvl, exp, state: GState::Live });
                    self.r.count("grants_made", 1);
                }
            }
            12 => {
                let (who, i) = if self.rng.chance(1, 2) { (self.model.root.clone(), self.pick_secret()) } else { self.pick_pair() };
                let name = self.names[i].clone();
                let from = if !self.model.grants.is_empty() && self.rng.chance(3, 4) {
                    let g = self.rng.pick(&self.model.grants).clone();
                    if g.secret == i {
                        g.holder
                    } else {
                        self.pick_actor()
                    }
                } else {
                    self.pick_actor()
                };
                let res = self.vault.revoke(&who, &from, &name);
                self.trace.push(format!("revoke({} from {},#{})={}", who, from, i, okerr(&res)));
                self.r.count("op[revoke]", 1);
                match res {
                    Ok(()) => {
                        let mut n = 0;
                        for g in self.model.grants.iter_mut() {
                            if g.secret == i && g.holder == from && g.state == GState::Live {
                                g.state = GState::Revoked;
                                n += 1;
                            }
                        }
                        self.r.count("grants_revoked", n);
                    }
                    Err(e) => self.check_err("revoke", &e),
                }
            }
            13 => {
                let (parent, i) = if self.rng.chance(1, 4) { (self.model.root.clone(), self.pick_secret()) } else { self.pick_pair() };
                let child = self.pick_user();
                let mut idx = vec![i];
                if self.rng.chance(1, 3) {
                    let j = self.pick_secret();
                    if j != i {
                        idx.push(j);
                    }
                }
                let lvl = 1 + self.rng.below(3) as u8;
                let ttl = match self.rng.below(4) {
                    0 => Some(Duration::from_millis(35 + self.rng.below(50) as u64)),
                    1 => Some(Duration::from_secs(3_600)),
                    _ => None,
                };
                self.do_delegate(&parent, &child, idx, lvl, ttl);
            }
            22 => self.op_delegation_burst(),
            23 => self.op_revoke_delegation(false, None),
            24 => self.op_revoke_delegation(true, None),
            14 => {
                // a directed edge between entities; mostly MEMBER (member -> group), sometimes a foreign type
                let from = self.pick_actor();
                let to = if self.rng.chance(3, 4) {
                    let g = self.n_users + self.rng.below(self.actors.len() - self.n_users);
                    self.actors[g].clone()
                } else {
                    self.pick_actor()
                };
                if from == to {
                    return;
                }
                let etype = if self.rng.chance(5, 6) { "MEMBER" } else { *self.rng.pick(&["KNOWS", "OWNS", "REPORTS_TO"]) };
                let (Some(a), Some(b)) = (entity_node(&self.graph, &from), entity_node(&self.graph, &to)) else {
                    self.r.inconclusive("graph node creation failed");
                    return;
                };
                match self.graph.create_edge(a, b, etype, HashMap::new(), true) {
                    Ok(id) => {
                        self.trace.push(format!("edge+({}-{}->{})", from, etype, to));
                        self.model.edges.push(MEdge { id, from, to, etype: etype.to_string() });
                        self.r.count(if etype == "MEMBER" { "member_edges_added" } else { "foreign_edges_added" }, 1);
                    }
                    Err(_) => self.r.inconclusive("graph edge creation failed"),
                }
            }
            15 => {
                if self.model.edges.is_empty() {
                    return;
                }
                let p = self.rng.below(self.model.edges.len());
                let e = self.model.edges[p].clone();
                if self.graph.delete_edge(e.id).is_ok() {
                    self.model.edges.remove(p);
                    self.trace.push(format!("edge-({}-{}->{})", e.from, e.etype, e.to));
                    self.r.count("edges_removed", 1);
                }
            }
            16 => self.op_wait(),
            19 => self.op_rotate_master_key(),
            20 => self.op_restart(),
            21 => {
                self.op_rotate_master_key();
                if !self.dead {
                    self.op_restart();
                }
            }
            17 => {
                let (who, i) = self.pick_pair();
                let name = self.names[i].clone();
                let t0 = Instant::now();
                let res = self.vault.get_permission(&who, &name);
                let t1 = Instant::now();
                self.trace.push(format!("get_permission({},#{})={:?}", who, i, res));
                self.r.count("op[get_permission]", 1);
                match res {
                    Some(p) => self.judge("get_permission", &who, i, level_of(p), true, false, t0, t1),
                    None => self.judge("get_permission", &who, i, 1, false, true, t0, t1),
                }
            }
            _ => {
                // an edge that is not a grant, pointing at a secret's node: confers nothing
                let ex: Vec<usize> = (0..self.names.len()).filter(|&i| self.secret_node[i].is_some() && self.model.exists[i]).collect();
                if ex.is_empty() {
                    return;
                }
                let i = *self.rng.pick(&ex);
                let from = self.pick_actor();
                let etype = if self.rng.chance(2, 3) { "MEMBER" } else { "OWNS" };
                let (Some(a), Some(b)) = (entity_node(&self.graph, &from), self.secret_node[i]) else { return };
                if let Ok(id) = self.graph.create_edge(a, b, etype, HashMap::new(), true) {
                    self.trace.push(format!("edge+({}-{}->secret#{})", from, etype, i));
                    self.model.edges.push(MEdge { id, from: from.clone(), to: format!("#{}", i), etype: etype.to_string() });
                    self.r.count("non_grant_edges_to_secret", 1);
                    self.probe(&from, i);
                }
            }
        }
    }

    /// delegate: the parent must hold at least the delegated level on every secret; the child
    /// receives that level (optionally with a TTL). Returns whether the real call succeeded.
    fn do_delegate(&mut self, parent: &str, child: &str, idx: Vec<usize>, lvl: u8, ttl: Option<Duration>) -> bool {
        let names: Vec<String> = idx.iter().map(|&j| self.names[j].clone()).collect();
        let refs: Vec<&str> = names.iter().map(|s| s.as_str()).collect();
        let t0 = Instant::now();
        let res = self.vault.delegate(parent, child, &refs, perm_of(lvl), ttl);
        let t1 = Instant::now();
        self.trace.push(format!("delegate({}->{},{:?},L{}{})={}", parent, child, idx, lvl, ttl.map(|t| format!(",ttl{}ms", t.as_millis())).unwrap_or_default(), okerr(&res)));
        self.r.count("op[delegate]", 1);
        match res {
            Ok(_rec) => {
                for &j in &idx {
                    self.judge("delegate", parent, j, lvl, true, false, t0, t1);
                }
                let exp = ttl.map(|t| (t0 + t, t1 + t));
                let mut made = Vec::new();
                for &j in &idx {
                    made.push(self.model.grants.len());
                    self.model.grants.push(Grant { holder: child.to_string(), secret: j, level: lvl, exp, state: GState::Live });
                }
                // the record of this (parent, child) pair now describes this call; what an earlier call
                // of the same pair handed out is no longer tied to any record (the model keeps it live)
                let before = self.deleg.len();
                self.deleg.retain(|d| !(d.parent == parent && d.child == child));
                if self.deleg.len() < before {
                    self.r.count("delegation_records_replaced", 1);
                }
                if self.deleg.iter().any(|d| d.child == child) {
                    self.r.count("delegation_children_with_several_parents", 1);
                }
                self.deleg.push(DRec { parent: parent.to_string(), child: child.to_string(), secrets: idx.clone(), grants: made });
                if let Some(t) = ttl {
                    if t < Duration::from_secs(10) {
                        self.short_ttl_pending.push(t1 + t);
                        self.last_ttl_pair = Some((child.to_string(), idx[0]));
                        self.r.count("short_ttl_grants", 1);
                    }
                }
                self.r.count("delegations_made", 1);
                true
            }
            Err(e) => {
                let acl = matches!(e, VaultError::AccessDenied(_) | VaultError::InsufficientPermission(_));
                // a refusal concerns the whole request: only a single-secret request is attributable
                if idx.len() == 1 {
                    self.judge("delegate", parent, idx[0], lvl, false, acl, t0, t1);
                }
                self.check_err("delegate", &e);
                false
            }
        }
    }

    /// grow a small delegation DAG (holders hand subsets of what they hold to further agents, the
    /// same agent may receive from several parents), then usually revoke one of its records
    /// (mostly cascading) and look at what everybody can still do
    fn op_delegation_burst(&mut self) {
        let ex: Vec<usize> = (0..self.names.len()).filter(|&i| self.model.exists[i]).collect();
        if ex.is_empty() {
            return;
        }
        let mut pool: Vec<usize> = Vec::new();
        for _ in 0..(1 + self.rng.below(3)) {
            let i = *self.rng.pick(&ex);
            if !pool.contains(&i) {
                pool.push(i);
            }
        }
        let origin = if self.rng.chance(2, 3) { self.model.root.clone() } else { self.pick_pair().0 };
        // (agent, secrets it was handed in this burst)
        let mut holders: Vec<(String, Vec<usize>)> = vec![(origin, pool.clone())];
        let mut made: Vec<(String, String)> = Vec::new();
        let lvl = if self.rng.chance(3, 4) { 1 } else { 2 };
        self.r.count("delegation_bursts", 1);
        for _ in 0..(3 + self.rng.below(6)) {
            // later holders are preferred so that chains get deep enough to branch and re-join
            let hi = holders.len();
            let pick = if self.rng.bool() { hi - 1 - self.rng.below(hi.min(3)) } else { self.rng.below(hi) };
            let (parent, held) = holders[pick].clone();
            let child = self.pick_user();
            if child == parent {
                continue;
            }
            let mut sub: Vec<usize> = held.iter().copied().filter(|_| self.rng.bool()).collect();
            if sub.is_empty() {
                sub.push(*self.rng.pick(&held));
            }
            if self.do_delegate(&parent, &child, sub.clone(), lvl, None) {
                made.push((parent.clone(), child.clone()));
                holders.push((child, sub));
            }
        }
        if made.is_empty() || self.rng.chance(1, 4) {
            return;
        }
        let target = if self.rng.chance(2, 3) { made[self.rng.below(made.len().min(2))].clone() } else { self.rng.pick(&made).clone() };
        let cascading = self.rng.chance(3, 4);
        self.op_revoke_delegation(cascading, Some(target));
        // everybody, on every secret of the burst
        for who in self.actors[..self.n_users].to_vec() {
            for &i in &pool {
                self.probe_read(&who, i);
            }
        }
    }

    /// revoke_delegation / revoke_delegation_cascading, modelled by their documented contract: the
    /// record (parent, child) is revoked — and, cascading, every record of every agent reachable
    /// from the child through delegation records — and what each revoked record handed out is gone
    fn op_revoke_delegation(&mut self, cascading: bool, pair: Option<(String, String)>) {
        let (parent, child) = match pair {
            Some(p) => p,
            None => {
                if !self.deleg.is_empty() && self.rng.chance(5, 6) {
                    let d = self.rng.pick(&self.deleg);
                    (d.parent.clone(), d.child.clone())
                } else {
                    (self.pick_requester(20), self.pick_user())
                }
            }
        };
        let opname = if cascading { "revoke_delegation_cascading" } else { "revoke_delegation" };
        self.r.count(&format!("op[{}]", opname), 1);
        let had_record = self.deleg.iter().any(|d| d.parent == parent && d.child == child);
        // the records the vault itself reports as revoked (cascading form only)
        let mut reported: Vec<(String, String)> = Vec::new();
        let ok = if cascading {
            let res = self.vault.revoke_delegation_cascading(&parent, &child);
            self.trace.push(format!("{}({}->{})={}", opname, parent, child, match &res { Ok(v) => format!("ok[{}]", v.len()), Err(e) => err_variant(e).to_string() }));
            match res {
                Ok(v) => {
                    reported = v.iter().map(|r| (r.parent.clone(), r.child.clone())).collect();
                    true
                }
                Err(e) => {
                    self.check_err(opname, &e);
                    false
                }
            }
        } else {
            let res = self.vault.revoke_delegation(&parent, &child);
            self.trace.push(format!("{}({}->{})={}", opname, parent, child, okerr(&res)));
            match res {
                Ok(_) => true,
                Err(e) => {
                    self.check_err(opname, &e);
                    false
                }
            }
        };
        if !ok {
            return;
        }
        if !had_record {
            // nothing the contract obliges (a cascade from a pair without a record is not
            // described): what the vault says it revoked anyway is no longer a record of the
            // model either - otherwise a later cascade would walk through records that do not
            // exist any more - but the grants those records handed out stay live in the model
            // (the model may only ever allow more than the vault, never less)
            let before = self.deleg.len();
            self.deleg.retain(|d| !reported.iter().any(|(p, c)| *p == d.parent && *c == d.child));
            self.r.count("records_dropped_after_undescribed_cascade", (before - self.deleg.len()) as u64);
            return;
        }
        let now = Instant::now();
        // a record whose grants carry a TTL that has (or may have) run out may already have been
        // swept by the vault; the cascade is then not obliged to pass through it
        let maybe_swept = |d: &DRec, grants: &Vec<Grant>| d.grants.iter().any(|&gi| grants[gi].exp.map_or(false, |(lo, _)| lo < now + MARGIN));
        let mut gone: Vec<usize> = Vec::new(); // indexes into self.deleg
        for (k, d) in self.deleg.iter().enumerate() {
            if d.parent == parent && d.child == child {
                gone.push(k);
            }
        }
        if cascading {
            let mut reach: Vec<String> = vec![child.clone()];
            let mut q: VecDeque<String> = VecDeque::from(vec![child.clone()]);
            while let Some(cur) = q.pop_front() {
                for (k, d) in self.deleg.iter().enumerate() {
                    if d.parent == cur && !gone.contains(&k) {
                        if maybe_swept(d, &self.model.grants) {
                            self.r.count("cascade_stops_at_possibly_expired_record", 1);
                            continue;
                        }
                        gone.push(k);
                        if !reach.contains(&d.child) {
                            reach.push(d.child.clone());
                            q.push_back(d.child.clone());
                        }
                    }
                }
            }
            self.r.count("cascade_records_revoked", gone.len() as u64);
            // a re-joining DAG: some agent below the revoked edge had more than one revoked parent
            let mut kids: Vec<&str> = gone.iter().map(|&k| self.deleg[k].child.as_str()).collect();
            kids.sort();
            let n = kids.len();
            kids.dedup();
            if kids.len() < n {
                self.r.count("cascades_over_rejoining_dag", 1);
            }
        }
        let mut n = 0;
        for &k in &gone {
            for &gi in &self.deleg[k].grants {
                if self.model.grants[gi].state == GState::Live {
                    self.model.grants[gi].state = GState::RevokedDelegation;
                    n += 1;
                }
            }
        }
        self.r.count("grants_revoked_with_delegation", n);
        self.r.count("delegations_revoked", gone.len() as u64);
        // affected agents are looked at right away
        let affected: Vec<(String, Vec<usize>)> = gone.iter().map(|&k| (self.deleg[k].child.clone(), self.deleg[k].secrets.clone())).collect();
        gone.sort();
        for &k in gone.iter().rev() {
            self.deleg.remove(k);
        }
        // records the vault reports beyond those (reached through a record the model did not walk
        // through) are gone as records; their grants stay live in the model
        self.deleg.retain(|d| !reported.iter().any(|(p, c)| *p == d.parent && *c == d.child));
        // grant indexes stay valid (grants are never removed from the model), record indexes were
        // only used above
        for (who, secs) in affected {
            for i in secs {
                self.probe_read(&who, i);
            }
        }
    }

    /// one judged read-only look by `who` at secret `i`
    fn probe_read(&mut self, who: &str, i: usize) {
        let name = self.names[i].clone();
        let who = who.to_string();
        self.r.count("probes", 1);
        match self.rng.below(4) {
            0 => {
                let t0 = Instant::now();
                let res = self.vault.get(&who, &name);
                let t1 = Instant::now();
                self.trace.push(format!("get({},#{})={}", who, i, okerr(&res)));
                self.simple_read("get", &who, i, 1, res, t0, t1);
            }
            1 => {
                let t0 = Instant::now();
                let res = self.vault.get_permission(&who, &name);
                let t1 = Instant::now();
                self.trace.push(format!("get_permission({},#{})={:?}", who, i, res));
                self.r.count("op[get_permission]", 1);
                match res {
                    Some(p) => self.judge("get_permission", &who, i, level_of(p), true, false, t0, t1),
                    None => self.judge("get_permission", &who, i, 1, false, true, t0, t1),
                }
            }
            2 => {
                let t0 = Instant::now();
                let res = self.vault.get_version(&who, &name, 1);
                let t1 = Instant::now();
                self.trace.push(format!("get_version({},#{},1)={}", who, i, okerr(&res)));
                self.simple_read("get_version", &who, i, 1, res, t0, t1);
            }
            _ => {
                let t0 = Instant::now();
                let res = self.vault.list(&who, &name);
                let t1 = Instant::now();
                self.trace.push(format!("list({},exact#{})={}", who, i, okerr(&res)));
                self.r.count("op[list]", 1);
                if let Ok(v) = res {
                    if self.model.exists[i] {
                        let got = v.iter().any(|x| *x == name);
                        self.judge("list", &who, i, 1, got, true, t0, t1);
                    }
                }
            }
        }
    }

    /// wait until every short TTL granted so far is certainly over, then probe its holder
    fn op_wait(&mut self) {
        if let Some(&latest) = self.short_ttl_pending.iter().max() {
            let until = latest + MARGIN + Duration::from_millis(5);
            let now = Instant::now();
            if until > now {
                std::thread::sleep(until - now);
            }
            self.short_ttl_pending.clear();
            self.trace.push("wait-past-ttl".into());
            self.r.count("ttl_waits", 1);
            // probe the pair that held the TTL grant with an operation that matters
            if let Some((who, i)) = self.last_ttl_pair.clone() {
                for _ in 0..(1 + self.rng.below(2)) {
                    self.probe(&who, i);
                }
            }
        }
    }

    /// the operator re-keys the vault; grants, expiries and contents must be unaffected
    fn op_rotate_master_key(&mut self) {
        let n = 12 + self.rng.below(20);
        let pw = self.rng.bytes(n);
        let res = self.vault.rotate_master_key(&pw);
        self.trace.push(format!("rotate_master_key={}", okerr(&res)));
        self.r.count("op[rotate_master_key]", 1);
        match res {
            Ok(_) => {
                self.password = pw;
                self.r.count("master_key_rotations", 1);
            }
            Err(e) => {
                // a half re-keyed vault cannot be followed by the model
                self.check_err("rotate_master_key", &e);
                self.r.inconclusive(&format!("rotate_master_key failed: {}", err_variant(&e)));
                self.dead = true;
            }
        }
    }

    /// process restart: only the store and the graph survive; the access model is carried across
    fn op_restart(&mut self) {
        let pending = self.model.grants.iter().filter(|g| g.state == GState::Live && g.exp.is_some()).count();
        match Vault::new(&self.password, self.graph.clone(), self.store.clone(), self.cfg.clone()) {
            Ok(v) => {
                self.vault = v;
                self.trace.push("restart".into());
                self.r.count("restarts", 1);
                if pending > 0 {
                    self.r.count("restarts_with_pending_ttl_grant", 1);
                }
                for g in self.model.grants.iter_mut() {
                    if let Some((lo, hi)) = g.exp {
                        g.exp = Some((lo.checked_sub(REOPEN_SLACK).unwrap_or(lo), hi + REOPEN_SLACK));
                    }
                }
                for t in self.short_ttl_pending.iter_mut() {
                    *t += REOPEN_SLACK;
                }
                if !self.short_ttl_pending.is_empty() && self.rng.chance(1, 2) {
                    self.op_wait();
                }
            }
            Err(e) => {
                self.trace.push(format!("restart={}", err_variant(&e)));
                self.r.inconclusive(&format!("reopening the vault failed: {}", err_variant(&e)));
                self.dead = true;
            }
        }
    }

    /// one randomly chosen judged operation by `who` on secret `i`
    fn probe(&mut self, who: &str, i: usize) {
        let name = self.names[i].clone();
        let who = who.to_string();
        self.r.count("probes", 1);
        match self.rng.below(8) {
            0 => {
                let t0 = Instant::now();
                let res = self.vault.get_version(&who, &name, 1);
                let t1 = Instant::now();
                self.trace.push(format!("get_version({},#{},1)={}", who, i, okerr(&res)));
                self.simple_read("get_version", &who, i, 1, res, t0, t1);
            }
            1 => {
                let v = self.new_value();
                let t0 = Instant::now();
                let res = self.vault.rotate(&who, &name, &v);
                let t1 = Instant::now();
                self.trace.push(format!("rotate({},#{})={}", who, i, okerr(&res)));
                self.simple_read("rotate", &who, i, 2, res, t0, t1);
            }
            2 => {
                let t0 = Instant::now();
                let res = self.vault.get(&who, &name);
                let t1 = Instant::now();
                self.trace.push(format!("get({},#{})={}", who, i, okerr(&res)));
                self.simple_read("get", &who, i, 1, res, t0, t1);
            }
            3 => self.op_set(&who, i),
            4 => {
                let t0 = Instant::now();
                let res = self.vault.get_permission(&who, &name);
                let t1 = Instant::now();
                self.trace.push(format!("get_permission({},#{})={:?}", who, i, res));
                self.r.count("op[get_permission]", 1);
                match res {
                    Some(p) => self.judge("get_permission", &who, i, level_of(p), true, false, t0, t1),
                    None => self.judge("get_permission", &who, i, 1, false, true, t0, t1),
                }
            }
            5 => {
                let to = self.pick_user();
                let t0 = Instant::now();
                let res = self.vault.grant_with_permission(&who, &to, &name, Permission::Read);
                let t1 = Instant::now();
                self.trace.push(format!("grant_with_permission({}->{},#{},L1)={}", who, to, i, okerr(&res)));
                if self.simple_read("grant_with_permission", &who, i, 3, res, t0, t1).is_some() {
                    self.model.grants.push(Grant { holder: to, secret: i, level: 1, exp: None, state: GState::Live });
                }
            }
            6 => {
                let t0 = Instant::now();
                let res = self.vault.current_version(&who, &name);
                let t1 = Instant::now();
                self.trace.push(format!("current_version({},#{})={}", who, i, okerr(&res)));
                self.simple_read("current_version", &who, i, 1, res, t0, t1);
            }
            _ => {
                let t0 = Instant::now();
                let res = self.vault.list(&who, &name);
                let t1 = Instant::now();
                self.trace.push(format!("list({},exact#{})={}", who, i, okerr(&res)));
                self.r.count("op[list]", 1);
                if let Ok(v) = res {
                    if self.model.exists[i] {
                        let got = v.iter().any(|x| *x == name);
                        self.judge("list", &who, i, 1, got, true, t0, t1);
                    }
                }
            }
        }
    }

    // -------------------------------------------------------------------------------------------
    // at-rest / audit scans
    // -------------------------------------------------------------------------------------------

    fn report_hit(&mut self, mi: usize, ni: usize, site: &str, what: &str) {
        let m = self.markers[mi].clone();
        let kind = if m.is_name { "secret-name" } else { "secret-value" };
        let enc = m.needles[ni].0;
        let sig = if enc == "raw" { format!("at-rest:{}-readable:{}", kind, site) } else { format!("at-rest:{}-readable-{}:{}", kind, enc, site) };
        self.r.count(&format!("at_rest_hits[{}:{}]", kind, site), 1);
        let d = format!("{} ({}) occurs {} in {}", m.label, String::from_utf8_lossy(&m.needles[0].1), if enc == "raw" { "verbatim".to_string() } else { format!("{}-encoded", enc) }, what);
        self.violate(sig, d);
    }

    fn scan_at_rest(&mut self, with_file: bool) {
        // whatever the vault keeps in memory and writes out on its own flush entry points belongs to
        // the data at rest: flush before looking
        self.vault.persist_anomaly_profiles();
        self.r.count("flushes_before_scan", 1);
        if with_file && self.rng.chance(1, 2) {
            let root = self.model.root.clone();
            match self.vault.create_snapshot(&root, "checkpoint") {
                Ok(_) => self.r.count("vault_snapshots_created", 1),
                Err(e) => self.check_err("create_snapshot", &e),
            }
        }
        let s = Searcher::new(&self.markers);
        self.r.count("at_rest_scans", 1);
        self.r.count("markers_searched", self.markers.len() as u64);
        let mut located: HashSet<usize> = HashSet::new();
        // (1) every raw key, field name and field value
        let keys = self.store.scan("");
        self.r.count("store_keys_inspected", keys.len() as u64);
        for k in keys {
            let class = key_class(&k);
            for (mi, ni) in s.find(&self.markers, k.as_bytes()) {
                located.insert(mi);
                self.report_hit(mi, ni, &format!("{}<key>", class), &format!("the store key {:?}", short(&k)));
            }
            let Ok(data) = self.store.get(&k) else { continue };
            for (fname, val) in data.fields_iter() {
                let mut bufs: Vec<Vec<u8>> = vec![fname.as_bytes().to_vec()];
                match val {
                    TensorValue::Scalar(ScalarValue::String(x)) => bufs.push(x.as_bytes().to_vec()),
                    TensorValue::Scalar(ScalarValue::Bytes(b)) => bufs.push(b.clone()),
                    TensorValue::Pointer(p) => bufs.push(p.as_bytes().to_vec()),
                    TensorValue::Pointers(ps) => {
                        for p in ps {
                            bufs.push(p.as_bytes().to_vec());
                        }
                    }
                    _ => {}
                }
                for b in bufs {
                    self.r.count("at_rest_bytes_scanned", b.len() as u64);
                    for (mi, ni) in s.find(&self.markers, &b) {
                        located.insert(mi);
                        self.report_hit(mi, ni, &format!("{}{}", class, fname), &format!("field {:?} of store key {:?}", fname, short(&k)));
                    }
                }
            }
        }
        // (2) the byte image
        match self.store.snapshot_bytes() {
            Ok(img) => {
                self.r.count("snapshot_images_scanned", 1);
                self.r.count("at_rest_bytes_scanned", img.len() as u64);
                for (mi, ni) in s.find(&self.markers, &img) {
                    let kind = if self.markers[mi].is_name { "secret-name" } else { "secret-value" };
                    self.r.count(&format!("snapshot_bytes_hits[{}]", kind), 1);
                    if !located.contains(&mi) {
                        self.report_hit(mi, ni, "snapshot_bytes-only", "store.snapshot_bytes() (not found through scan+get)");
                    }
                }
            }
            Err(_) => self.r.inconclusive("snapshot_bytes failed"),
        }
        // (3) a saved snapshot file
        if with_file {
            // (the scratch directory may have been swept by somebody else's clean-up on a shared machine)
            let _ = std::fs::create_dir_all(self.scratch);
            let p = self.scratch.join(format!("snap-{:x}.bin", self.case_seed));
            match self.store.save_snapshot(&p) {
                Ok(()) => match std::fs::read(&p) {
                    Ok(img) => {
                        self.r.count("snapshot_files_scanned", 1);
                        self.r.count("at_rest_bytes_scanned", img.len() as u64);
                        for (mi, ni) in s.find(&self.markers, &img) {
                            let kind = if self.markers[mi].is_name { "secret-name" } else { "secret-value" };
                            self.r.count(&format!("snapshot_file_hits[{}]", kind), 1);
                            if !located.contains(&mi) {
                                self.report_hit(mi, ni, "snapshot-file-only", "the file written by save_snapshot (not found through scan+get)");
                            }
                        }
                    }
                    Err(_) => self.r.inconclusive("snapshot file unreadable"),
                },
                Err(_) => self.r.inconclusive("save_snapshot failed"),
            }
            let _ = std::fs::remove_file(&p);
        }
    }

    fn scan_audit(&mut self) {
        let s = Searcher::new(&self.markers);
        let mut entries = Vec::new();
        if let Ok(v) = self.vault.audit_recent(1_000_000) {
            entries.extend(v);
        }
        if let Ok(v) = self.vault.audit_since(0) {
            entries.extend(v);
        }
        let mut who: Vec<String> = self.actors.clone();
        who.push(self.model.root.clone());
        for w in who {
            if let Ok(v) = self.vault.audit_by_entity(&w) {
                entries.extend(v);
            }
        }
        for n in self.names.clone() {
            if let Ok(v) = self.vault.audit_log(&n) {
                entries.extend(v);
            }
        }
        self.r.count("audit_records_checked", entries.len() as u64);
        for e in entries {
            let text = format!("{:?} || {}", e, serde_json::to_string(&e).unwrap_or_default());
            for (mi, ni) in s.find(&self.markers, text.as_bytes()) {
                if self.markers[mi].is_name {
                    continue; // the statement forbids values, not names, in audit records
                }
                let opname = format!("{:?}", e.operation);
                let opname = opname.split(|c: char| !c.is_alphanumeric()).next().unwrap_or("").to_string();
                let sig = format!("audit:secret-value-in-record:{}", opname);
                let d = format!("{} ({}) occurs in audit record {:.300}", self.markers[mi].label, self.markers[mi].needles[ni].0, text);
                self.violate(sig, d);
            }
        }
    }
}

fn signed_ms(t: Instant, now: Instant) -> String {
    if t >= now {
        format!("+{}", (t - now).as_millis())
    } else {
        format!("-{}", (now - t).as_millis())
    }
}

fn okerr<T>(r: &Result<T, VaultError>) -> String {
    match r {
        Ok(_) => "ok".into(),
        Err(e) => err_variant(e).into(),
    }
}

fn short(s: &str) -> String {
    let mut out: String = s.chars().take(40).collect();
    if out.len() < s.len() {
        out.push('…');
    }
    out
}

/// the vault's documented pattern rule for `list`: empty or "*" = everything, "p*" = prefix, else exact
fn pattern_matches(name: &str, pattern: &str) -> bool {
    if pattern.is_empty() || pattern == "*" {
        return true;
    }
    match pattern.strip_suffix('*') {
        Some(p) => name.starts_with(p),
        None => name == pattern,
    }
}

/// stable class of a store key for signatures: its prefix up to and including the first ':' (keys
/// without ':' are kept whole, digits replaced)
fn key_class(k: &str) -> String {
    match k.find(':') {
        Some(p) => k[..=p].to_string(),
        None => {
            let t: String = k.chars().take(40).map(|c| if c.is_ascii_digit() { '#' } else { c }).collect();
            format!("{}/", t)
        }
    }
}

/// a string that a careless normalisation would identify with `base`: white space around it, other
/// ASCII case, NFC vs NFD spelling of an accented letter, or one a prefix of the other
fn near_duplicate(rng: &mut Rng, base: &str) -> String {
    const WS: &[&str] = &[" ", "\t", "\n", "\u{a0}", "\u{3000}", "\r\n", "  ", "\u{2003}"];
    for _ in 0..6 {
        let v = match rng.below(6) {
            0 => format!("{}{}", base, *rng.pick(WS)),
            1 => format!("{}{}", *rng.pick(WS), base),
            2 => {
                let mode = rng.below(3);
                base.chars()
                    .map(|c| match mode {
                        0 => c.to_ascii_uppercase(),
                        1 => c.to_ascii_lowercase(),
                        _ => {
                            if c.is_ascii_uppercase() {
                                c.to_ascii_lowercase()
                            } else {
                                c.to_ascii_uppercase()
                            }
                        }
                    })
                    .collect()
            }
            3 => {
                // precomposed vs decomposed spelling
                if base.contains('é') {
                    base.replacen('é', "e\u{301}", 1)
                } else if base.contains('à') {
                    base.replacen('à', "a\u{300}", 1)
                } else if base.contains('ü') {
                    base.replacen('ü', "u\u{308}", 1)
                } else {
                    continue;
                }
            }
            4 => {
                let mut t = base.to_string();
                t.pop();
                t
            }
            _ => format!("{}{}", base, *rng.pick(CORE_ALPHABET)),
        };
        if v != base {
            return v;
        }
    }
    format!("{} ", base)
}

/// cores of `variant` that differ bytewise from every known marker core although they are the same
/// stretch of the name: (tag, core text). Found by applying the variant's transformation to the cores.
fn core_variants(base: &str, variant: &str, markers: &[Marker]) -> Vec<(&'static str, String)> {
    let mut out = Vec::new();
    for m in markers {
        let core = String::from_utf8_lossy(&m.needles[0].1).to_string();
        if !base.contains(&core) || variant.contains(&core) {
            continue;
        }
        let cands: Vec<(&'static str, String)> = vec![
            ("upper", core.to_ascii_uppercase()),
            ("lower", core.to_ascii_lowercase()),
            ("swap", core.chars().map(|c| if c.is_ascii_uppercase() { c.to_ascii_lowercase() } else { c.to_ascii_uppercase() }).collect()),
            ("nfd", core.replacen('é', "e\u{301}", 1)),
            ("cut", {
                let mut t = core.clone();
                t.pop();
                t
            }),
        ];
        for (k, c) in cands {
            if c != core && c.len() >= 16 && variant.contains(&c) {
                out.push((k, c));
                break;
            }
        }
    }
    out
}

fn gen_policy(rng: &mut Rng) -> Policy {
    match rng.below(5) {
        0 | 1 => Policy { admin_limit: 1, write_limit: 2, horizon: 10 },
        2 => Policy { admin_limit: usize::MAX, write_limit: usize::MAX, horizon: usize::MAX },
        3 => {
            let a = 1 + rng.below(3);
            let w = a + rng.below(3);
            Policy { admin_limit: a, write_limit: w, horizon: w + rng.below(3) }
        }
        _ => Policy { admin_limit: rng.below(3), write_limit: rng.below(4), horizon: 1 + rng.below(4) },
    }
}

fn run_program(case_seed: u64, scratch: &std::path::Path, max_ops: usize, r: &mut Report) {
    let mut rng = Rng::new(case_seed);
    let policy = gen_policy(&mut rng);
    let shared_store = rng.chance(2, 3);
    let default_kdf = rng.chance(1, 10);
    let store = TensorStore::new();
    let graph = Arc::new(if shared_store { GraphEngine::with_store(store.clone()) } else { GraphEngine::new() });
    let mut cfg = VaultConfig::default().with_attenuation(AttenuationPolicy { admin_limit: policy.admin_limit, write_limit: policy.write_limit, horizon: policy.horizon });
    if !default_kdf {
        // key derivation is not what is being monitored: cheapest parameters the KDF accepts
        cfg.argon2_memory_cost = 64;
        cfg.argon2_time_cost = 1;
        cfg.argon2_parallelism = 1;
    }
    cfg.max_versions = 1 + rng.below(5);
    if rng.bool() {
        // behaviour profiles are then reloaded from the store when the vault is reopened
        cfg = cfg.with_anomaly_thresholds(tensor_vault::AnomalyThresholds::default());
    }
    if rng.chance(2, 3) {
        cfg = cfg.with_max_delegation_depth(3 + rng.below(4) as u32);
    }
    let pw_len = 12 + rng.below(20);
    let pw = rng.bytes(pw_len);
    let vault = match Vault::new(&pw, graph.clone(), store.clone(), cfg.clone()) {
        Ok(v) => v,
        Err(e) => {
            r.inconclusive(&format!("Vault::new failed: {}", err_variant(&e)));
            return;
        }
    };
    r.count(if shared_store { "vaults_sharing_store_with_graph" } else { "vaults_with_separate_graph_store" }, 1);

    let n_users = 3 + rng.below(3);
    let n_groups = 2 + rng.below(2);
    let mut actors: Vec<String> = Vec::new();
    let user_names = ["alice", "bob", "carol", "dàve", "eve"];
    for u in user_names.iter().take(n_users) {
        actors.push(format!("user:{}", u));
    }
    // identity names with near-duplicates: distinct strings are distinct identities
    let mut ident_family: HashMap<String, usize> = HashMap::new();
    let mut n_users = n_users;
    if rng.chance(1, 2) {
        let base = actors[rng.below(n_users)].clone();
        let mut vars = Vec::new();
        for _ in 0..(1 + rng.below(2)) {
            let v = near_duplicate(&mut rng, &base);
            if v != base && !actors.contains(&v) && !vars.contains(&v) {
                vars.push(v);
            }
        }
        if !vars.is_empty() {
            ident_family.insert(base.clone(), 0);
            for v in vars {
                ident_family.insert(v.clone(), 0);
                actors.push(v);
                n_users += 1;
                r.count("near_duplicate_identities_used", 1);
            }
        }
    }
    let group_names = ["team:devs", "team:ops", "role:审计"];
    for g in group_names.iter().take(n_groups) {
        actors.push(g.to_string());
    }

    // secret names: several namespaces, one short name, one with arbitrary UTF-8 around the core
    let n_base = 3 + rng.below(3);
    let mut names: Vec<String> = Vec::new();
    let mut family: Vec<usize> = Vec::new();
    let mut markers = Vec::new();
    for i in 0..n_base {
        family.push(i);
        if i == 1 && rng.chance(2, 3) {
            // short name: exercised for access decisions, cannot carry an unambiguous marker
            let n = 1 + rng.below(6);
            let mut s = gen_wild(&mut rng, n);
            if s.is_empty() || names.contains(&s) {
                s = format!("k{}", i);
            }
            names.push(s);
            continue;
        }
        let core = gen_core(&mut rng);
        markers.push(make_marker(true, &format!("name#{}", i), &core));
        let ns = match rng.below(4) {
            0 => "",
            1 => "prod/",
            2 => "staging/",
            _ => "tenant-ü/db/",
        };
        let tail = if rng.chance(1, 3) { gen_wild(&mut rng, 24) } else { String::new() };
        let head = if rng.chance(1, 5) { gen_wild(&mut rng, 6) } else { String::new() };
        // the part of a name before its first '/' is its namespace, which the vault deliberately keeps
        // readable for quota accounting; the searched core always lies behind the namespace
        let (head, tail) = if ns.is_empty() { (head.replace('/', "|"), tail.replace('/', "|")) } else { (head, tail) };
        names.push(format!("{}{}{}{}", ns, head, core, tail));
    }
    // near-duplicates of some of those names: distinct strings are distinct secrets (the vault documents
    // no normalisation of names)
    for _ in 0..(1 + rng.below(4)) {
        let b = rng.below(n_base);
        let v = near_duplicate(&mut rng, &names[b]);
        if names.contains(&v) {
            continue;
        }
        // a variant that changes the bytes of the searched core (case, NFD) gets its own marker
        for (k, m) in core_variants(&names[b], &v, &markers) {
            markers.push(make_marker(true, &format!("name#{}~{}", names.len(), k), &m));
        }
        names.push(v);
        family.push(family[b]);
        r.count("near_duplicate_names_used", 1);
    }
    // empty-ish names, near-duplicates of one another
    if rng.chance(1, 3) {
        let fam = names.len();
        let mut pool = vec!["", " ", "\n", "\u{a0}", "\t "];
        rng.shuffle(&mut pool);
        for e in pool.into_iter().take(2 + rng.below(2)) {
            if !names.iter().any(|n| n == e) {
                names.push(e.to_string());
                family.push(fam);
                r.count("near_duplicate_names_used", 1);
                r.count("emptyish_names_used", 1);
            }
        }
    }
    let n_secrets = names.len();

    let model = Model { root: Vault::ROOT.to_string(), exists: vec![false; n_secrets], grants: Vec::new(), edges: Vec::new(), policy, family, ident_family };
    let mut p = Prog {
        case_seed,
        rng,
        vault,
        store,
        graph,
        model,
        actors,
        n_users,
        names,
        secret_node: vec![None; n_secrets],
        markers,
        value_marker_count: 0,
        trace: Vec::new(),
        reported: HashSet::new(),
        violations: 0,
        allowed: 0,
        denied: 0,
        r,
        scratch,
        short_ttl_pending: Vec::new(),
        last_ttl_pair: None,
        deleg: Vec::new(),
        cfg,
        password: pw,
        dead: false,
    };

    // root creates most secrets first
    let root = p.model.root.clone();
    for i in 0..n_secrets {
        if p.rng.chance(4, 5) {
            p.op_set(&root, i);
        }
    }
    // and hands out a few grants, so that allowed decisions are not rare
    for _ in 0..(2 + p.rng.below(4)) {
        let i = p.pick_secret();
        let to = if p.rng.chance(2, 3) { p.pick_user() } else { p.pick_actor() };
        let lvl = 1 + p.rng.weighted(&[2, 3, 4]) as u8;
        let name = p.names[i].clone();
        let res = p.vault.grant_with_permission(&root, &to, &name, perm_of(lvl));
        p.trace.push(format!("grant_with_permission({}->{},#{},L{})={}", root, to, i, lvl, okerr(&res)));
        if res.is_ok() {
            p.model.grants.push(Grant { holder: to, secret: i, level: lvl, exp: None, state: GState::Live });
            p.r.count("grants_made", 1);
        }
    }
    let n_ops = max_ops / 2 + p.rng.below(max_ops / 2 + 1);
    let scan_every = 12 + p.rng.below(10);
    for step in 0..n_ops {
        p.step();
        if p.violations >= MAX_VIOLATIONS_PER_PROGRAM || p.dead {
            break;
        }
        if step % scan_every == scan_every - 1 {
            p.scan_at_rest(false);
        }
    }
    if !p.dead {
        p.scan_at_rest(true);
        p.scan_audit();
    }

    let ops = p.trace.len() as u64;
    let nontrivial = p.allowed >= 5 && p.denied >= 5;
    let h = hash_str(&p.trace.join(";"));
    let (allowed, denied, viol) = (p.allowed, p.denied, p.violations);
    let sample = if p.r.want_sample() && nontrivial {
        Some(json!({
            "case_seed": case_seed,
            "policy": format!("{:?}", p.model.policy),
            "identities": p.actors,
            "secrets": p.names.iter().map(|n| short(n)).collect::<Vec<_>>(),
            "ops": ops,
            "allowed_with_grant": allowed,
            "denied_without_grant": denied,
            "trace_head": p.trace.iter().take(25).collect::<Vec<_>>(),
        }))
    } else {
        None
    };
    drop(p);
    r.count("ops_executed", ops);
    r.count("programs", 1);
    if viol > 0 {
        r.count("programs_with_violation", 1);
    }
    r.eval(h, nontrivial);
    if let Some(s) = sample {
        r.sample(s);
    }
}

fn main() {
    let args = Args::parse();
    let started = Instant::now();
    quiet_panics();
    let scratch = args.scratch_dir("c14");
    let mut total = Report::new();
    total.max_samples = 4;
    let max_ops = 60usize;

    if let Some(p) = &args.replay {
        let v: Value = serde_json::from_str(&std::fs::read_to_string(p).expect("replay file")).expect("json");
        let rp = &v["replay"];
        let s = rp["case_seed"].as_u64().expect("case_seed");
        run_program(s, scratch.path(), max_ops, &mut total);
    } else {
        let n = args.by_tier(1_000u64, 20_000u64);
        let sp = scratch.path().to_path_buf();
        let rep = par_cases(args.threads, args.seed, n, args.budget(75, 900), |_i, s, r| run_program(s, &sp, max_ops, r));
        total.merge(rep);
        let a = total.counters.get("decisions_allowed_with_grant").copied().unwrap_or(0);
        let d = total.counters.get("decisions_denied_without_grant").copied().unwrap_or(0);
        let c = total.counters.get("decisions_checked").copied().unwrap_or(0).max(1);
        total.count("allowed_share_permille", a * 1000 / c);
        total.count("denied_share_permille", d * 1000 / c);
    }

    let meta = Meta {
        property: "C14",
        rule: "one program = one real Vault (own TensorStore; graph engine on the same store in 2/3 of the programs) driven by 30-60 random operations (set/get/get_version/batch_get/list/list_versions/current_version/rotate/rollback/delete/grant/grant_with_permission/grant_with_ttl/revoke/delegate/delegation bursts building small delegation DAGs/revoke_delegation/revoke_delegation_cascading/get_permission/MEMBER- and foreign-edge add/remove/waits past TTLs/rotate_master_key/restart = reopening the vault on the same store and graph with the access model carried across) by root, 3-5 users and 2-3 groups over 4-10 secrets in several namespaces whose names include near-duplicates of one another (white space around, ASCII case, NFC/NFD, prefix, empty-ish names; also near-duplicate identity names), under a random AttenuationPolicy; every non-root decision is compared with the access model (only-if direction), and, after calling the vault's flush entry point persist_anomaly_profiles (and sometimes create_snapshot), the store image / raw keys+fields / a saved snapshot file / audit records / error messages are searched for the unique 18+ byte cores of all secret names and values. Programs are distinct by the hash of their operation trace; a program is non-trivial when at least 5 decisions were allowed with a grant and at least 5 were denied without one.",
        assumptions: vec![
            "only-if direction only: a refusal the model would have allowed is counted as over_denials, never a violation".into(),
            format!("a TTL grant counts as possibly live until (return of the granting call + ttl + {} ms); decisions inside that window are don't-care", MARGIN.as_millis()),
            "required levels: read/get_version/batch_get/list/list_versions/current_version = Read, overwrite/rotate/rollback = Write, delete and grant* = Admin (as documented on Permission); revoke is executed and its effect modelled but its own authorisation is not judged (the statement is silent)".into(),
            "revoke_delegation(parent, child) takes away what the current (latest) delegate(parent, child, ..) call handed out; revoke_delegation_cascading additionally does so for every delegation record of every agent reachable from the child through delegation records whose TTL cannot have run out; grants from an earlier, replaced delegate call of the same pair and a cascade started at a pair without a record are not judged (records the vault reports as revoked by such a cascade are dropped from the model's record graph, the grants they handed out stay live in the model)".into(),
            "distinct name strings are distinct secrets / identities (the vault documents no normalisation): a grant on one name confers nothing on a near-duplicate".into(),
            "delegate is modelled by its documented contract: succeeds only if the parent holds at least the delegated level on every secret; the child then holds that level (with the TTL if given)".into(),
            "a group is an entity reached over directed MEMBER edges; edges of other types and MEMBER edges pointing at a secret node confer nothing; distance = MEMBER hops + 1, attenuated by the documented table, nothing at or beyond the horizon".into(),
            "names/values shorter than 16 bytes are exercised but not searched for (a match could be accidental); encodings searched: verbatim, lowercase hex, base64".into(),
            format!("TTL grants that crossed a reopen get {} ms more don't-care on each side (the persisted deadline is rebuilt from wall-clock stamps)", REOPEN_SLACK.as_millis()),
            "argon2 parameters are reduced to the minimum in 9 of 10 programs (key derivation is not under observation)".into(),
        ],
        floors: if args.replay.is_some() {
            vec![]
        } else {
            vec![
                ("programs", args.by_tier(150, 3_000)),
                ("decisions_checked", args.by_tier(4_000, 80_000)),
                ("allowed_share_permille", 300),
                ("denied_share_permille", 300),
                ("expired_ttl_decisive", args.by_tier(40, 800)),
                ("at_rest_scans", args.by_tier(400, 8_000)),
                ("snapshot_files_scanned", args.by_tier(100, 2_000)),
                ("near_duplicate_names_used", args.by_tier(300, 6_000)),
                ("decisions_through_near_duplicate_of_granted_name", args.by_tier(150, 3_000)),
                ("delegations_revoked", args.by_tier(200, 4_000)),
                ("cascades_over_rejoining_dag", args.by_tier(15, 300)),
                ("restarts", args.by_tier(100, 2_000)),
                ("restarts_with_pending_ttl_grant", args.by_tier(30, 600)),
                ("master_key_rotations", args.by_tier(60, 1_200)),
                ("audit_records_checked", args.by_tier(10_000, 200_000)),
                ("error_messages_checked", args.by_tier(1_500, 30_000)),
            ]
        },
        exhaustive: false,
    };
    write_result(&args, &meta, &total, started);
}
