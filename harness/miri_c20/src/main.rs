//! C20 Miri leg: the pure codecs of tensor_compress (+ SparseVector and its bitcode form) run
//! under the interpreter so that undefined behaviour (out-of-bounds reads, invalid values, aliasing
//! under tree borrows) in a decoder fed hostile bytes is reported even when natively it "works".
//!
//!   MIRIFLAGS="-Zmiri-tree-borrows -Zmiri-env-forward=MIRI_C20_CASES -Zmiri-env-forward=MIRI_C20_SEED" \\
//!   cargo +nightly miri run          (MIRI_C20_CASES=n, default 60;
//!                                       MIRI_C20_SEED=s, default 1)
//!
//! Exit code 0 and a `MIRI-C20 ok ...` line = no UB and no oracle failure on the executed cases.
//! The oracles are the same as in h_misc/src/bin/c20.rs but only the ones that are *expected to hold
//! on the current tree* abort the run; the known round-trip defects are counted, not fatal, because
//! this leg exists for the memory-safety question.

use tensor_compress::format::{CompressedEntry, CompressedSnapshot, CompressedValue, Header};
use tensor_compress::{
    compress_ids, decompress_ids, rle_decode, rle_encode, tt_decompose, tt_reconstruct, varint_decode, varint_encode, CompressionConfig, RleEncoded,
    TTConfig,
};

struct Rng(u64);
impl Rng {
    fn next(&mut self) -> u64 {
        let mut x = self.0;
        x ^= x << 13;
        x ^= x >> 7;
        x ^= x << 17;
        self.0 = x;
        x.wrapping_mul(0x2545_F491_4F6C_DD1D)
    }
    fn below(&mut self, n: usize) -> usize {
        (self.next() % n as u64) as usize
    }
    fn bytes(&mut self, n: usize) -> Vec<u8> {
        (0..n).map(|_| self.next() as u8).collect()
    }
}

fn hostile(rng: &mut Rng, enc: &[u8]) -> Vec<Vec<u8>> {
    let mut out = Vec::new();
    let n = enc.len();
    for _ in 0..3 {
        if n > 0 {
            out.push(enc[..rng.below(n)].to_vec());
            let b = rng.below(n * 8);
            let mut v = enc.to_vec();
            v[b / 8] ^= 1 << (b % 8);
            out.push(v);
        }
    }
    let k = rng.below(24);
    out.push(rng.bytes(k));
    out.push(vec![0xff; 1 + rng.below(12)]);
    out
}

fn main() {
    let cases: usize = std::env::var("MIRI_C20_CASES").ok().and_then(|s| s.parse().ok()).unwrap_or(60);
    let seed: u64 = std::env::var("MIRI_C20_SEED").ok().and_then(|s| s.parse().ok()).unwrap_or(1);
    let mut rng = Rng(seed.wrapping_mul(0x9E37_79B9_7F4A_7C15) | 1);
    let (mut decoded, mut rejected, mut known_lossy) = (0u64, 0u64, 0u64);
    for case in 0..cases {
        // ---- id lists
        let n = rng.below(12);
        let mut ids: Vec<u64> = (0..n).map(|_| if rng.below(4) == 0 { rng.next() } else { rng.below(500) as u64 }).collect();
        if rng.below(2) == 0 {
            ids.sort_unstable();
        }
        let enc = compress_ids(&ids);
        let dec = decompress_ids(&enc);
        if dec != ids {
            assert!(ids.windows(2).any(|w| w[0] > w[1]), "sorted id list altered: {ids:?} -> {dec:?}");
            known_lossy += 1;
        }
        assert_eq!(varint_decode(&varint_encode(&ids)), ids);
        for h in hostile(&mut rng, &enc) {
            let v = decompress_ids(&h);
            assert!(v.len() <= h.len());
            decoded += 1;
        }
        // ---- run lengths
        let mut data: Vec<i64> = Vec::new();
        for _ in 0..rng.below(6) {
            let v = rng.below(3) as i64 - 1;
            for _ in 0..1 + rng.below(5) {
                data.push(v);
            }
        }
        let e = rle_encode(&data);
        assert_eq!(rle_decode(&e), data);
        let bytes = bitcode::serialize(&e).unwrap();
        assert_eq!(bitcode::deserialize::<RleEncoded<i64>>(&bytes).unwrap(), e);
        for h in hostile(&mut rng, &bytes) {
            match bitcode::deserialize::<RleEncoded<i64>>(&h) {
                Ok(x) => {
                    let claimed: u64 = x.run_lengths.iter().map(|&c| c as u64).sum();
                    if claimed < 10_000 {
                        let _ = rle_decode(&x);
                    }
                    decoded += 1;
                }
                Err(_) => rejected += 1,
            }
        }
        // ---- snapshot container with every value kind, and the decoders its loader calls
        if case % 4 == 0 {
            let cfg = TTConfig { shape: vec![2, 2, 2], max_rank: 2, tolerance: 1e-3 };
            let v: Vec<f32> = (0..8).map(|i| (i as f32 * 0.7).sin()).collect();
            let tt = tt_decompose(&v, &cfg).unwrap();
            let rec = tt_reconstruct(&tt);
            assert_eq!(rec.len(), 8);
            let mut fields = std::collections::BTreeMap::new();
            fields.insert("tt".to_string(), CompressedValue::VectorTT { cores: tt.cores, original_dim: tt.original_dim, shape: tt.shape, ranks: tt.ranks });
            fields.insert("sp".to_string(), tensor_compress::compress_sparse(20, &[1, 7], &[1.0, -2.0]));
            fields.insert("ids".to_string(), CompressedValue::IdList(compress_ids(&[3, 9, 27])));
            fields.insert("rle".to_string(), CompressedValue::RleInt(rle_encode(&[5i64, 5, 9])));
            let snap = CompressedSnapshot { header: Header::new(CompressionConfig::default(), 1), entries: vec![CompressedEntry { key: "k".into(), fields }] };
            let bytes = snap.serialize().unwrap();
            assert_eq!(CompressedSnapshot::deserialize(&bytes).unwrap(), snap);
            for h in hostile(&mut rng, &bytes) {
                match CompressedSnapshot::deserialize(&h) {
                    Ok(s) => {
                        decoded += 1;
                        for e in &s.entries {
                            for v in e.fields.values() {
                                let small = match v {
                                    CompressedValue::VectorSparse { dimension, .. } => *dimension < 4096,
                                    CompressedValue::VectorTT { shape, .. } => shape.iter().try_fold(1usize, |a, &b| a.checked_mul(b)).map_or(false, |p| p < 4096),
                                    CompressedValue::RleInt(x) => x.run_lengths.iter().map(|&c| c as u64).sum::<u64>() < 10_000,
                                    _ => true,
                                };
                                if small {
                                    // a panic here is the natively reported finding (index out of bounds on
                                    // inconsistent cores); Miri is asked the different question of UB, so it is caught
                                    let _ = std::panic::catch_unwind(|| {
                                        let _ = tensor_compress::format::decompress_vector(v);
                                        let _ = tensor_compress::format::decompress_ints(v);
                                    });
                                }
                            }
                        }
                    }
                    Err(_) => rejected += 1,
                }
            }
        }
        // ---- sparse vectors
        #[cfg(feature = "sparse")]
        {
            use tensor_store::SparseVector;
            let dense: Vec<f32> = (0..rng.below(24)).map(|_| if rng.below(3) == 0 { f32::from_bits(rng.next() as u32) } else { 0.0 }).collect();
            let sv = SparseVector::from_dense(&dense);
            let back = sv.to_dense();
            assert_eq!(back.len(), dense.len());
            for (a, b) in dense.iter().zip(&back) {
                assert!(if *a == 0.0 { *b == 0.0 } else { a.to_bits() == b.to_bits() });
            }
            let bytes = bitcode::serialize(&sv).unwrap();
            let d: SparseVector = bitcode::deserialize(&bytes).unwrap();
            assert_eq!(d.positions(), sv.positions());
            for h in hostile(&mut rng, &bytes) {
                match bitcode::deserialize::<SparseVector>(&h) {
                    Ok(s) => {
                        decoded += 1;
                        let valid = s.positions().len() == s.values().len() && s.positions().windows(2).all(|w| w[0] < w[1]) && s.positions().iter().all(|&p| (p as usize) < s.dimension());
                        if valid && s.dimension() < 4096 {
                            let _ = s.to_dense();
                            let _ = s.magnitude();
                        }
                    }
                    Err(_) => rejected += 1,
                }
            }
        }
    }
    println!("MIRI-C20 ok cases={cases} seed={seed} hostile_inputs_decoded={decoded} rejected={rejected} known_lossy_unsorted_lists={known_lossy}");
}
