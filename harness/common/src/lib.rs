//! Shared machinery for the /verif runtime-monitoring harnesses.
//!
//! * `Rng`        — seeded xorshift PRNG (all random choices derive from VERIF_SEED)
//! * `Args`       — command line of every harness binary
//! * `Report`     — what a run observed; merged across worker threads and written as JSON
//!                  for the `check` driver (which turns it into evidence + verdict)
//! * `lin`        — Wing–Gong/Lowe linearizability checker over a per-key register model
//! * `sched`      — schedule-point controller for the `neumann_verif` hooks
//! * `alloc`      — counting global allocator
//! * `par`        — run a closure for many seeds on all cores with a wall-clock budget

pub mod alloc;
pub mod lin;
pub mod sched;

use serde_json::{json, Value};
use std::collections::{BTreeMap, HashSet};
use std::path::PathBuf;
use std::sync::atomic::{AtomicBool, AtomicU64, Ordering};
use std::sync::Arc;
use std::time::{Duration, Instant};

// ------------------------------------------------------------------------------------------------
// PRNG
// ------------------------------------------------------------------------------------------------

#[derive(Clone, Debug)]
pub struct Rng(pub u64);

impl Rng {
    pub fn new(seed: u64) -> Self {
        // splitmix64 scramble so that consecutive seeds give unrelated streams
        let mut z = seed.wrapping_add(0x9E37_79B9_7F4A_7C15);
        z = (z ^ (z >> 30)).wrapping_mul(0xBF58_476D_1CE4_E5B9);
        z = (z ^ (z >> 27)).wrapping_mul(0x94D0_49BB_1331_11EB);
        z ^= z >> 31;
        Rng(if z == 0 { 0x1234_5678_9ABC_DEF1 } else { z })
    }
    pub fn fork(&mut self, salt: u64) -> Rng {
        Rng::new(self.next_u64() ^ salt.wrapping_mul(0xD6E8_FEB8_6659_FD93))
    }
    #[inline]
    pub fn next_u64(&mut self) -> u64 {
        let mut x = self.0;
        x ^= x << 13;
        x ^= x >> 7;
        x ^= x << 17;
        self.0 = x;
        x.wrapping_mul(0x2545_F491_4F6C_DD1D)
    }
    /// uniform in 0..n (n > 0)
    #[inline]
    pub fn below(&mut self, n: usize) -> usize {
        debug_assert!(n > 0);
        (self.next_u64() % n as u64) as usize
    }
    /// uniform in lo..=hi
    pub fn range(&mut self, lo: i64, hi: i64) -> i64 {
        debug_assert!(lo <= hi);
        let span = (hi as i128 - lo as i128 + 1) as u128;
        (lo as i128 + (self.next_u64() as u128 % span) as i128) as i64
    }
    /// true with probability num/den
    #[inline]
    pub fn chance(&mut self, num: u32, den: u32) -> bool {
        (self.next_u64() % den as u64) < num as u64
    }
    pub fn bool(&mut self) -> bool {
        self.next_u64() & 1 == 1
    }
    pub fn pick<'a, T>(&mut self, xs: &'a [T]) -> &'a T {
        &xs[self.below(xs.len())]
    }
    /// uniform in [0,1)
    pub fn unit_f64(&mut self) -> f64 {
        (self.next_u64() >> 11) as f64 / (1u64 << 53) as f64
    }
    pub fn f64_in(&mut self, lo: f64, hi: f64) -> f64 {
        lo + (hi - lo) * self.unit_f64()
    }
    pub fn bytes(&mut self, n: usize) -> Vec<u8> {
        let mut v = Vec::with_capacity(n);
        while v.len() < n {
            let x = self.next_u64().to_le_bytes();
            let take = (n - v.len()).min(8);
            v.extend_from_slice(&x[..take]);
        }
        v
    }
    pub fn shuffle<T>(&mut self, xs: &mut [T]) {
        for i in (1..xs.len()).rev() {
            let j = self.below(i + 1);
            xs.swap(i, j);
        }
    }
    /// weighted choice: returns index i with probability w[i]/sum(w)
    pub fn weighted(&mut self, w: &[u32]) -> usize {
        let total: u64 = w.iter().map(|&x| x as u64).sum();
        let mut r = self.next_u64() % total.max(1);
        for (i, &x) in w.iter().enumerate() {
            if r < x as u64 {
                return i;
            }
            r -= x as u64;
        }
        w.len() - 1
    }
}

/// FNV-1a style 64-bit hash of bytes; used to count distinct cases.
pub fn hash_bytes(b: &[u8]) -> u64 {
    let mut h: u64 = 0xcbf2_9ce4_8422_2325;
    for &x in b {
        h ^= x as u64;
        h = h.wrapping_mul(0x0000_0100_0000_01B3);
    }
    h ^ (h >> 29)
}
pub fn hash_str(s: &str) -> u64 {
    hash_bytes(s.as_bytes())
}
pub fn hash_combine(a: u64, b: u64) -> u64 {
    (a ^ b.wrapping_add(0x9E37_79B9_7F4A_7C15).wrapping_add(a << 6).wrapping_add(a >> 2))
        .wrapping_mul(0x2545_F491_4F6C_DD1D)
}

// ------------------------------------------------------------------------------------------------
// Args
// ------------------------------------------------------------------------------------------------

#[derive(Clone, Copy, Debug, PartialEq, Eq)]
pub enum Tier {
    Quick,
    Thorough,
}

#[derive(Clone, Debug)]
pub struct Args {
    pub tier: Tier,
    pub seed: u64,
    pub out: PathBuf,
    pub replay: Option<PathBuf>,
    pub threads: usize,
    /// wall-clock budget for the workload in seconds (a cap, never a verdict)
    pub budget_s: u64,
    pub scratch: PathBuf,
    pub extra: BTreeMap<String, String>,
    /// positional arguments (child-process modes)
    pub rest: Vec<String>,
}

impl Args {
    pub fn parse() -> Args {
        let mut a = Args {
            tier: Tier::Quick,
            seed: 1,
            out: PathBuf::from("/dev/null"),
            replay: None,
            threads: std::thread::available_parallelism().map(|n| n.get()).unwrap_or(4),
            budget_s: 0,
            scratch: std::env::temp_dir(),
            extra: BTreeMap::new(),
            rest: Vec::new(),
        };
        let argv: Vec<String> = std::env::args().skip(1).collect();
        let mut i = 0;
        while i < argv.len() {
            let k = argv[i].as_str();
            let mut val = || {
                i += 1;
                argv.get(i).cloned().unwrap_or_default()
            };
            match k {
                "--tier" => {
                    a.tier = if val() == "thorough" { Tier::Thorough } else { Tier::Quick }
                }
                "--seed" => a.seed = val().parse().unwrap_or(1),
                "--out" => a.out = PathBuf::from(val()),
                "--replay" => a.replay = Some(PathBuf::from(val())),
                "--threads" => a.threads = val().parse().unwrap_or(4),
                "--budget-s" => a.budget_s = val().parse().unwrap_or(0),
                "--scratch" => a.scratch = PathBuf::from(val()),
                _ if k.starts_with("--") => {
                    let key = k[2..].to_string();
                    let v = val();
                    a.extra.insert(key, v);
                }
                _ => a.rest.push(k.to_string()),
            }
            i += 1;
        }
        a
    }
    pub fn quick(&self) -> bool {
        self.tier == Tier::Quick
    }
    pub fn tier_name(&self) -> &'static str {
        if self.quick() {
            "quick"
        } else {
            "thorough"
        }
    }
    /// pick by tier
    pub fn by_tier<T>(&self, quick: T, thorough: T) -> T {
        if self.quick() {
            quick
        } else {
            thorough
        }
    }
    pub fn budget(&self, quick_s: u64, thorough_s: u64) -> Duration {
        if self.budget_s > 0 {
            Duration::from_secs(self.budget_s)
        } else {
            Duration::from_secs(self.by_tier(quick_s, thorough_s))
        }
    }
    pub fn extra_u64(&self, k: &str, default: u64) -> u64 {
        self.extra.get(k).and_then(|v| v.parse().ok()).unwrap_or(default)
    }
    /// a fresh private scratch directory (removed by `Scratch::drop`)
    pub fn scratch_dir(&self, tag: &str) -> Scratch {
        Scratch::new(&self.scratch, tag)
    }
}

static SCRATCH_CTR: AtomicU64 = AtomicU64::new(0);

pub struct Scratch(pub PathBuf);
impl Scratch {
    pub fn new(base: &std::path::Path, tag: &str) -> Scratch {
        let n = SCRATCH_CTR.fetch_add(1, Ordering::Relaxed);
        let p = base.join(format!("vf-{}-{}-{}", tag, std::process::id(), n));
        let _ = std::fs::remove_dir_all(&p);
        std::fs::create_dir_all(&p).expect("create scratch dir");
        Scratch(p)
    }
    pub fn path(&self) -> &std::path::Path {
        &self.0
    }
    pub fn join(&self, s: &str) -> PathBuf {
        self.0.join(s)
    }
}
impl Drop for Scratch {
    fn drop(&mut self) {
        let _ = std::fs::remove_dir_all(&self.0);
    }
}

// ------------------------------------------------------------------------------------------------
// Report
// ------------------------------------------------------------------------------------------------

#[derive(Clone, Debug)]
pub struct Violation {
    /// exact signature; matched against /verif/known_findings.json by the driver
    pub signature: String,
    pub detail: String,
    /// everything needed to re-execute: seed, schedule, inputs
    pub replay: Value,
}

#[derive(Clone, Debug, Default)]
pub struct Report {
    pub evaluations: u64,
    pub distinct: HashSet<u64>,
    pub samples: Vec<Value>,
    pub counters: BTreeMap<String, u64>,
    pub violations: Vec<Violation>,
    pub violations_total: u64,
    pub inconclusive: u64,
    pub inconclusive_reasons: BTreeMap<String, u64>,
    pub max_samples: usize,
}

pub const MAX_VIOLATIONS_KEPT: usize = 40;

impl Report {
    pub fn new() -> Report {
        Report { max_samples: 6, ..Default::default() }
    }
    /// one oracle evaluation; `h` identifies the case, `nontrivial` says whether it passes the
    /// check's non-triviality rule (only those are counted as distinct)
    pub fn eval(&mut self, h: u64, nontrivial: bool) {
        self.evaluations += 1;
        if nontrivial {
            self.distinct.insert(h);
        }
    }
    pub fn count(&mut self, name: &str, n: u64) {
        *self.counters.entry(name.to_string()).or_insert(0) += n;
    }
    pub fn count_max(&mut self, name: &str, n: u64) {
        let e = self.counters.entry(name.to_string()).or_insert(0);
        if n > *e {
            *e = n;
        }
    }
    pub fn sample(&mut self, v: Value) {
        if self.samples.len() < self.max_samples {
            self.samples.push(v);
        }
    }
    pub fn want_sample(&self) -> bool {
        self.samples.len() < self.max_samples
    }
    pub fn inconclusive(&mut self, why: &str) {
        self.inconclusive += 1;
        *self.inconclusive_reasons.entry(why.to_string()).or_insert(0) += 1;
    }
    pub fn violation(&mut self, signature: impl Into<String>, detail: impl Into<String>, replay: Value) {
        self.violations_total += 1;
        let signature = signature.into();
        // keep at most 3 witnesses per signature, MAX_VIOLATIONS_KEPT overall
        let same = self.violations.iter().filter(|v| v.signature == signature).count();
        if same < 3 && self.violations.len() < MAX_VIOLATIONS_KEPT {
            self.violations.push(Violation { signature, detail: detail.into(), replay });
        } else {
            *self.counters.entry(format!("violations_dropped[{}]", signature)).or_insert(0) += 1;
        }
    }
    pub fn merge(&mut self, o: Report) {
        self.evaluations += o.evaluations;
        self.distinct.extend(o.distinct);
        for s in o.samples {
            if self.samples.len() < self.max_samples.max(6) {
                self.samples.push(s);
            }
        }
        for (k, v) in o.counters {
            if k.starts_with("max:") {
                let e = self.counters.entry(k).or_insert(0);
                if v > *e {
                    *e = v;
                }
            } else {
                *self.counters.entry(k).or_insert(0) += v;
            }
        }
        for v in o.violations {
            let same = self.violations.iter().filter(|x| x.signature == v.signature).count();
            if same < 3 && self.violations.len() < MAX_VIOLATIONS_KEPT {
                self.violations.push(v);
            }
        }
        self.violations_total += o.violations_total;
        self.inconclusive += o.inconclusive;
        for (k, v) in o.inconclusive_reasons {
            *self.inconclusive_reasons.entry(k).or_insert(0) += v;
        }
    }
    pub fn to_json(&self) -> Value {
        json!({
            "evaluations": self.evaluations,
            "distinct_nontrivial": self.distinct.len(),
            "samples": self.samples,
            "counters": self.counters,
            "violations_total": self.violations_total,
            "violations": self.violations.iter().map(|v| json!({
                "signature": v.signature, "detail": v.detail, "replay": v.replay})).collect::<Vec<_>>(),
            "inconclusive": self.inconclusive,
            "inconclusive_reasons": self.inconclusive_reasons,
        })
    }
    pub fn from_json(v: &Value) -> Report {
        // used when a parent merges reports written by child processes; distinct hashes travel
        // in "distinct_hashes" (children add it), otherwise the count is lost
        let mut r = Report::new();
        r.evaluations = v["evaluations"].as_u64().unwrap_or(0);
        if let Some(a) = v["distinct_hashes"].as_array() {
            for h in a {
                if let Some(x) = h.as_u64() {
                    r.distinct.insert(x);
                }
            }
        }
        if let Some(a) = v["samples"].as_array() {
            r.samples = a.clone();
        }
        if let Some(m) = v["counters"].as_object() {
            for (k, x) in m {
                r.counters.insert(k.clone(), x.as_u64().unwrap_or(0));
            }
        }
        r.violations_total = v["violations_total"].as_u64().unwrap_or(0);
        if let Some(a) = v["violations"].as_array() {
            for x in a {
                r.violations.push(Violation {
                    signature: x["signature"].as_str().unwrap_or("").to_string(),
                    detail: x["detail"].as_str().unwrap_or("").to_string(),
                    replay: x["replay"].clone(),
                });
            }
        }
        r.inconclusive = v["inconclusive"].as_u64().unwrap_or(0);
        if let Some(m) = v["inconclusive_reasons"].as_object() {
            for (k, x) in m {
                r.inconclusive_reasons.insert(k.clone(), x.as_u64().unwrap_or(0));
            }
        }
        r
    }
    pub fn to_json_with_hashes(&self) -> Value {
        let mut v = self.to_json();
        v["distinct_hashes"] = Value::Array(self.distinct.iter().map(|h| json!(h)).collect());
        v
    }
}

/// Static description + floors of one check; written together with the report.
pub struct Meta {
    pub property: &'static str,
    pub rule: &'static str,
    pub assumptions: Vec<String>,
    /// counters (or "evaluations"/"distinct_nontrivial") that must reach at least this value for
    /// the run to count as having observed enough; otherwise the verdict is INCONCLUSIVE.
    pub floors: Vec<(&'static str, u64)>,
    pub exhaustive: bool,
}

pub fn write_result(args: &Args, meta: &Meta, report: &Report, started: Instant) {
    let mut v = report.to_json();
    v["property"] = json!(meta.property);
    v["tier"] = json!(args.tier_name());
    v["seed"] = json!(args.seed);
    v["rule"] = json!(meta.rule);
    v["assumptions"] = json!(meta.assumptions);
    v["exhaustive"] = json!(meta.exhaustive);
    v["wall_s"] = json!(started.elapsed().as_secs_f64());
    let mut unmet = Vec::new();
    for (k, min) in &meta.floors {
        let have = match *k {
            "evaluations" => report.evaluations,
            "distinct_nontrivial" => report.distinct.len() as u64,
            other => report.counters.get(other).copied().unwrap_or(0),
        };
        if have < *min {
            unmet.push(json!({"what": k, "have": have, "need": min}));
        }
    }
    v["floors"] = json!(meta.floors.iter().map(|(k, m)| json!({"what": k, "need": m})).collect::<Vec<_>>());
    v["floors_unmet"] = Value::Array(unmet);
    let s = serde_json::to_string_pretty(&v).unwrap();
    if args.out.as_os_str() != "/dev/null" {
        let tmp = args.out.with_extension("tmp");
        std::fs::write(&tmp, s).expect("write result");
        std::fs::rename(&tmp, &args.out).expect("rename result");
    }
    eprintln!(
        "[{}] tier={} seed={} evaluations={} distinct={} violations={} inconclusive={} wall={:.1}s",
        meta.property,
        args.tier_name(),
        args.seed,
        report.evaluations,
        report.distinct.len(),
        report.violations_total,
        report.inconclusive,
        started.elapsed().as_secs_f64()
    );
}

// ------------------------------------------------------------------------------------------------
// Parallel seed runner
// ------------------------------------------------------------------------------------------------

/// Runs `f(case_seed, &mut Report)` for case indices 0..max_cases on `threads` worker threads until
/// the cases are exhausted or the wall-clock budget is spent (budget exhaustion only ends the
/// workload; it never produces a verdict). Case seeds derive from (base seed, index) only, so a
/// case can be replayed alone. A panic inside `f` is caught and reported through `on_panic`.
pub fn par_cases<F>(
    threads: usize,
    base_seed: u64,
    max_cases: u64,
    budget: Duration,
    f: F,
) -> Report
where
    F: Fn(u64, u64, &mut Report) + Sync,
{
    let next = AtomicU64::new(0);
    let stop = AtomicBool::new(false);
    let start = Instant::now();
    let mut total = Report::new();
    let reports: Vec<Report> = std::thread::scope(|s| {
        let hs: Vec<_> = (0..threads.max(1))
            .map(|_| {
                s.spawn(|| {
                    let mut r = Report::new();
                    loop {
                        if stop.load(Ordering::Relaxed) {
                            break;
                        }
                        let i = next.fetch_add(1, Ordering::Relaxed);
                        if i >= max_cases {
                            break;
                        }
                        if start.elapsed() > budget {
                            stop.store(true, Ordering::Relaxed);
                            r.count("budget_stops", 1);
                            break;
                        }
                        let case_seed = case_seed(base_seed, i);
                        let res = std::panic::catch_unwind(std::panic::AssertUnwindSafe(|| {
                            f(i, case_seed, &mut r);
                        }));
                        if let Err(e) = res {
                            let msg = panic_msg(&e);
                            r.violation(
                                format!("panic:{}", first_line(&msg)),
                                format!("panic in case {} (seed {}): {}", i, case_seed, msg),
                                json!({"case": i, "case_seed": case_seed}),
                            );
                        }
                        r.count("cases", 1);
                    }
                    r
                })
            })
            .collect();
        hs.into_iter().map(|h| h.join().expect("worker")).collect()
    });
    for r in reports {
        total.merge(r);
    }
    total
}

pub fn case_seed(base: u64, i: u64) -> u64 {
    Rng::new(base.wrapping_mul(0x1000_0000_01B3).wrapping_add(i)).next_u64()
}

pub fn panic_msg(e: &Box<dyn std::any::Any + Send>) -> String {
    if let Some(s) = e.downcast_ref::<&str>() {
        s.to_string()
    } else if let Some(s) = e.downcast_ref::<String>() {
        s.clone()
    } else {
        "<non-string panic>".to_string()
    }
}

pub fn first_line(s: &str) -> String {
    let l = s.lines().next().unwrap_or("");
    // strip numbers so that signatures are stable across inputs
    let mut out = String::new();
    let mut last_digit = false;
    for c in l.chars().take(120) {
        if c.is_ascii_digit() {
            if !last_digit {
                out.push('#');
            }
            last_digit = true;
        } else {
            out.push(c);
            last_digit = false;
        }
    }
    out
}

/// Silence the default panic hook (worker panics are caught and reported as violations with
/// their message; the default hook would only add noise on stderr).
pub fn quiet_panics() {
    std::panic::set_hook(Box::new(|_| {}));
}

/// Shared flag helper for watchdogs.
pub fn deadline_flag(after: Duration) -> Arc<AtomicBool> {
    let f = Arc::new(AtomicBool::new(false));
    let g = f.clone();
    std::thread::spawn(move || {
        std::thread::sleep(after);
        g.store(true, Ordering::SeqCst);
    });
    f
}

/// NaN-aware f32/f64 comparisons used by several oracles.
pub fn f32_same(a: f32, b: f32) -> bool {
    (a.is_nan() && b.is_nan()) || a.to_bits() == b.to_bits()
}
pub fn f64_same(a: f64, b: f64) -> bool {
    (a.is_nan() && b.is_nan()) || a.to_bits() == b.to_bits()
}
pub fn f32_eq_value(a: f32, b: f32) -> bool {
    (a.is_nan() && b.is_nan()) || a == b
}
pub fn f64_eq_value(a: f64, b: f64) -> bool {
    (a.is_nan() && b.is_nan()) || a == b
}
