//! Schedule-point plumbing for the `neumann_verif` hooks.
//!
//! /repo calls `tensor_store::verif_hooks::point(name)` at a handful of places (see MANIFEST
//! hooks). Each harness binary installs `on_point` as the process-global callback once;
//! `on_point` dispatches to a *thread-local* handler, so many independent rounds can run on
//! different worker threads of one process without seeing each other's points.

use parking_lot::{Condvar, Mutex};
use std::cell::RefCell;
use std::sync::atomic::{AtomicU64, Ordering};
use std::sync::Arc;
use std::time::Duration;

pub type Handler = Arc<dyn Fn(&'static str) + Send + Sync>;

thread_local! {
    static LOCAL: RefCell<Option<Handler>> = const { RefCell::new(None) };
}

pub static POINTS_SEEN: AtomicU64 = AtomicU64::new(0);

/// install / remove the handler of the calling thread
pub fn set_thread_handler(h: Option<Handler>) {
    LOCAL.with(|l| *l.borrow_mut() = h);
}

/// the function handed to `tensor_store::verif_hooks::set`
pub fn on_point(name: &'static str) {
    POINTS_SEEN.fetch_add(1, Ordering::Relaxed);
    let h = LOCAL.with(|l| l.borrow().clone());
    if let Some(h) = h {
        h(name);
    }
}

/// A one-shot gate: a worker parks itself at a schedule point until the controller releases it.
#[derive(Default)]
pub struct Gate {
    st: Mutex<GateState>,
    cv: Condvar,
}
#[derive(Default)]
struct GateState {
    parked: bool,
    released: bool,
    timed_out: bool,
}

impl Gate {
    pub fn new() -> Arc<Gate> {
        Arc::new(Gate::default())
    }
    /// called by the worker inside the hook: announce and block until released. A generous
    /// timeout guards against a harness bug; if it fires the round is inconclusive.
    pub fn park(&self) {
        let mut g = self.st.lock();
        g.parked = true;
        self.cv.notify_all();
        while !g.released {
            if self.cv.wait_for(&mut g, Duration::from_secs(20)).timed_out() && !g.released {
                g.timed_out = true;
                g.released = true;
            }
        }
    }
    /// controller: wait until the worker is parked (false on timeout)
    pub fn wait_parked(&self, timeout: Duration) -> bool {
        let mut g = self.st.lock();
        let deadline = std::time::Instant::now() + timeout;
        while !g.parked {
            if self.cv.wait_until(&mut g, deadline).timed_out() {
                return g.parked;
            }
        }
        true
    }
    pub fn is_parked(&self) -> bool {
        self.st.lock().parked
    }
    pub fn release(&self) {
        let mut g = self.st.lock();
        g.released = true;
        self.cv.notify_all();
    }
    pub fn timed_out(&self) -> bool {
        self.st.lock().timed_out
    }
}

/// Handler that parks the calling thread at the `nth` (0-based) occurrence of `point`.
pub fn park_at(point: &'static str, nth: u64, gate: Arc<Gate>) -> Handler {
    let seen = AtomicU64::new(0);
    Arc::new(move |name: &'static str| {
        if name == point {
            let k = seen.fetch_add(1, Ordering::SeqCst);
            if k == nth {
                gate.park();
            }
        }
    })
}

/// Handler that perturbs timing at every point by a seeded decision (stress mode).
pub fn jitter(seed: u64) -> Handler {
    let st = AtomicU64::new(seed | 1);
    Arc::new(move |_name: &'static str| {
        let mut x = st.load(Ordering::Relaxed);
        x ^= x << 13;
        x ^= x >> 7;
        x ^= x << 17;
        st.store(x, Ordering::Relaxed);
        match x % 8 {
            0 | 1 | 2 => std::thread::yield_now(),
            3 => std::thread::sleep(Duration::from_micros(20 + (x >> 8) % 200)),
            _ => {}
        }
    })
}
