//! Linearizability checking (Wing–Gong search with Lowe's memoisation) of one key's
//! sub-history against a register-with-delete model. Histories are partitioned by key by the
//! caller (a map is linearizable iff each key's sub-history is).

use std::collections::HashSet;

#[derive(Clone, Copy, Debug, PartialEq, Eq)]
pub enum Op {
    /// write value id
    Put(u64),
    /// read returned Some(id) / None (absent)
    Get(Option<u64>),
    /// delete; `Some(existed)` if the API reports whether the key existed, None if it does not
    Delete(Option<bool>),
    /// exists returned
    Exists(bool),
}

#[derive(Clone, Copy, Debug)]
pub struct Event {
    pub proc_id: u32,
    pub op: Op,
    /// logical tick taken immediately before the call
    pub inv: u64,
    /// logical tick taken immediately after the return; u64::MAX = never returned (stays open)
    pub res: u64,
}

#[derive(Debug, PartialEq, Eq)]
pub enum Verdict {
    Linearizable,
    NotLinearizable,
    /// step budget exhausted
    Inconclusive,
}

#[inline]
fn step(state: Option<u64>, op: Op, evicting: bool) -> Option<Option<u64>> {
    if evicting {
        // a cache may drop an entry at any moment: observing absence is always admissible and
        // leaves the register empty; everything else is the plain register
        match op {
            Op::Get(None) | Op::Exists(false) => return Some(None),
            _ => {}
        }
    }
    match op {
        Op::Put(v) => Some(Some(v)),
        Op::Get(r) => {
            if r == state {
                Some(state)
            } else {
                None
            }
        }
        Op::Delete(existed) => match existed {
            None => Some(None),
            Some(e) => {
                if e == state.is_some() {
                    Some(None)
                } else {
                    None
                }
            }
        },
        Op::Exists(b) => {
            if b == state.is_some() {
                Some(state)
            } else {
                None
            }
        }
    }
}

/// `initial` is the register's value before the history starts.
pub fn check(events: &[Event], initial: Option<u64>, max_steps: u64) -> Verdict {
    check_model(events, initial, max_steps, false)
}

/// `evicting = true`: register that may spontaneously lose its value (cache semantics).
pub fn check_model(events: &[Event], initial: Option<u64>, max_steps: u64, evicting: bool) -> Verdict {
    let n = events.len();
    if n == 0 {
        return Verdict::Linearizable;
    }
    if n > 128 {
        return Verdict::Inconclusive;
    }
    let all_completed: u128 = events
        .iter()
        .enumerate()
        .filter(|(_, e)| e.res != u64::MAX)
        .fold(0u128, |m, (i, _)| m | (1u128 << i));
    let mut memo: HashSet<(u128, Option<u64>)> = HashSet::new();
    let mut steps = 0u64;
    // iterative DFS
    let mut stack: Vec<(u128, Option<u64>)> = vec![(0, initial)];
    while let Some((done, state)) = stack.pop() {
        if done & all_completed == all_completed {
            return Verdict::Linearizable;
        }
        steps += 1;
        if steps > max_steps {
            return Verdict::Inconclusive;
        }
        // earliest response among not-yet-linearized operations
        let mut min_res = u64::MAX;
        for (i, e) in events.iter().enumerate() {
            if done & (1u128 << i) == 0 && e.res < min_res {
                min_res = e.res;
            }
        }
        for (i, e) in events.iter().enumerate() {
            if done & (1u128 << i) != 0 {
                continue;
            }
            // e may be linearized next only if no pending op responded before e was invoked
            if e.inv > min_res {
                continue;
            }
            if let Some(ns) = step(state, e.op, evicting) {
                let nd = done | (1u128 << i);
                if memo.insert((nd, ns)) {
                    stack.push((nd, ns));
                }
            }
        }
    }
    Verdict::NotLinearizable
}

#[cfg(test)]
mod tests {
    use super::*;
    fn ev(p: u32, op: Op, inv: u64, res: u64) -> Event {
        Event { proc_id: p, op, inv, res }
    }
    #[test]
    fn simple_ok() {
        let h = [ev(0, Op::Put(1), 0, 1), ev(1, Op::Get(Some(1)), 2, 3)];
        assert_eq!(check(&h, None, 1000), Verdict::Linearizable);
    }
    #[test]
    fn stale_read() {
        let h = [ev(0, Op::Put(1), 0, 1), ev(0, Op::Put(2), 2, 3), ev(1, Op::Get(Some(1)), 4, 5)];
        assert_eq!(check(&h, None, 1000), Verdict::NotLinearizable);
    }
    #[test]
    fn concurrent_ok() {
        let h = [ev(0, Op::Put(1), 0, 5), ev(1, Op::Get(None), 1, 2), ev(1, Op::Get(Some(1)), 3, 4)];
        assert_eq!(check(&h, None, 1000), Verdict::Linearizable);
    }
    #[test]
    fn open_op_may_take_effect() {
        let h = [ev(0, Op::Put(1), 0, u64::MAX), ev(1, Op::Get(Some(1)), 3, 4), ev(1, Op::Get(None), 5, 6)];
        assert_eq!(check(&h, None, 1000), Verdict::NotLinearizable);
        let h = [ev(0, Op::Put(1), 0, u64::MAX), ev(1, Op::Get(None), 3, 4), ev(1, Op::Get(Some(1)), 5, 6)];
        assert_eq!(check(&h, None, 1000), Verdict::Linearizable);
    }
}
