//! Counting global allocator: largest single request and live bytes between two marks.
//! A harness opts in with `#[global_allocator] static A: common::alloc::Counting = common::alloc::Counting;`
//! Tracking is a handful of relaxed atomics; it never remembers addresses, so leak detectors
//! (ASan/valgrind legs) are unaffected.

use std::alloc::{GlobalAlloc, Layout, System};
use std::sync::atomic::{AtomicUsize, Ordering};

pub struct Counting;

pub static LARGEST: AtomicUsize = AtomicUsize::new(0);
pub static LIVE: AtomicUsize = AtomicUsize::new(0);
pub static PEAK: AtomicUsize = AtomicUsize::new(0);
/// requests above this size are refused (returns null -> alloc error abort / try_reserve Err);
/// usize::MAX = never refuse.
pub static REFUSE_ABOVE: AtomicUsize = AtomicUsize::new(usize::MAX);

thread_local! {
    static T_LARGEST: std::cell::Cell<usize> = const { std::cell::Cell::new(0) };
}

unsafe impl GlobalAlloc for Counting {
    unsafe fn alloc(&self, l: Layout) -> *mut u8 {
        note(l.size());
        let p = System.alloc(l);
        if !p.is_null() {
            let live = LIVE.fetch_add(l.size(), Ordering::Relaxed) + l.size();
            PEAK.fetch_max(live, Ordering::Relaxed);
        }
        p
    }
    unsafe fn dealloc(&self, p: *mut u8, l: Layout) {
        LIVE.fetch_sub(l.size(), Ordering::Relaxed);
        System.dealloc(p, l)
    }
    unsafe fn alloc_zeroed(&self, l: Layout) -> *mut u8 {
        note(l.size());
        let p = System.alloc_zeroed(l);
        if !p.is_null() {
            let live = LIVE.fetch_add(l.size(), Ordering::Relaxed) + l.size();
            PEAK.fetch_max(live, Ordering::Relaxed);
        }
        p
    }
    unsafe fn realloc(&self, p: *mut u8, l: Layout, new: usize) -> *mut u8 {
        note(new);
        let q = System.realloc(p, l, new);
        if !q.is_null() {
            if new >= l.size() {
                let live = LIVE.fetch_add(new - l.size(), Ordering::Relaxed) + (new - l.size());
                PEAK.fetch_max(live, Ordering::Relaxed);
            } else {
                LIVE.fetch_sub(l.size() - new, Ordering::Relaxed);
            }
        }
        q
    }
}

#[inline]
fn note(sz: usize) {
    LARGEST.fetch_max(sz, Ordering::Relaxed);
    let _ = T_LARGEST.try_with(|c| {
        if sz > c.get() {
            c.set(sz)
        }
    });
}

/// reset the calling thread's "largest single request" mark
pub fn thread_mark() {
    let _ = T_LARGEST.try_with(|c| c.set(0));
}
/// largest single request made by the calling thread since `thread_mark`
pub fn thread_largest() -> usize {
    T_LARGEST.try_with(|c| c.get()).unwrap_or(0)
}
pub fn global_mark() {
    LARGEST.store(0, Ordering::Relaxed);
    PEAK.store(LIVE.load(Ordering::Relaxed), Ordering::Relaxed);
}
pub fn global_largest() -> usize {
    LARGEST.load(Ordering::Relaxed)
}
