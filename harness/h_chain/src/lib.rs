//! Shared pieces of the tensor_chain harnesses.

use async_trait::async_trait;
use parking_lot::Mutex;
use std::sync::Arc;
use tensor_chain::error::Result;
use tensor_chain::network::{Message, PeerConfig, Transport};
use tensor_chain::NodeId;

/// A transport that only records what the node under test wants to send. The simulator decides
/// what happens to every message (deliver, delay, duplicate, drop).
pub struct CaptureTransport {
    pub local: NodeId,
    pub peers: Vec<NodeId>,
    pub outbox: Mutex<Vec<(NodeId, Message)>>,
}

impl CaptureTransport {
    pub fn new(local: &str, peers: &[String]) -> Arc<Self> {
        Arc::new(Self { local: local.to_string(), peers: peers.to_vec(), outbox: Mutex::new(Vec::new()) })
    }
    pub fn drain(&self) -> Vec<(NodeId, Message)> {
        std::mem::take(&mut *self.outbox.lock())
    }
}

#[async_trait]
impl Transport for CaptureTransport {
    async fn send(&self, to: &NodeId, msg: Message) -> Result<()> {
        self.outbox.lock().push((to.clone(), msg));
        Ok(())
    }
    async fn broadcast(&self, msg: Message) -> Result<()> {
        let mut o = self.outbox.lock();
        for p in &self.peers {
            o.push((p.clone(), msg.clone()));
        }
        Ok(())
    }
    async fn recv(&self) -> Result<(NodeId, Message)> {
        // never used by the simulators: they call handle_message directly
        std::future::pending().await
    }
    async fn connect(&self, _peer: &PeerConfig) -> Result<()> {
        Ok(())
    }
    async fn disconnect(&self, _peer_id: &NodeId) -> Result<()> {
        Ok(())
    }
    fn peers(&self) -> Vec<NodeId> {
        self.peers.clone()
    }
    fn local_id(&self) -> &NodeId {
        &self.local
    }
}

pub fn install_hooks() {
    tensor_store::verif_hooks::set(common::sched::on_point);
}
