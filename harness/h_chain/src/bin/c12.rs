//! C12 — 2PC key locks: one holder at a time, none left behind, deadlocks detected.
//!
//! Everything below drives the real `LockManager`, `WaitForGraph`, `DeadlockDetector` and
//! `DistributedTxCoordinator` of tensor_chain; the harness only holds reference state that judges
//! what they did.
//!
//!  graph4     : all 4 096 digraphs on 4 transactions (12 possible wait edges), each built three
//!               times (different transaction ids / insertion orders, fresh hash seeds) through
//!               `WaitForGraph::add_wait` and through `DeadlockDetector::graph()` under every victim
//!               policy. Oracle: reference Tarjan SCC over the edges the harness added.
//!  graphN     : random digraphs on 2–8 transactions (G(n,p), rings up to length 8, DAGs, DAG + one
//!               back edge, two rings with one-way bridges), same oracle.
//!  graph-prog : random programs of add_wait / remove_wait / remove_transaction / clear /
//!               cleanup_stale_edges over <= 8 transactions with the oracle (forward view
//!               waiting_for, reverse view waiting_on, transaction_count bounds, detection) after
//!               every step. One case in three really ages waits (TTL 4 ms, naps of 6 ms): an expiry
//!               may drop only relations that involve a transaction not provably younger than the
//!               TTL, the reference continues from the forward view and the reverse view must agree.
//!  locks-seq  : sequential model-based programs over 4–8 keys and up to 5 live transactions:
//!               try_lock, try_lock_with_wait_tracking, release, release_by_handle(_with_wait_
//!               cleanup), cleanup_expired(_with_wait_cleanup), to_serializable/from_serializable
//!               round trips (direct and through bitcode), expiry. Expiry is produced two ways:
//!               (a) "downtime": the serialized lock state is restored with `acquired_at_ms` of some
//!               locks moved 100 timeouts into the past (timeout 10 s: no ambiguity); (b) real time:
//!               timeout 30 ms and sleeps of 330 ms. Every lock's status at every call is derived
//!               from wall-clock readings taken by the harness before/after the calls
//!               (definitely-live / definitely-expired / ambiguous = don't-care).
//!  coord      : sequential programs through the real `DistributedTxCoordinator` (begin,
//!               handle_prepare + record_vote, commit, abort, complete_abort, cleanup_timeouts with
//!               three timeout regimes, release_orphaned_locks with planted orphans). A shard's
//!               prepare runs either at the coordinator or at a real remote `TxParticipant` (then
//!               only the vote and its delta reach the coordinator), and requests carry zero /
//!               parallel / anti-parallel / orthogonal delta embeddings, so that prepares are also
//!               refused at the semantic stage that follows the lock stage. A reference
//!               table key -> grantee judges every vote (held key => conflict naming a holder) and
//!               every key's holder after every step; after every completion (commit / abort /
//!               timeout) the transaction must hold no lock and be absent, as waiter and as holder,
//!               from the coordinator's wait-for graph. The same holds for every pending, not
//!               Committing transaction whose deadline had passed for certain when a
//!               cleanup_timeouts sweep ran (e.g. one left Aborting by mixed votes that nobody
//!               aborts), whether or not the sweep lists it. The PREPARE of a shard that was
//!               prepared at the coordinator is also delivered again (retransmission / duplicate
//!               delivery) while the transaction is pending; the oracle is unchanged: whatever the
//!               transaction was granted, nothing of it may remain after its completion.
//!  participant: sequential programs at one real `TxParticipant` (its own LockManager): PREPARE -
//!               the first one, the same request delivered again while prepared, or a late
//!               duplicate after the transaction was finished there -, COMMIT / ABORT (also stray and
//!               duplicate ones), the participant's own timeouts cleanup_stale / recover (timeout 0,
//!               1 h, and 25 ms against naps of 40 ms) and save_to_store / load_from_store. Requests
//!               mix operation kinds whose stored entries coincide (Put{"table:k"} / TableInsert{k}).
//!               A reference table key -> prepared transaction judges every vote (a requested key
//!               held by another prepared transaction => Conflict naming a holder, nothing granted;
//!               YES => every requested key held by the requester) and every key's holder after
//!               every step; when a transaction commits, aborts or times out at the participant no
//!               lock of it remains (lock table, keys_for_transaction), however often its PREPARE was
//!               answered.
//!  participant-lease: the same programs at one real `TxParticipant`, with the dimension the part above
//!               lacks: the key locks' leases run out while the prepared entries stay (no cleanup_stale /
//!               recover in between), so that a key may be taken over by another transaction's PREPARE
//!               and the first transaction's PREPARE may then be delivered again. Leases run out (a)
//!               during a "downtime": the participant's lock table is restored (directly or through
//!               bitcode) with the locks of one holder / all / one key 100 leases older, the prepared
//!               entries untouched; (b) one case in six, in real time: PREPAREs are granted 25 ms or
//!               120 s leases (`locks.default_timeout`) and the program naps 40 ms. The reference keeps,
//!               per key, the grantee and the harness' clock readings around every grant that may be the
//!               one in force (a retransmission answered YES while the key was still held may or may not
//!               have renewed the lease: both grants stay candidates) and derives definitely-live /
//!               definitely-run-out / undecidable (= not judged) at every call. Oracle as in part
//!               participant, with "held" meaning "granted and the lease definitely running": a PREPARE
//!               - first or retransmitted - that meets a key held by another transaction is refused with
//!               a conflict naming a holder, YES leaves every requested key held by the requester, a
//!               lock whose lease ran out neither blocks nor is reported, and nothing of a finished
//!               transaction remains. Runnable alone (`--part participant-lease`).
//!  coord-lease: the programs of part coord with one more operation: the coordinator is saved to a
//!               store, the leases of some key locks run out (the persisted lock table is rewritten with
//!               these locks 100 leases older; pending transactions as saved) and it is loaded again
//!               (`save_to_store` / `load_from_store`). Requests then prefer keys whose lease ran out
//!               (take-over) and retransmissions go preferably to transactions that lost a lease. Same
//!               oracle as coord, a key whose lease ran out counting as held by nobody. Runnable alone.
//!  coord-threads: 2-5 OS threads run transaction life cycles (begin, handle_prepare + record_vote per
//!               shard, then commit / abort / complete_abort) over 4-12 shared keys (+ optionally
//!               4-32 private keys per prepare) through ONE real coordinator, while another thread
//!               keeps calling release_orphaned_locks (partition start 0 / now + 60 s / u64::MAX) and
//!               plants orphan locks. No transaction can time out (1 h) or expire (30 s lease, cases
//!               take milliseconds; anything older than 8 s is not judged). Oracle: (a) a shadow owner
//!               mark per key, set after a YES vote returned and cleared before the owner's
//!               completion call: a YES vote on a key marked by another transaction is a grant over a
//!               held key; (b) a pending transaction (only its own thread completes it) still holds
//!               every key it was granted; (c) after its completion it holds nothing and is neither
//!               waiter nor holder in the wait-for graph; (d) planted orphans are gone after a sweep
//!               and survive release_orphaned_locks(0); (e) at quiescence the lock table and the
//!               wait-for graph are empty. The orphan sweep and the completion calls are kept apart
//!               by a harness gate (they take `pending` and the lock tables in opposite orders and
//!               can block each other for good, which is outside this property); sweeps overlap
//!               begin / handle_prepare / record_vote freely. Runnable alone (`--part coord-threads`).
//!  threads    : 2–6 OS threads run transaction life cycles over 4–8 keys on one LockManager (+ one
//!               WaitForGraph), long timeouts; a shadow owner table is written *after* a grant and
//!               cleared *before* a release, so a shadow overlap implies a real overlap. A sweeper
//!               calls cleanup_expired* concurrently. One case in six uses a 40 ms timeout with
//!               abandoned transactions (expiry + take-over races); there a shadow overlap only
//!               counts if the harness' own clock readings prove the earlier holder unexpired.
//!               Runnable alone with `--part threads` (TSan leg).
//!  takeover-threads: the dimension the two threaded parts above lack: locks whose lease ran out are
//!               taken over WHILE the expiry sweeps and the late completions of their old owners run.
//!               Every round restores a lock table as a restarted node loads it (directly or through
//!               bitcode): 8-96 (thorough: up to 256) keys, most of them locked by 1-7 transactions
//!               from before a downtime whose leases ran out 100 leases ago, some by old transactions
//!               with a fresh 1 h lease, some free; new grants get 1 h leases and a round takes well
//!               under a second, so no expiry status is ever ambiguous (a round older than 300 s is
//!               not judged). 1-4 taker threads walk the keys (each request of 1-3 keys is one new
//!               transaction; try_lock / try_lock_with_wait_tracking), keep what they are granted or
//!               complete it later (release / release_by_handle[_with_wait_cleanup]); 1-2 maintenance
//!               threads begin somewhere inside the walks (they watch a progress counter: scheduling
//!               only) and run cleanup_expired / cleanup_expired_with_wait_cleanup, the late completion
//!               of the old transactions (release(tx), release_by_handle[_with_wait_cleanup] of their
//!               old handles), to_serializable and detect_cycles. Oracle: (a) shadow owner mark per key
//!               (set after a grant returned - planted live locks from the start -, cleared before
//!               the owner's release call): a grant on a key marked by another transaction is a grant
//!               over a held key; (b) a transaction that has not released still holds every key it was
//!               granted - read right after the grant, before its own completion and for every key at
//!               quiescence (lock_holder, keys_for_transaction); a key nobody holds is reported as
//!               held by nobody; (c) a refusal names neither the requester nor a transaction all of
//!               whose leases ran out, and grants nothing; (d) after its completion a transaction
//!               holds nothing, and when all completed / were swept the lock table is empty and no
//!               transaction is indexed. Runnable alone (`--part takeover-threads`).
//!  witness    : (`--part witness` only) the minimal programs behind the findings of this check.
//!
//! Violations of a class the reference model can account for exactly (a stale reverse-index entry
//! after an expired lock was taken over; an aborted / timed-out transaction left as waiter in the
//! coordinator's graph) are reported once per case at its end and the program continues, so that a
//! known defect does not hide what lies behind it. Every other violation ends its case. The same
//! holds for the locks a completed transaction keeps at the coordinator because its PREPARE was
//! delivered again after the shard's vote was recorded (`...:handle-of-retransmitted-prepare`; the
//! harness then drops these locks itself and goes on).

use common::*;
use parking_lot::Mutex;
use serde_json::{json, Value};
use std::collections::{BTreeMap, BTreeSet};
use std::sync::atomic::{AtomicBool, AtomicU64, Ordering};
use std::sync::Barrier;
use std::time::{Duration, Instant, SystemTime, UNIX_EPOCH};
use tensor_chain::block::Transaction;
use tensor_chain::consensus::ConsensusManager;
use tensor_chain::deadlock::{DeadlockDetector, DeadlockDetectorConfig, VictimSelectionPolicy, WaitForGraph};
use tensor_chain::distributed_tx::{
    CoordinatorState, DistributedTxConfig, DistributedTxCoordinator, KeyLock, LockManager, PrepareRequest, PrepareVote,
    SerializableLockState, TxParticipant, TxPhase,
};
use tensor_store::SparseVector;

// ------------------------------------------------------------------------------------------------
// small helpers
// ------------------------------------------------------------------------------------------------

struct Fail {
    sig: String,
    detail: String,
}
impl Fail {
    fn new(sig: String, detail: String) -> Fail {
        Fail { sig, detail }
    }
}
type Ck = Result<(), Fail>;
fn fail<T>(sig: impl Into<String>, detail: impl Into<String>) -> Result<T, Fail> {
    Err(Fail { sig: sig.into(), detail: detail.into() })
}

fn now_ms() -> u64 {
    SystemTime::now().duration_since(UNIX_EPOCH).unwrap_or_default().as_millis() as u64
}
fn kname(i: usize) -> String {
    format!("k{}", i)
}

// ------------------------------------------------------------------------------------------------
// reference digraph: Tarjan SCC, reachability, cycle validity
// ------------------------------------------------------------------------------------------------

type Edges = BTreeSet<(u64, u64)>;

fn succ(e: &Edges, n: u64) -> BTreeSet<u64> {
    e.range((n, 0)..=(n, u64::MAX)).map(|&(_, b)| b).collect()
}
fn pred(e: &Edges, n: u64) -> BTreeSet<u64> {
    e.iter().filter(|&&(_, b)| b == n).map(|&(a, _)| a).collect()
}

struct Tarjan<'a> {
    e: &'a Edges,
    index: BTreeMap<u64, usize>,
    low: BTreeMap<u64, usize>,
    on: BTreeSet<u64>,
    stack: Vec<u64>,
    next: usize,
    out: Vec<Vec<u64>>,
}
impl Tarjan<'_> {
    fn visit(&mut self, v: u64) {
        self.index.insert(v, self.next);
        self.low.insert(v, self.next);
        self.next += 1;
        self.stack.push(v);
        self.on.insert(v);
        for w in succ(self.e, v) {
            if !self.index.contains_key(&w) {
                self.visit(w);
                let lw = self.low[&w];
                let lv = self.low[&v];
                self.low.insert(v, lv.min(lw));
            } else if self.on.contains(&w) {
                let iw = self.index[&w];
                let lv = self.low[&v];
                self.low.insert(v, lv.min(iw));
            }
        }
        if self.low[&v] == self.index[&v] {
            let mut comp = Vec::new();
            loop {
                let w = self.stack.pop().unwrap();
                self.on.remove(&w);
                comp.push(w);
                if w == v {
                    break;
                }
            }
            self.out.push(comp);
        }
    }
}
/// strongly connected components of the recorded edges (graphs here have <= 8 nodes)
fn sccs(nodes: &[u64], e: &Edges) -> Vec<Vec<u64>> {
    let mut all: BTreeSet<u64> = nodes.iter().copied().collect();
    for &(a, b) in e {
        all.insert(a);
        all.insert(b);
    }
    let mut t = Tarjan { e, index: BTreeMap::new(), low: BTreeMap::new(), on: BTreeSet::new(), stack: vec![], next: 0, out: vec![] };
    for v in all {
        if !t.index.contains_key(&v) {
            t.visit(v);
        }
    }
    t.out
}
/// the recorded relations contain a cycle (self-waits are never recorded: `add_wait` documents
/// them as invalid and the reference does not record them either)
fn ref_cyclic(nodes: &[u64], e: &Edges) -> bool {
    sccs(nodes, e).iter().any(|c| c.len() >= 2)
}
fn reaches(e: &Edges, from: u64, to: u64) -> bool {
    let mut seen = BTreeSet::new();
    let mut st = vec![from];
    while let Some(x) = st.pop() {
        if x == to {
            return true;
        }
        if seen.insert(x) {
            st.extend(succ(e, x));
        }
    }
    false
}
/// `c` is a simple cycle of recorded edges: distinct nodes, every consecutive pair and the
/// closing pair recorded
fn cycle_ok(c: &[u64], e: &Edges) -> bool {
    if c.is_empty() {
        return false;
    }
    let set: BTreeSet<u64> = c.iter().copied().collect();
    if set.len() != c.len() {
        return false;
    }
    (0..c.len()).all(|i| e.contains(&(c[i], c[(i + 1) % c.len()])))
}
fn edges_json(e: &Edges) -> Value {
    json!(e.iter().map(|&(a, b)| format!("{}->{}", a, b)).collect::<Vec<_>>())
}

// ------------------------------------------------------------------------------------------------
// oracle over a real WaitForGraph / DeadlockDetector
// ------------------------------------------------------------------------------------------------

/// recorded edges as the graph itself reports them + detect_cycles + would_create_cycle
fn check_graph(g: &WaitForGraph, nodes: &[u64], e: &Edges, r: &mut Report) -> Ck {
    for &n in nodes {
        let wf: BTreeSet<u64> = g.waiting_for(n).into_iter().collect();
        if wf != succ(e, n) {
            return fail(
                "graph:waiting_for-differs-from-recorded-edges",
                format!("waiting_for({}) = {:?}, recorded {:?}; edges {}", n, wf, succ(e, n), edges_json(e)),
            );
        }
        let wo: BTreeSet<u64> = g.waiting_on(n).into_iter().collect();
        if wo != pred(e, n) {
            return fail(
                "graph:waiting_on-differs-from-recorded-edges",
                format!("waiting_on({}) = {:?}, recorded {:?}; edges {}", n, wo, pred(e, n), edges_json(e)),
            );
        }
    }
    let cyc = g.detect_cycles();
    r.count("detect_cycles_calls", 1);
    r.count("cycles_reported", cyc.len() as u64);
    let want = ref_cyclic(nodes, e);
    if want {
        r.count("graphs_with_cycle", 1);
    } else {
        r.count("graphs_without_cycle", 1);
    }
    if cyc.is_empty() && want {
        return fail("detect_cycles:missed-cycle", format!("no cycle reported; reference SCCs {:?}; edges {}", sccs(nodes, e), edges_json(e)));
    }
    if !cyc.is_empty() && !want {
        return fail("detect_cycles:phantom-cycle", format!("reported {:?} on an acyclic graph; edges {}", cyc, edges_json(e)));
    }
    for c in &cyc {
        r.count_max("max:cycle_len", c.len() as u64);
        if !cycle_ok(c, e) {
            return fail(
                "detect_cycles:reported-cycle-is-not-a-cycle-of-recorded-edges",
                format!("reported {:?}; edges {}", c, edges_json(e)),
            );
        }
    }
    for &w in nodes {
        for &h in nodes {
            if w == h {
                continue;
            }
            let got = g.would_create_cycle(w, h);
            r.count("would_create_cycle_calls", 1);
            if got != reaches(e, h, w) {
                return fail(
                    "would_create_cycle:wrong-answer",
                    format!("would_create_cycle({}, {}) = {}, but path {}->*{} exists = {}; edges {}", w, h, got, h, w, !got, edges_json(e)),
                );
            }
        }
    }
    Ok(())
}

fn check_detector(det: &DeadlockDetector, nodes: &[u64], e: &Edges, what: &str, r: &mut Report) -> Ck {
    let infos = det.detect();
    r.count("detect_calls", 1);
    let want = ref_cyclic(nodes, e);
    if infos.is_empty() && want {
        return fail("detect:missed-deadlock", format!("[{}] detect() empty; reference SCCs {:?}; edges {}", what, sccs(nodes, e), edges_json(e)));
    }
    if !infos.is_empty() && !want {
        return fail(
            "detect:phantom-deadlock",
            format!("[{}] detect() reported {:?} on an acyclic graph; edges {}", what, infos.iter().map(|i| i.cycle.clone()).collect::<Vec<_>>(), edges_json(e)),
        );
    }
    for i in &infos {
        r.count("deadlocks_reported", 1);
        if !cycle_ok(&i.cycle, e) {
            return fail("detect:reported-cycle-is-not-a-cycle-of-recorded-edges", format!("[{}] cycle {:?}; edges {}", what, i.cycle, edges_json(e)));
        }
        if !i.cycle.contains(&i.victim_tx_id) {
            return fail("victim:not-on-reported-cycle", format!("[{}] victim {} for cycle {:?}; edges {}", what, i.victim_tx_id, i.cycle, edges_json(e)));
        }
        r.count("victims_checked", 1);
    }
    for c in det.graph().detect_cycles() {
        let v = det.select_victim(&c);
        r.count("victims_checked", 1);
        if !c.contains(&v) {
            return fail("select_victim:not-on-cycle", format!("[{}] select_victim({:?}) = {}; edges {}", what, c, v, edges_json(e)));
        }
    }
    Ok(())
}

const POLICIES: [(&str, VictimSelectionPolicy, bool); 5] = [
    ("youngest", VictimSelectionPolicy::Youngest, false),
    ("oldest", VictimSelectionPolicy::Oldest, false),
    ("lowest-priority", VictimSelectionPolicy::LowestPriority, false),
    ("most-locks+fn", VictimSelectionPolicy::MostLocks, true),
    ("most-locks-no-fn", VictimSelectionPolicy::MostLocks, false),
];

fn make_detector(which: usize, rng: &mut Rng) -> DeadlockDetector {
    let (_, pol, with_fn) = POLICIES[which % POLICIES.len()];
    // cycle-length cap far above 8 (the statement's bound) so that the cap never filters; cascade
    // depth varies (0 = every cycle gets its own report)
    let cfg = DeadlockDetectorConfig::default().with_policy(pol).with_max_cycle_length(64).with_victim_cascade_depth(rng.below(4) as u32);
    let mut d = DeadlockDetector::new(cfg);
    if with_fn {
        let salt = rng.next_u64();
        d.set_lock_count_fn(move |tx| (hash_combine(salt, tx) % 5) as usize);
    }
    d
}

/// add the edges in the given order; some waits carry a priority
fn build_graph(g: &WaitForGraph, order: &[(u64, u64)], rng: &mut Rng, slow: bool) {
    for &(a, b) in order {
        let p = if rng.chance(1, 2) { Some(rng.below(10) as u32) } else { None };
        g.add_wait(a, b, p);
        if slow && rng.chance(1, 3) {
            std::thread::sleep(Duration::from_millis(2)); // distinct wait-start stamps
        }
    }
}

fn one_static_graph(nodes: &[u64], e: &Edges, rng: &mut Rng, slow: bool, r: &mut Report) -> Ck {
    let mut order: Vec<(u64, u64)> = e.iter().copied().collect();
    rng.shuffle(&mut order);
    // duplicates and self-waits do not change the recorded relation
    let mut with_noise = order.clone();
    if rng.chance(1, 3) && !order.is_empty() {
        let x = order[rng.below(order.len())];
        with_noise.insert(rng.below(with_noise.len() + 1), x);
    }
    if rng.chance(1, 4) {
        let n = nodes[rng.below(nodes.len())];
        with_noise.insert(rng.below(with_noise.len() + 1), (n, n));
    }
    let g = WaitForGraph::new();
    build_graph(&g, &with_noise, rng, false);
    check_graph(&g, nodes, e, r)?;
    for which in 0..POLICIES.len() {
        let det = make_detector(which, rng);
        rng.shuffle(&mut order);
        build_graph(det.graph(), &order, rng, slow && which < 2);
        check_graph(det.graph(), nodes, e, r)?;
        check_detector(&det, nodes, e, POLICIES[which].0, r)?;
    }
    Ok(())
}

// ---- graph4: exhaustive over 4 transactions -----------------------------------------------------

fn pairs4() -> Vec<(usize, usize)> {
    let mut v = Vec::new();
    for a in 0..4 {
        for b in 0..4 {
            if a != b {
                v.push((a, b));
            }
        }
    }
    v
}

fn graph4_case(mask: u64, case_seed: u64, reps: usize, r: &mut Report) -> bool {
    let mut rng = Rng::new(case_seed ^ mask.wrapping_mul(0x9E37_79B9));
    let pairs = pairs4();
    for rep in 0..reps {
        let labels: Vec<u64> = match rep % 3 {
            0 => vec![1, 2, 3, 4],
            1 => {
                let mut s = BTreeSet::new();
                while s.len() < 4 {
                    s.insert(rng.next_u64() | 1);
                }
                let mut v: Vec<u64> = s.into_iter().collect();
                rng.shuffle(&mut v);
                v
            }
            _ => {
                let mut v = vec![10, 20, 30, 40];
                rng.shuffle(&mut v);
                v
            }
        };
        let mut e = Edges::new();
        for (i, &(a, b)) in pairs.iter().enumerate() {
            if mask & (1 << i) != 0 {
                e.insert((labels[a], labels[b]));
            }
        }
        if let Err(f) = one_static_graph(&labels, &e, &mut rng, false, r) {
            r.violation(f.sig, format!("graph4 mask {:#05x} labels {:?}: {}", mask, labels, f.detail), json!({"part": "graph4", "mask": mask, "case_seed": case_seed}));
            return false;
        }
    }
    r.eval(mask, mask != 0);
    r.count("graph4_graphs", 1);
    true
}

// ---- graphN: random graphs on up to 8 transactions ----------------------------------------------

fn random_graph(rng: &mut Rng) -> (Vec<u64>, Edges, &'static str) {
    let n = 2 + rng.below(7); // 2..=8
    let mut ids = BTreeSet::new();
    let big = rng.chance(1, 3);
    while ids.len() < n {
        ids.insert(if big { rng.next_u64() | 1 } else { 1 + rng.below(40) as u64 });
    }
    let mut nodes: Vec<u64> = ids.into_iter().collect();
    rng.shuffle(&mut nodes);
    let mut e = Edges::new();
    let shape = rng.below(5);
    let name = match shape {
        0 => {
            let p = *rng.pick(&[8u32, 15, 25, 40, 70]);
            for &a in &nodes {
                for &b in &nodes {
                    if a != b && rng.chance(p, 100) {
                        e.insert((a, b));
                    }
                }
            }
            "gnp"
        }
        1 => {
            for i in 0..n {
                e.insert((nodes[i], nodes[(i + 1) % n]));
            }
            for i in 0..n {
                for j in i + 2..n {
                    if rng.chance(1, 6) {
                        e.insert((nodes[i], nodes[j]));
                    }
                }
            }
            "ring"
        }
        2 | 3 => {
            let p = *rng.pick(&[30u32, 60, 100]);
            for i in 0..n {
                for j in i + 1..n {
                    if rng.chance(p, 100) {
                        e.insert((nodes[i], nodes[j]));
                    }
                }
            }
            if shape == 3 && n >= 2 {
                let i = rng.below(n - 1);
                let j = i + 1 + rng.below(n - i - 1);
                e.insert((nodes[j], nodes[i]));
                "dag+back-edge"
            } else {
                "dag"
            }
        }
        _ => {
            let cut = 1 + rng.below(n - 1);
            let (a, b) = nodes.split_at(cut);
            for part in [a, b] {
                if part.len() >= 2 {
                    for i in 0..part.len() {
                        e.insert((part[i], part[(i + 1) % part.len()]));
                    }
                }
            }
            for &x in a {
                for &y in b {
                    if rng.chance(1, 4) {
                        e.insert((x, y));
                    }
                }
            }
            "two-rings+bridges"
        }
    };
    (nodes, e, name)
}

fn graph_n_case(case_seed: u64, r: &mut Report) -> bool {
    let mut rng = Rng::new(case_seed);
    let (nodes, e, shape) = random_graph(&mut rng);
    let slow = rng.chance(1, 40);
    if let Err(f) = one_static_graph(&nodes, &e, &mut rng, slow, r) {
        r.violation(f.sig, format!("graphN ({}) nodes {:?}: {}", shape, nodes, f.detail), json!({"part": "graphN", "case_seed": case_seed}));
        return false;
    }
    let mut h = 11u64;
    for &(a, b) in &e {
        h = hash_combine(h, hash_combine(a, b));
    }
    r.eval(h, e.len() >= 2);
    r.count("graphN_graphs", 1);
    r.count(&format!("graphN_shape[{}]", shape), 1);
    r.count_max("max:graphN_nodes", nodes.len() as u64);
    if r.want_sample() && nodes.len() >= 6 && ref_cyclic(&nodes, &e) {
        r.sample(json!({"part": "graphN", "shape": shape, "nodes": nodes, "edges": edges_json(&e), "reference_sccs": sccs(&nodes, &e)}));
    }
    true
}

// ---- graph-prog: dynamic programs ---------------------------------------------------------------

fn graph_prog_inner(case_seed: u64, r: &mut Report) -> Result<(u64, usize), Fail> {
    let mut rng = Rng::new(case_seed);
    let n = 2 + rng.below(7);
    let nodes: Vec<u64> = (0..n as u64).map(|i| 100 + i * 7).collect();
    let which = rng.below(POLICIES.len() + 1);
    let det = make_detector(which, &mut rng);
    let standalone = WaitForGraph::new();
    let use_det = which < POLICIES.len();
    let g: &WaitForGraph = if use_det { det.graph() } else { &standalone };
    let mut e = Edges::new();
    let steps = 8 + rng.below(50);
    let mut trace: Vec<String> = Vec::new();
    // one case in three lets wait edges really age past a small TTL (naps of 6 ms, TTL 4 ms).
    // `first_wait[tx]` = harness clock before the earliest add_wait(tx, _) since tx was last
    // removed for certain (remove_transaction / clear): the graph's own wait-start stamp of tx is
    // never older than that, so "t - first_wait <= ttl" proves tx is not stale.
    let timed = rng.chance(1, 3);
    let ttl: u64 = if timed { 4 } else { 3_600_000 };
    let mut first_wait: BTreeMap<u64, u64> = BTreeMap::new();
    let mut naps = 0;
    for _ in 0..steps {
        let a = nodes[rng.below(n)];
        let b = nodes[rng.below(n)];
        match rng.weighted(&[50, 14, 14, 2, if timed { 8 } else { 3 }, if timed { 5 } else { 0 }]) {
            0 => {
                let p = if rng.bool() { Some(rng.below(9) as u32) } else { None };
                let before = now_ms();
                g.add_wait(a, b, p);
                if a != b {
                    e.insert((a, b));
                    first_wait.entry(a).or_insert(before);
                }
                trace.push(format!("add_wait({},{})", a, b));
                r.count("graph_op[add_wait]", 1);
            }
            1 => {
                g.remove_wait(a, b);
                e.remove(&(a, b));
                trace.push(format!("remove_wait({},{})", a, b));
                r.count("graph_op[remove_wait]", 1);
            }
            2 => {
                g.remove_transaction(a);
                e.retain(|&(x, y)| x != a && y != a);
                first_wait.remove(&a);
                trace.push(format!("remove_transaction({})", a));
                r.count("graph_op[remove_transaction]", 1);
                // the statement's clause, literally: neither waiter nor holder any more
                if !g.waiting_for(a).is_empty() || !g.waiting_on(a).is_empty() || nodes.iter().any(|&u| g.waiting_for(u).contains(&a) || g.waiting_on(u).contains(&a)) {
                    return fail(
                        "graph:removed-transaction-still-in-wait-graph",
                        format!("after {:?}: tx {} still waiter/holder: waiting_for {:?} waiting_on {:?}; named by {:?}", trace, a, g.waiting_for(a), g.waiting_on(a), nodes.iter().filter(|&&u| g.waiting_for(u).contains(&a) || g.waiting_on(u).contains(&a)).collect::<Vec<_>>()),
                    );
                }
            }
            3 => {
                g.clear();
                e.clear();
                first_wait.clear();
                trace.push("clear".into());
                r.count("graph_op[clear]", 1);
            }
            4 => {
                // expiry of stale waits. Which relations an expiry drops is the graph's business
                // (the statement is silent), within two limits: nothing appears, and nothing that
                // involves only transactions provably younger than the TTL disappears. The
                // reference then continues from the forward view the graph reports; the reverse
                // view and the detector are judged against it below.
                let removed_n = g.cleanup_stale_edges(ttl);
                let t1 = now_ms();
                let maybe_stale: BTreeSet<u64> = first_wait.iter().filter(|(_, &s0)| t1.saturating_sub(s0) > ttl).map(|(t, _)| *t).collect();
                let mut now_e = Edges::new();
                for &u in &nodes {
                    for v in g.waiting_for(u) {
                        now_e.insert((u, v));
                    }
                }
                trace.push(format!("cleanup_stale_edges({} ms) -> {}", ttl, removed_n));
                r.count("graph_op[cleanup_stale_edges]", 1);
                if let Some(x) = now_e.iter().find(|x| !e.contains(x)) {
                    return fail("cleanup_stale_edges:wait-edge-appeared", format!("after {:?}: {}->{} reported but never recorded; recorded {}", trace, x.0, x.1, edges_json(&e)));
                }
                let gone: Vec<(u64, u64)> = e.iter().filter(|x| !now_e.contains(x)).copied().collect();
                if let Some(x) = gone.iter().find(|(a, b)| !maybe_stale.contains(a) && !maybe_stale.contains(b)) {
                    return fail(
                        "cleanup_stale_edges:removed-wait-younger-than-ttl",
                        format!("after {:?}: {}->{} dropped although both transactions started waiting at most {} ms ago (ttl {} ms)", trace, x.0, x.1, t1.saturating_sub(first_wait.get(&x.0).copied().unwrap_or(t1)), ttl),
                    );
                }
                if !gone.is_empty() {
                    r.count("stale_sweeps_that_dropped_edges", 1);
                    r.count("wait_edges_dropped_as_stale", gone.len() as u64);
                }
                e = now_e;
            }
            _ => {
                if naps < 4 {
                    naps += 1;
                    std::thread::sleep(Duration::from_millis(6));
                    trace.push("nap 6 ms".into());
                }
            }
        }
        // transaction_count counts map entries, also empty ones (a waiter whose holder was removed
        // keeps an empty entry on the unchanged tree), so only bounds are sound: every transaction
        // with a recorded edge is counted, and nothing outside this program's transactions is
        let tc = g.transaction_count();
        let touching: BTreeSet<u64> = e.iter().flat_map(|&(x, y)| [x, y]).collect();
        if tc < touching.len() || tc > n {
            return fail(
                "graph:transaction_count-outside-bounds",
                format!("after {:?}: transaction_count = {}, transactions with a recorded edge {}, transactions in the program {}", trace, tc, touching.len(), n),
            );
        }
        let res = check_graph(g, &nodes, &e, r).and_then(|_| if use_det { check_detector(&det, &nodes, &e, POLICIES[which].0, r) } else { Ok(()) });
        if let Err(f) = res {
            return fail(f.sig, format!("after program {:?}: {}", trace, f.detail));
        }
    }
    Ok((hash_str(&trace.join(";")), trace.len()))
}

fn graph_prog_case(case_seed: u64, r: &mut Report) -> bool {
    match graph_prog_inner(case_seed, r) {
        Ok((h, len)) => {
            r.eval(h, len >= 8);
            r.count("graph_programs", 1);
            true
        }
        Err(f) => {
            r.violation(f.sig, f.detail, json!({"part": "graph-prog", "case_seed": case_seed}));
            false
        }
    }
}

// ------------------------------------------------------------------------------------------------
// locks-seq: sequential model-based programs
// ------------------------------------------------------------------------------------------------

#[derive(Clone, Debug)]
struct MLock {
    tx: u64,
    handle: u64,
    /// harness clock before / after the granting call (the code's stamp lies in between)
    a0: u64,
    a1: u64,
}
#[derive(Clone, Copy, Debug, PartialEq, Eq)]
enum St {
    Live,
    Expired,
    Ambig,
}

struct Seq {
    lm: LockManager,
    graph: WaitForGraph,
    t_ms: u64,
    nkeys: usize,
    tracked_mode: bool,
    locks: BTreeMap<usize, MLock>,
    /// (former owner, key): the owner's expired lock on key was overwritten by another
    /// transaction's grant; the former owner's entry in the reverse index was not touched by
    /// any call since
    taken_over: BTreeSet<(u64, usize)>,
    handles: BTreeMap<u64, Vec<u64>>,
    all_tx: Vec<u64>,
    active: Vec<u64>,
    next_tx: u64,
    trace: Vec<String>,
    ambiguous: u64,
    /// violations of a class the model can account for: reported at the end of the case, the
    /// program goes on (so that one known defect does not hide everything behind it)
    soft: Vec<Fail>,
}

impl Seq {
    fn status(&self, l: &MLock, t0: u64, t1: u64) -> St {
        // the code: expired <=> now - acquired > timeout, with a0 <= acquired <= a1, t0 <= now <= t1
        if t1.saturating_sub(l.a0) < self.t_ms {
            St::Live
        } else if t0.saturating_sub(l.a1) > self.t_ms + 1 {
            St::Expired
        } else {
            St::Ambig
        }
    }
    fn model_json(&self) -> Value {
        json!(self.locks.iter().map(|(k, l)| format!("{}:tx{}/h{}", kname(*k), l.tx, l.handle)).collect::<Vec<_>>())
    }
    fn ctx(&self) -> String {
        format!("timeout {} ms, tracked_mode {}, program {:?}, model {}", self.t_ms, self.tracked_mode, self.trace, self.model_json())
    }

    /// every key, through the public observers, against the model
    fn observe(&mut self, after: &str, r: &mut Report) -> Ck {
        for k in 0..self.nkeys {
            let name = kname(k);
            let t0 = now_ms();
            let h = self.lm.lock_holder(&name);
            let il = self.lm.is_locked(&name);
            let t1 = now_ms();
            r.count("holder_reads_checked", 1);
            match self.locks.get(&k) {
                None => {
                    if h.is_some() || il {
                        return fail(
                            format!("observe:holder-reported-for-key-nobody-holds{}", after),
                            format!("{}: lock_holder = {:?}, is_locked = {}; {}", name, h, il, self.ctx()),
                        );
                    }
                }
                Some(l) => match self.status(l, t0, t1) {
                    St::Live => {
                        if h != Some(l.tx) || !il {
                            let sig = if h.is_some() && h != Some(l.tx) { "exclusion:holder-differs-from-grantee" } else { "observe:live-lock-not-reported" };
                            return fail(
                                format!("{}{}", sig, after),
                                format!("{}: granted to tx {} (handle {}), lock_holder = {:?}, is_locked = {}; {}", name, l.tx, l.handle, h, il, self.ctx()),
                            );
                        }
                    }
                    St::Expired => {
                        if h.is_some() || il {
                            return fail(
                                format!("left-behind:expired-lock-still-reported-held{}", after),
                                format!("{}: lock of tx {} expired (age >= {} ms), lock_holder = {:?}, is_locked = {}; {}", name, l.tx, t0.saturating_sub(l.a1), h, il, self.ctx()),
                            );
                        }
                    }
                    St::Ambig => {
                        self.ambiguous += 1;
                        if h.is_some() && h != Some(l.tx) {
                            return fail(
                                format!("exclusion:holder-differs-from-grantee{}", after),
                                format!("{}: granted to tx {}, lock_holder = {:?}; {}", name, l.tx, h, self.ctx()),
                            );
                        }
                    }
                },
            }
        }
        Ok(())
    }

    fn absent_from_graph(&self, tx: u64) -> Option<String> {
        let wf = self.graph.waiting_for(tx);
        let wo = self.graph.waiting_on(tx);
        if !wf.is_empty() {
            return Some(format!("waiting_for({}) = {:?}", tx, wf));
        }
        if !wo.is_empty() {
            return Some(format!("waiting_on({}) = {:?}", tx, wo));
        }
        for &u in &self.all_tx {
            if self.graph.waiting_for(u).contains(&tx) {
                return Some(format!("waiting_for({}) contains {}", u, tx));
            }
            if self.graph.waiting_on(u).contains(&tx) {
                return Some(format!("waiting_on({}) contains {}", u, tx));
            }
        }
        None
    }

    /// a transaction that is gone (finished, or timed out and swept) must own nothing any more
    fn nothing_left(&mut self, tx: u64, how: &str) -> Ck {
        let raw = self.lm.to_serializable();
        if let Some((k, l)) = raw.locks().iter().find(|(_, l)| l.tx_id == tx) {
            return fail(
                format!("left-behind:lock-in-table-after-{}", how),
                format!("tx {} is gone ({}) but the lock table still holds {} (handle {}) for it; {}", tx, how, k, l.lock_handle, self.ctx()),
            );
        }
        for k in 0..self.nkeys {
            if self.lm.lock_holder(&kname(k)) == Some(tx) {
                return fail(format!("left-behind:lock-held-after-{}", how), format!("tx {} is gone ({}) but lock_holder({}) names it; {}", tx, how, kname(k), self.ctx()));
            }
        }
        let kft = self.lm.keys_for_transaction(tx);
        if !kft.is_empty() || self.lm.lock_count_for_transaction(tx) != 0 {
            let all_taken_over = kft.iter().all(|k| self.taken_over.iter().any(|(t, i)| *t == tx && &kname(*i) == k));
            let sig = if all_taken_over {
                "left-behind:keys_for_transaction-lists-key-taken-over-after-expiry".to_string()
            } else {
                format!("left-behind:keys_for_transaction-nonempty-after-{}", how)
            };
            let f = Fail {
                sig,
                detail: format!(
                    "tx {} is gone ({}) but keys_for_transaction = {:?} (lock_count_for_transaction = {}); keys taken over from it after expiry: {:?}; {}",
                    tx,
                    how,
                    kft,
                    self.lm.lock_count_for_transaction(tx),
                    self.taken_over.iter().filter(|(t, _)| *t == tx).map(|(_, i)| kname(*i)).collect::<Vec<_>>(),
                    self.ctx()
                ),
            };
            if all_taken_over {
                // the model knows exactly which index entries are stale: report, and go on
                self.soft.push(f);
                return Ok(());
            }
            return Err(f);
        }
        Ok(())
    }

    fn new_tx(&mut self) -> u64 {
        let id = self.next_tx;
        self.next_tx += 1;
        self.all_tx.push(id);
        self.active.push(id);
        id
    }

    fn op_lock(&mut self, tx: u64, keys: &[usize], rng: &mut Rng, r: &mut Report) -> Ck {
        let names: Vec<String> = keys.iter().map(|&k| kname(k)).collect();
        let tracked = self.tracked_mode;
        let prio = if rng.bool() { Some(rng.below(5) as u32) } else { None };
        let t0 = now_ms();
        let res: Result<u64, u64> = if tracked {
            self.lm.try_lock_with_wait_tracking(tx, &names, &self.graph, prio).map_err(|w| w.blocking_tx_id)
        } else {
            self.lm.try_lock(tx, &names)
        };
        let t1 = now_ms();
        let opname = if tracked { "try_lock_with_wait_tracking" } else { "try_lock" };
        self.trace.push(format!("{}(tx{}, {:?}) -> {:?}", opname, tx, names, res));
        r.count(&format!("lock_op[{}]", opname), 1);
        let mut live_blockers: BTreeMap<usize, u64> = BTreeMap::new();
        let mut maybe_blockers: BTreeMap<usize, u64> = BTreeMap::new();
        let mut expired_blockers: BTreeMap<usize, u64> = BTreeMap::new();
        for &k in keys {
            if let Some(l) = self.locks.get(&k) {
                if l.tx != tx {
                    match self.status(l, t0, t1) {
                        St::Live => {
                            live_blockers.insert(k, l.tx);
                        }
                        St::Ambig => {
                            maybe_blockers.insert(k, l.tx);
                        }
                        St::Expired => {
                            expired_blockers.insert(k, l.tx);
                        }
                    }
                }
            }
        }
        match res {
            Ok(h) => {
                r.count("grants", 1);
                if !live_blockers.is_empty() {
                    return fail(
                        "grant:granted-while-another-transaction-holds-a-requested-key",
                        format!("tx {} was granted {:?} (handle {}) although live holders exist: {:?}; {}", tx, names, h, live_blockers, self.ctx()),
                    );
                }
                if self.locks.values().any(|l| l.handle == h) {
                    return fail("grant:handle-already-in-use", format!("handle {} handed out twice; {}", h, self.ctx()));
                }
                for &k in keys {
                    if let Some(old) = self.locks.get(&k) {
                        if old.tx != tx {
                            self.taken_over.insert((old.tx, k));
                            r.count("takeovers_of_expired_locks", 1);
                        }
                    }
                    self.locks.insert(k, MLock { tx, handle: h, a0: t0, a1: t1 });
                }
                self.handles.entry(tx).or_default().push(h);
                // all-or-nothing, grant side: every requested key is now held by the grantee
                for &k in keys {
                    let hol = self.lm.lock_holder(&kname(k));
                    let t2 = now_ms();
                    if hol != Some(tx) && t2.saturating_sub(t0) < self.t_ms {
                        return fail(
                            "grant:requested-key-not-held-after-grant",
                            format!("tx {} was granted {:?} but lock_holder({}) = {:?}; {}", tx, names, kname(k), hol, self.ctx()),
                        );
                    }
                }
            }
            Err(b) => {
                r.count("refusals", 1);
                if live_blockers.is_empty() && maybe_blockers.is_empty() {
                    if !expired_blockers.is_empty() {
                        return fail(
                            "left-behind:expired-lock-still-blocks",
                            format!("tx {} refused on {:?} (blocker {}) although the only foreign locks are expired: {:?}; {}", tx, names, b, expired_blockers, self.ctx()),
                        );
                    }
                    return fail(
                        "refuse:conflict-reported-without-any-holder",
                        format!("tx {} refused on {:?} (blocker {}) although no other transaction holds a requested key; {}", tx, names, b, self.ctx()),
                    );
                }
                if !live_blockers.values().any(|&x| x == b) && !maybe_blockers.values().any(|&x| x == b) {
                    return fail(
                        "refuse:named-blocker-holds-no-requested-key",
                        format!("tx {} refused on {:?} naming blocker {}, holders are {:?} / {:?}; {}", tx, names, b, live_blockers, maybe_blockers, self.ctx()),
                    );
                }
                // all-or-nothing, refusal side: nothing of the request was granted
                for &k in keys {
                    let mine_before = self.locks.get(&k).map(|l| l.tx == tx).unwrap_or(false);
                    if !mine_before && self.lm.lock_holder(&kname(k)) == Some(tx) {
                        return fail(
                            "refuse:partial-grant-on-refusal",
                            format!("tx {} was refused on {:?} but now holds {}; {}", tx, names, kname(k), self.ctx()),
                        );
                    }
                }
                if tracked {
                    let wf = self.graph.waiting_for(tx);
                    for (&k, &holder) in &live_blockers {
                        if !wf.contains(&holder) {
                            return fail(
                                "wait-tracking:conflict-not-recorded-in-wait-graph",
                                format!("tx {} refused because tx {} holds {}, but waiting_for({}) = {:?}; {}", tx, holder, kname(k), tx, wf, self.ctx()),
                            );
                        }
                    }
                    r.count("wait_edges_checked", live_blockers.len() as u64);
                }
            }
        }
        Ok(())
    }

    fn model_release_handle(&mut self, h: u64) -> bool {
        let ks: Vec<usize> = self.locks.iter().filter(|(_, l)| l.handle == h).map(|(k, _)| *k).collect();
        for k in &ks {
            let l = self.locks.remove(k).unwrap();
            self.taken_over.remove(&(l.tx, *k)); // the code's retain() drops every copy of the key
        }
        !ks.is_empty()
    }

    fn op_release_tx(&mut self, tx: u64, r: &mut Report) {
        self.lm.release(tx);
        self.locks.retain(|_, l| l.tx != tx);
        self.taken_over.retain(|(t, _)| *t != tx);
        self.trace.push(format!("release(tx{})", tx));
        r.count("lock_op[release]", 1);
    }

    fn op_release_handle(&mut self, h: u64, with_cleanup: bool, r: &mut Report) -> bool {
        if with_cleanup {
            self.lm.release_by_handle_with_wait_cleanup(h, &self.graph);
            r.count("lock_op[release_by_handle_with_wait_cleanup]", 1);
        } else {
            self.lm.release_by_handle(h);
            r.count("lock_op[release_by_handle]", 1);
        }
        self.trace.push(format!("release_by_handle{}(h{})", if with_cleanup { "_with_wait_cleanup" } else { "" }, h));
        self.model_release_handle(h)
    }

    /// the transaction ends the way the coordinator / participant end one
    fn op_finish(&mut self, tx: u64, rng: &mut Rng, r: &mut Report) -> Ck {
        let hs = self.handles.get(&tx).cloned().unwrap_or_default();
        let mut found_any = false;
        let how;
        if !self.tracked_mode && rng.chance(1, 3) {
            self.op_release_tx(tx, r);
            how = "release";
        } else {
            let mut order = hs.clone();
            rng.shuffle(&mut order);
            for h in order {
                found_any |= self.op_release_handle(h, self.tracked_mode, r);
            }
            if self.tracked_mode && !found_any {
                // no lock carried any of its handles (never granted, released before, swept,
                // taken over): release_by_handle_with_wait_cleanup cannot know whose handle it was,
                // so cleaning the graph is the caller's job (checked against the real caller, the
                // coordinator, in part `coord`)
                self.graph.remove_transaction(tx);
                self.trace.push(format!("graph.remove_transaction(tx{})", tx));
                r.count("graph_cleanup_left_to_caller", 1);
            }
            how = "release-of-all-handles";
        }
        self.active.retain(|&t| t != tx);
        r.count("transactions_finished", 1);
        self.nothing_left(tx, how)?;
        if self.tracked_mode {
            if let Some(why) = self.absent_from_graph(tx) {
                return fail("left-behind:finished-transaction-still-in-wait-graph", format!("tx {} finished (handles {:?}) but {}; {}", tx, hs, why, self.ctx()));
            }
            r.count("graph_absence_checked", 1);
        }
        Ok(())
    }

    fn op_sweep(&mut self, with_cleanup: bool, r: &mut Report) -> Ck {
        let before = self.locks.clone();
        let t0 = now_ms();
        let n = if with_cleanup { self.lm.cleanup_expired_with_wait_cleanup(&self.graph) } else { self.lm.cleanup_expired() };
        let t1 = now_ms();
        self.trace.push(format!("cleanup_expired{}() -> {}", if with_cleanup { "_with_wait_cleanup" } else { "" }, n));
        r.count(if with_cleanup { "lock_op[cleanup_expired_with_wait_cleanup]" } else { "lock_op[cleanup_expired]" }, 1);
        let raw = self.lm.to_serializable();
        let mut swept: BTreeMap<u64, bool> = BTreeMap::new(); // tx -> all of its swept locks were definitely expired
        for (k, l) in &before {
            let present = raw.locks().get(&kname(*k)).map(|x| x.lock_handle == l.handle).unwrap_or(false);
            match self.status(l, t0, t1) {
                St::Live => {
                    if !present {
                        return fail("sweep:removed-a-live-lock", format!("cleanup_expired removed {} of tx {} (age <= {} ms); {}", kname(*k), l.tx, t1.saturating_sub(l.a0), self.ctx()));
                    }
                }
                St::Expired => {
                    if present {
                        return fail("left-behind:expired-lock-survives-sweep", format!("{} of tx {} expired (age >= {} ms) and is still in the table after the sweep; {}", kname(*k), l.tx, t0.saturating_sub(l.a1), self.ctx()));
                    }
                    self.locks.remove(k);
                    self.taken_over.remove(&(l.tx, *k));
                    swept.entry(l.tx).or_insert(true);
                    r.count("expired_locks_swept", 1);
                }
                St::Ambig => {
                    self.ambiguous += 1;
                    if !present {
                        self.locks.remove(k);
                        self.taken_over.remove(&(l.tx, *k));
                        swept.insert(l.tx, false);
                    }
                }
            }
        }
        // a transaction whose every lock timed out and was swept has timed out
        for (tx, definite) in swept {
            if !definite || self.locks.values().any(|l| l.tx == tx) {
                continue;
            }
            self.nothing_left(tx, "expiry-and-sweep")?;
            r.count("transactions_timed_out", 1);
            if with_cleanup && self.tracked_mode {
                if let Some(why) = self.absent_from_graph(tx) {
                    return fail("left-behind:expired-transaction-still-in-wait-graph-after-sweep", format!("tx {} timed out and was swept but {}; {}", tx, why, self.ctx()));
                }
                r.count("graph_absence_checked", 1);
                self.active.retain(|&t| t != tx);
            }
        }
        Ok(())
    }

    fn op_roundtrip(&mut self, via_bitcode: bool, r: &mut Report) -> Ck {
        let st = self.lm.to_serializable();
        let st = if via_bitcode {
            let bytes = match bitcode::serialize(&st) {
                Ok(b) => b,
                Err(e) => {
                    r.inconclusive(&format!("bitcode serialize failed: {}", e));
                    return Ok(());
                }
            };
            match bitcode::deserialize::<SerializableLockState>(&bytes) {
                Ok(s) => s,
                Err(e) => return fail("roundtrip:serialized-lock-state-does-not-decode", format!("{}; {}", e, self.ctx())),
            }
        } else {
            st
        };
        self.lm = LockManager::from_serializable(st);
        self.trace.push(format!("serialize/restore{}", if via_bitcode { " via bitcode" } else { "" }));
        r.count("lock_op[serialize_restore]", 1);
        Ok(())
    }

    /// restore the serialized state after a "downtime": the chosen locks are `delta` older
    fn op_age(&mut self, keys: &[usize], delta: u64, r: &mut Report) {
        let st = self.lm.to_serializable();
        let mut locks = st.locks().clone();
        for &k in keys {
            if let (Some(raw), Some(m)) = (locks.get_mut(&kname(k)), self.locks.get_mut(&k)) {
                if raw.lock_handle == m.handle {
                    raw.acquired_at_ms = raw.acquired_at_ms.saturating_sub(delta);
                    m.a0 = m.a0.saturating_sub(delta);
                    m.a1 = m.a1.saturating_sub(delta);
                    r.count("locks_aged_past_timeout", 1);
                }
            }
        }
        let new = SerializableLockState::new(locks, st.tx_locks().clone(), st.default_timeout_ms());
        self.lm = LockManager::from_serializable(new);
        self.trace.push(format!("restore after downtime of {} ms for {:?}", delta, keys.iter().map(|&k| kname(k)).collect::<Vec<_>>()));
        r.count("lock_op[restore_after_downtime]", 1);
    }
}

fn pick_keys(rng: &mut Rng, nkeys: usize) -> Vec<usize> {
    let n = rng.weighted(&[1, 30, 30, 20, 8]); // 0..=4 keys; the empty request is a legal input
    let mut v: Vec<usize> = (0..n).map(|_| rng.below(nkeys)).collect(); // duplicates possible
    if rng.chance(9, 10) {
        let mut seen = BTreeSet::new();
        v.retain(|k| seen.insert(*k));
    }
    v
}

fn locks_seq_inner(case_seed: u64, r: &mut Report) -> Result<(u64, bool), Fail> {
    let mut rng = Rng::new(case_seed);
    let real_time = rng.chance(1, 40);
    let t_ms: u64 = if real_time { 30 } else { 10_000 };
    let mut w = Seq {
        lm: LockManager::with_default_timeout(Duration::from_millis(t_ms)),
        graph: WaitForGraph::new(),
        t_ms,
        nkeys: 4 + rng.below(5),
        tracked_mode: rng.bool(),
        locks: BTreeMap::new(),
        taken_over: BTreeSet::new(),
        handles: BTreeMap::new(),
        all_tx: Vec::new(),
        active: Vec::new(),
        next_tx: *rng.pick(&[1u64, 1000, 1 << 40]),
        trace: Vec::new(),
        ambiguous: 0,
        soft: Vec::new(),
    };
    let steps = if real_time { 8 + rng.below(14) } else { 8 + rng.below(40) };
    let started = Instant::now();
    let mut sleeps = 0;
    let mut saw_conflict = false;
    for _ in 0..steps {
        if w.active.is_empty() || (w.active.len() < 5 && rng.chance(1, 4)) {
            w.new_tx();
        }
        let tx = w.active[rng.below(w.active.len())];
        let mut after = "";
        let refusals_before = r.counters.get("refusals").copied().unwrap_or(0);
        match rng.weighted(&[50, 4, 8, 12, 8, 5, 9, if real_time { 8 } else { 0 }]) {
            0 => {
                let keys = pick_keys(&mut rng, w.nkeys);
                w.op_lock(tx, &keys, &mut rng, r)?;
            }
            1 => w.op_release_tx(tx, r),
            2 => {
                if let Some(hs) = w.handles.get(&tx).cloned() {
                    if !hs.is_empty() {
                        let h = hs[rng.below(hs.len())];
                        let wc = w.tracked_mode;
                        w.op_release_handle(h, wc, r);
                    }
                }
            }
            3 => w.op_finish(tx, &mut rng, r)?,
            4 => {
                let wc = w.tracked_mode && rng.chance(2, 3);
                w.op_sweep(wc, r)?
            }
            5 => {
                w.op_roundtrip(rng.bool(), r)?;
                after = "@after-serialize-restore";
            }
            6 => {
                // downtime: all locks of one transaction, or one handle's, or a single key
                let keys: Vec<usize> = match rng.below(3) {
                    0 => w.locks.iter().filter(|(_, l)| l.tx == tx).map(|(k, _)| *k).collect(),
                    1 => {
                        let hs: Vec<u64> = w.locks.values().map(|l| l.handle).collect();
                        if hs.is_empty() {
                            vec![]
                        } else {
                            let h = hs[rng.below(hs.len())];
                            w.locks.iter().filter(|(_, l)| l.handle == h).map(|(k, _)| *k).collect()
                        }
                    }
                    _ => vec![rng.below(w.nkeys)],
                };
                let delta = 100 * t_ms;
                w.op_age(&keys, delta, r);
                after = "@after-serialize-restore";
            }
            _ => {
                if sleeps < 3 {
                    sleeps += 1;
                    std::thread::sleep(Duration::from_millis(11 * t_ms));
                    w.trace.push(format!("sleep {} ms", 11 * t_ms));
                    r.count("real_sleeps_past_timeout", 1);
                }
            }
        }
        if r.counters.get("refusals").copied().unwrap_or(0) > refusals_before {
            saw_conflict = true;
        }
        w.observe(after, r)?;
        if !real_time && started.elapsed() > Duration::from_millis(t_ms / 4) {
            r.inconclusive("locks-seq case ran too long for its 10 s timeout (machine stalled)");
            return Ok((0, false));
        }
    }
    // wind down: everybody finishes; nothing may remain at all
    for tx in w.active.clone() {
        w.op_finish(tx, &mut rng, r)?;
        w.observe("", r)?;
    }
    r.count("ambiguous_expiry_windows_skipped", w.ambiguous);
    let mut seen = BTreeSet::new();
    for f in std::mem::take(&mut w.soft) {
        if seen.insert(f.sig.clone()) {
            r.violation(f.sig, f.detail, json!({"part": "locks-seq", "case_seed": case_seed}));
        }
    }
    if r.want_sample() && saw_conflict && w.trace.len() >= 10 {
        r.sample(json!({"part": "locks-seq", "timeout_ms": t_ms, "tracked_mode": w.tracked_mode, "program": w.trace.iter().take(16).collect::<Vec<_>>()}));
    }
    // lock handles come from a process-wide counter: name them by order of appearance so that the
    // same program hashes the same in every run
    let mut all_handles: Vec<u64> = w.handles.values().flatten().copied().collect();
    all_handles.sort();
    let mut shape = w.trace.join(";");
    for (i, h) in all_handles.iter().enumerate().rev() {
        shape = shape.replace(&format!("Ok({})", h), &format!("Ok(#{})", i)).replace(&format!("(h{})", h), &format!("(h#{})", i));
    }
    Ok((hash_str(&shape), saw_conflict))
}

fn locks_seq_case(case_seed: u64, r: &mut Report) -> bool {
    match locks_seq_inner(case_seed, r) {
        Ok((h, nontrivial)) => {
            if h != 0 {
                r.eval(h, nontrivial);
                r.count("lock_programs", 1);
            }
            true
        }
        Err(f) => {
            r.violation(f.sig, f.detail, json!({"part": "locks-seq", "case_seed": case_seed}));
            false
        }
    }
}

// ------------------------------------------------------------------------------------------------
// coord: the coordinator's own commit / abort / timeout paths
// ------------------------------------------------------------------------------------------------

struct CTx {
    id: u64,
    shards: Vec<usize>,
    voted: BTreeSet<usize>,
    /// harness clock after `begin` returned: the coordinator's start stamp is not younger
    begun_by: u64,
    /// the request each shard's prepare at the coordinator was made with (for retransmission)
    reqs: BTreeMap<usize, PrepareRequest>,
    /// lock handles handed out by a re-delivered prepare whose vote the coordinator refused to
    /// record (the shard had voted already)
    unrecorded: BTreeSet<u64>,
    /// keys it was granted whose lease ran out during a downtime (part coord-lease)
    lost: BTreeSet<String>,
}

/// `lease` = part coord-lease: the coordinator is also restarted from its persisted state after a
/// downtime during which the leases of some key locks ran out (the pending transactions are what
/// they were)
fn coord_inner(case_seed: u64, lease: bool, r: &mut Report) -> Result<(u64, bool), Fail> {
    let mut rng = Rng::new(case_seed);
    // 0: no transaction ever times out; 1: every sweep times out everything pending (timeout 0);
    // 2: timeout 20 ms with 12 ms naps, so that old transactions time out while young ones stay
    // (which transaction has timed out is the coordinator's own call: the oracle only judges the
    // ones cleanup_timeouts lists)
    let timeout_mode = rng.weighted(&[3, 2, 2]);
    let sweep_times_out = timeout_mode == 1;
    let prepare_timeout_ms: u64 = [3_600_000, 0, 20][timeout_mode];
    let cfg = DistributedTxConfig { prepare_timeout_ms, ..DistributedTxConfig::default() };
    let mut naps = 0;
    let mut coord = DistributedTxCoordinator::new(ConsensusManager::default_config(), cfg.clone());
    let part = if lease { "coord-lease" } else { "coord" };
    // key -> transaction whose lease on it ran out during a downtime and that nobody was granted since
    let mut lapsed: BTreeMap<String, u64> = BTreeMap::new();
    let mut lease_losses_met = 0u64;
    let mut restart_store: Option<tensor_store::TensorStore> = None;
    let parts: Vec<TxParticipant> = vec![TxParticipant::new_in_memory(), TxParticipant::new_in_memory()];
    let nkeys = 3 + rng.below(4);
    let mut txs: Vec<CTx> = Vec::new();
    let mut all_ids: Vec<u64> = Vec::new();
    let mut trace: Vec<String> = Vec::new();
    let mut completions = 0u64;
    let mut conflicts = 0u64;
    let mut soft: Vec<Fail> = Vec::new();
    // reference lock table: key -> transaction whose prepare was granted it (the coordinator's
    // LockManager uses its 30 s default timeout; a case that takes longer than 3 s is not judged)
    let mut held: BTreeMap<String, u64> = BTreeMap::new();
    let mut next_orphan = 7u64;
    let case_started = Instant::now();

    let completed = |coord: &DistributedTxCoordinator, tx: u64, how: &str, unrecorded: &BTreeSet<u64>, all_ids: &[u64], trace: &[String], soft: &mut Vec<Fail>, r: &mut Report| -> Ck {
        let lm = coord.lock_manager();
        let g = coord.wait_graph();
        r.count(&format!("coord_completions[{}]", how), 1);
        if !unrecorded.is_empty() {
            r.count("coord_completions_after_retransmitted_prepare", 1);
        }
        let raw = lm.to_serializable();
        let left: Vec<(&String, u64)> = raw.locks().iter().filter(|(_, l)| l.tx_id == tx).map(|(k, l)| (k, l.lock_handle)).collect();
        if let Some((k, h)) = left.first() {
            if left.iter().all(|(_, h)| unrecorded.contains(h)) {
                // every lock left carries the handle of a re-delivered prepare: the model accounts
                // for it exactly. Reported at the end of the case; the harness drops the locks
                // itself and the program goes on.
                soft.push(Fail::new(
                    format!("coord:lock-remains-after-{}:handle-of-retransmitted-prepare", how),
                    format!(
                        "tx {} completed ({}) but the lock table still holds {:?} for it: its prepare was delivered again after the shard had voted, the grant re-stamped the keys with handle(s) {:?} and the completion released only the handles of the recorded votes; program {:?}",
                        tx, how, left, unrecorded, trace
                    ),
                ));
                lm.release(tx);
            } else {
                return fail(
                    format!("coord:lock-remains-after-{}", how),
                    format!("tx {} completed ({}) but the lock table still holds {} (handle {}) for it; program {:?}", tx, how, k, h, trace),
                );
            }
        }
        let kft = lm.keys_for_transaction(tx);
        if !kft.is_empty() {
            return fail(format!("coord:keys_for_transaction-nonempty-after-{}", how), format!("tx {} completed ({}) but keys_for_transaction = {:?}; program {:?}", tx, how, kft, trace));
        }
        let wf = g.waiting_for(tx);
        if !wf.is_empty() {
            // reported at the end of the case; the program goes on
            soft.push(Fail::new(
                format!("coord:still-waiter-in-wait-graph-after-{}", how),
                format!("tx {} completed ({}) but waiting_for({}) = {:?}; program {:?}", tx, how, tx, wf, trace),
            ));
        }
        let wo = g.waiting_on(tx);
        let named = all_ids.iter().find(|&&u| g.waiting_for(u).contains(&tx));
        if !wo.is_empty() || named.is_some() {
            return fail(
                format!("coord:still-holder-in-wait-graph-after-{}", how),
                format!("tx {} completed ({}) but waiting_on({}) = {:?}, named in waiting_for of {:?}; program {:?}", tx, how, tx, wo, named, trace),
            );
        }
        Ok(())
    };

    let steps = 6 + rng.below(40);
    for _ in 0..steps {
        if case_started.elapsed() > Duration::from_secs(3) {
            r.inconclusive("coord case ran longer than 3 s (lock timeout is 30 s): machine stalled");
            return Ok((0, false));
        }
        // (coord-lease: more retransmissions, fewer completions and sweeps, so that more pending
        // transactions live to see their leases run out and their keys taken over)
        let choice = if lease { rng.weighted(&[14, 40, 9, 7, 4, 5, 4, 18, 12]) } else { rng.weighted(&[18, 40, 12, 10, 6, 8, 5, 7]) };
        if choice == 0 || (txs.is_empty() && choice != 6) {
            let shards: Vec<usize> = if rng.bool() { vec![0] } else { vec![0, 1] };
            match coord.begin(&"c".to_string(), &shards) {
                Ok(t) => {
                    trace.push(format!("begin -> tx{} shards {:?}", t.tx_id, shards));
                    all_ids.push(t.tx_id);
                    txs.push(CTx { id: t.tx_id, shards, voted: BTreeSet::new(), begun_by: now_ms(), reqs: BTreeMap::new(), unrecorded: BTreeSet::new(), lost: BTreeSet::new() });
                    r.count("coord_op[begin]", 1);
                }
                Err(e) => trace.push(format!("begin -> Err({})", e)),
            }
            continue;
        }
        if choice == 6 {
            // partition healing: locks whose owner is not a pending transaction are orphans
            let mut planted: Vec<(u64, String)> = Vec::new();
            if rng.chance(2, 3) {
                let key = kname(rng.below(nkeys));
                if !held.contains_key(&key) {
                    let id = next_orphan;
                    next_orphan += 1;
                    if coord.lock_manager().try_lock(id, &[key.clone()]).is_ok() {
                        trace.push(format!("orphan lock: try_lock(tx{}, [{}]) -> Ok", id, key));
                        planted.push((id, key));
                    }
                }
            }
            // (a) a partition that began before anything was locked releases nothing
            let n0 = coord.release_orphaned_locks(0);
            trace.push(format!("release_orphaned_locks(0) -> {}", n0));
            for (id, key) in &planted {
                if coord.lock_manager().lock_holder(key) != Some(*id) {
                    return fail("orphan-sweep:released-lock-acquired-after-partition-start", format!("{} of tx {} released by release_orphaned_locks(0); program {:?}", key, id, trace));
                }
            }
            // (b) everything now in the table was acquired before `later`
            let later = now_ms() + 60_000;
            let n1 = coord.release_orphaned_locks(later);
            trace.push(format!("release_orphaned_locks(now+60s) -> {}", n1));
            r.count("coord_op[release_orphaned_locks]", 2);
            for (id, key) in &planted {
                r.count("orphans_planted", 1);
                if coord.lock_manager().lock_holder(key).is_some() || !coord.lock_manager().keys_for_transaction(*id).is_empty() {
                    return fail(
                        "orphan-sweep:orphaned-lock-remains",
                        format!("{} of tx {} (not a pending transaction) still held after release_orphaned_locks; keys_for_transaction = {:?}; program {:?}", key, id, coord.lock_manager().keys_for_transaction(*id), trace),
                    );
                }
            }
            // locks of pending transactions are judged by the table comparison below
        } else {
            let mut idx = rng.below(txs.len());
            if lease && choice == 7 && rng.chance(2, 3) {
                // (coord-lease) retransmissions go preferably to transactions that lost a lease
                let losers: Vec<usize> = (0..txs.len()).filter(|&i| !txs[i].lost.is_empty() && !txs[i].reqs.is_empty()).collect();
                if !losers.is_empty() {
                    idx = *rng.pick(&losers);
                }
            }
            let id = txs[idx].id;
            match choice {
                1 => {
                    // one prepare per (tx, shard), only while the coordinator still collects votes
                    let open: Vec<usize> = txs[idx].shards.iter().copied().filter(|s| !txs[idx].voted.contains(s)).collect();
                    let preparing = coord.get(id).map(|t| t.phase == TxPhase::Preparing).unwrap_or(false);
                    if open.is_empty() || !preparing {
                        continue;
                    }
                    let shard = open[rng.below(open.len())];
                    let nk = 1 + rng.below(2);
                    let mut ops: Vec<Transaction> = (0..nk).map(|_| Transaction::Put { key: kname(rng.below(nkeys)), data: vec![1] }).collect();
                    if lease && !lapsed.is_empty() && rng.chance(1, 2) {
                        // (coord-lease) take-over pressure: ask for a key whose lease ran out
                        let k = lapsed.keys().nth(rng.below(lapsed.len())).cloned().unwrap_or_default();
                        ops[0] = Transaction::Put { key: k, data: vec![1] };
                    }
                    let keys: Vec<String> = ops.iter().map(|o| o.affected_key().to_string()).collect();
                    // the delta of the request: zero, or one of a few directions, so that pending
                    // deltas are sometimes parallel / anti-parallel / orthogonal to a new request
                    let delta_embedding = match rng.below(6) {
                        0 | 1 => SparseVector::new(4),
                        2 => SparseVector::from_dense(&[1.0, 0.0, 0.0, 0.0]),
                        3 => SparseVector::from_dense(&[0.0, 1.0, 0.0, 0.0]),
                        4 => SparseVector::from_dense(&[1.0, 1.0, 0.0, 0.0]),
                        _ => SparseVector::from_dense(&[-1.0, 0.0, 0.0, 0.0]),
                    };
                    let req = PrepareRequest { tx_id: id, coordinator: "c".into(), operations: ops.clone(), delta_embedding, timeout_ms: 5000 };
                    // the shard's prepare runs either at the coordinator (its LockManager takes
                    // the key locks) or at a remote participant (only the vote, with its delta,
                    // reaches the coordinator; the coordinator's lock table is not involved)
                    let remote = rng.chance(2, 5);
                    let vote = if remote {
                        let v = parts[shard].prepare(req.clone());
                        trace.push(format!("remote prepare(tx{}, shard {}, {:?}) -> {}", id, shard, keys, match &v {
                            PrepareVote::Yes { lock_handle, .. } => format!("Yes(h{})", lock_handle),
                            PrepareVote::Conflict { conflicting_tx, .. } => format!("Conflict(tx{})", conflicting_tx),
                            _ => "No".to_string(),
                        }));
                        r.count("coord_op[remote_prepare]", 1);
                        v
                    } else {
                        let blockers: BTreeSet<u64> = keys.iter().filter_map(|k| held.get(k).copied()).filter(|&t| t != id).collect();
                        let mine_before: BTreeSet<String> = held.iter().filter(|(_, t)| **t == id).map(|(k, _)| k.clone()).collect();
                        let vote = coord.handle_prepare(&req);
                        txs[idx].reqs.insert(shard, req.clone());
                        let vs = match &vote {
                            PrepareVote::Yes { lock_handle, .. } => format!("Yes(h{})", lock_handle),
                            PrepareVote::Conflict { conflicting_tx, .. } => {
                                conflicts += 1;
                                format!("Conflict(tx{})", conflicting_tx)
                            }
                            _ => "No".to_string(),
                        };
                        trace.push(format!("prepare(tx{}, shard {}, {:?}) -> {}", id, shard, keys, vs));
                        match &vote {
                            PrepareVote::Yes { .. } => {
                                if !blockers.is_empty() {
                                    return fail(
                                        "coord:prepare-granted-over-held-key",
                                        format!("prepare of tx {} on {:?} voted yes although {:?} hold(s) a requested key; program {:?}", id, keys, blockers, trace),
                                    );
                                }
                                for k in &keys {
                                    held.insert(k.clone(), id);
                                    if lapsed.remove(k).map(|t| t != id).unwrap_or(false) {
                                        r.count("coord_takeovers_of_expired_locks", 1);
                                    }
                                }
                            }
                            PrepareVote::Conflict { conflicting_tx, .. } => {
                                if !blockers.is_empty() {
                                    if !blockers.contains(conflicting_tx) {
                                        return fail("coord:conflict-vote-names-non-holder", format!("prepare of tx {} on {:?} names tx {}, holders are {:?}; program {:?}", id, keys, conflicting_tx, blockers, trace));
                                    }
                                } else {
                                    // no key was held: refused at the semantic stage (after the lock
                                    // stage). Whether that refusal is justified is not judged.
                                    r.count("coord_semantic_refusals", 1);
                                }
                                // all-or-nothing, refusal side: a refused prepare was granted nothing
                                for k in &keys {
                                    if !mine_before.contains(k) && coord.lock_manager().lock_holder(k) == Some(id) {
                                        return fail(
                                            "coord:refused-prepare-still-holds-requested-key",
                                            format!(
                                                "prepare of tx {} on {:?} was refused ({}) but lock_holder({}) = tx {} and keys_for_transaction = {:?}; program {:?}",
                                                id,
                                                keys,
                                                vs,
                                                k,
                                                id,
                                                coord.lock_manager().keys_for_transaction(id),
                                                trace
                                            ),
                                        );
                                    }
                                }
                                // the statement is silent on whether a refusal may drop what the
                                // transaction held from an earlier shard's prepare: adopt what is there
                                for k in &mine_before {
                                    if coord.lock_manager().lock_holder(k).is_none() {
                                        held.remove(k);
                                        r.count("coord_refusal_dropped_earlier_grant", 1);
                                    }
                                }
                            }
                            _ => {}
                        }
                        vote
                    };
                    let rv = coord.record_vote(id, shard, vote);
                    txs[idx].voted.insert(shard);
                    trace.push(format!("record_vote(tx{}, shard {}) -> {:?}", id, shard, rv));
                    r.count("coord_op[prepare]", 1);
                }
                2 => {
                    let res = coord.commit(id);
                    trace.push(format!("commit(tx{}) -> {}", id, if res.is_ok() { "Ok" } else { "Err" }));
                    r.count("coord_op[commit]", 1);
                    if res.is_ok() {
                        let gone_tx = txs.remove(idx);
                        held.retain(|_, t| *t != id);
                        lapsed.retain(|_, t| *t != id);
                        completions += 1;
                        for p in &parts {
                            let _ = p.commit(id);
                        }
                        completed(&coord, id, "commit", &gone_tx.unrecorded, &all_ids, &trace, &mut soft, r)?;
                    }
                }
                3 => {
                    let res = coord.abort(id, "client");
                    trace.push(format!("abort(tx{}) -> {}", id, if res.is_ok() { "Ok" } else { "Err" }));
                    r.count("coord_op[abort]", 1);
                    if res.is_ok() {
                        let gone_tx = txs.remove(idx);
                        held.retain(|_, t| *t != id);
                        lapsed.retain(|_, t| *t != id);
                        completions += 1;
                        for p in &parts {
                            let _ = p.abort(id);
                        }
                        completed(&coord, id, "abort", &gone_tx.unrecorded, &all_ids, &trace, &mut soft, r)?;
                    }
                }
                7 => {
                    // the PREPARE of a shard that was prepared at the coordinator is delivered
                    // again (retransmission / duplicate delivery) while the transaction is pending
                    let shards: Vec<usize> = txs[idx].reqs.keys().copied().collect();
                    if shards.is_empty() || coord.get(id).is_none() {
                        continue;
                    }
                    let shard = shards[rng.below(shards.len())];
                    let req = txs[idx].reqs[&shard].clone();
                    let keys: Vec<String> = req.operations.iter().map(|o| o.affected_key().to_string()).collect();
                    let blockers: BTreeSet<u64> = keys.iter().filter_map(|k| held.get(k).copied()).filter(|&t| t != id).collect();
                    let mine_before: BTreeSet<String> = held.iter().filter(|(_, t)| **t == id).map(|(k, _)| k.clone()).collect();
                    let vote = coord.handle_prepare(&req);
                    r.count("coord_op[retransmitted_prepare]", 1);
                    if keys.iter().any(|k| txs[idx].lost.contains(k) && held.get(k) != Some(&id)) {
                        // the transaction no longer holds (all of) what this PREPARE was granted
                        lease_losses_met += 1;
                        r.count("coord_prepare_again_after_lease_ran_out", 1);
                        if !blockers.is_empty() {
                            r.count("coord_prepare_again_meets_key_taken_over", 1);
                        }
                    }
                    match &vote {
                        PrepareVote::Yes { lock_handle, .. } => {
                            trace.push(format!("prepare again(tx{}, shard {}, {:?}) -> Yes(h{})", id, shard, keys, lock_handle));
                            r.count("coord_retransmitted_prepares_answered_yes", 1);
                            if !blockers.is_empty() {
                                return fail(
                                    "coord:prepare-granted-over-held-key",
                                    format!("re-delivered prepare of tx {} on {:?} voted yes although {:?} hold(s) a requested key; program {:?}", id, keys, blockers, trace),
                                );
                            }
                            for k in &keys {
                                held.insert(k.clone(), id);
                                if lapsed.remove(k).map(|t| t != id).unwrap_or(false) {
                                    r.count("coord_takeovers_of_expired_locks", 1);
                                }
                            }
                            let h = *lock_handle;
                            let rv = coord.record_vote(id, shard, vote.clone());
                            trace.push(format!("record_vote(tx{}, shard {}) -> {:?}", id, shard, rv));
                            if rv.is_err() {
                                txs[idx].unrecorded.insert(h);
                            }
                        }
                        PrepareVote::Conflict { conflicting_tx, .. } => {
                            conflicts += 1;
                            trace.push(format!("prepare again(tx{}, shard {}, {:?}) -> Conflict(tx{})", id, shard, keys, conflicting_tx));
                            if !blockers.is_empty() && !blockers.contains(conflicting_tx) {
                                return fail("coord:conflict-vote-names-non-holder", format!("re-delivered prepare of tx {} on {:?} names tx {}, holders are {:?}; program {:?}", id, keys, conflicting_tx, blockers, trace));
                            }
                            if blockers.is_empty() {
                                r.count("coord_semantic_refusals", 1);
                            }
                            for k in &keys {
                                if !mine_before.contains(k) && coord.lock_manager().lock_holder(k) == Some(id) {
                                    return fail(
                                        "coord:refused-prepare-still-holds-requested-key",
                                        format!("re-delivered prepare of tx {} on {:?} was refused but lock_holder({}) = tx {}; program {:?}", id, keys, k, id, trace),
                                    );
                                }
                            }
                            for k in &mine_before {
                                if coord.lock_manager().lock_holder(k).is_none() {
                                    held.remove(k);
                                    r.count("coord_refusal_dropped_earlier_grant", 1);
                                }
                            }
                        }
                        _ => trace.push(format!("prepare again(tx{}, shard {}, {:?}) -> No", id, shard, keys)),
                    }
                }
                8 => {
                    // (coord-lease) the coordinator goes down, the leases of the chosen key locks run
                    // out, and it comes back from its persisted state: pending transactions and lock
                    // table as saved, the chosen locks 100 leases older
                    let store = restart_store.get_or_insert_with(tensor_store::TensorStore::new);
                    if let Err(e) = coord.save_to_store("n", store) {
                        r.inconclusive(&format!("coordinator save_to_store failed: {}", first_line(&e.to_string())));
                        continue;
                    }
                    let skey = match store.scan("_dtx:coordinator:").into_iter().next() {
                        Some(k) => k,
                        None => {
                            r.inconclusive("coordinator save_to_store wrote no _dtx:coordinator: entry");
                            continue;
                        }
                    };
                    let bytes = match store.get(&skey).ok().and_then(|d| match d.get("state") {
                        Some(tensor_store::TensorValue::Scalar(tensor_store::ScalarValue::Bytes(b))) => Some(b.clone()),
                        _ => None,
                    }) {
                        Some(b) => b,
                        None => {
                            r.inconclusive("persisted coordinator state has no 'state' bytes");
                            continue;
                        }
                    };
                    let mut st: CoordinatorState = match bitcode::deserialize(&bytes) {
                        Ok(s) => s,
                        Err(e) => return fail("coord:persisted-state-does-not-decode", format!("{}; program {:?}", e, trace)),
                    };
                    // every lock / all locks of one holder / one held key / (rarely) none
                    let holders: Vec<u64> = held.values().copied().collect::<BTreeSet<u64>>().into_iter().collect();
                    let victims: Vec<String> = match rng.below(8) {
                        _ if holders.is_empty() => vec![],
                        0 | 1 => held.keys().cloned().collect(),
                        2..=4 => {
                            let h = *rng.pick(&holders);
                            held.iter().filter(|(_, t)| **t == h).map(|(k, _)| k.clone()).collect()
                        }
                        5 | 6 => vec![held.keys().nth(rng.below(held.len())).cloned().unwrap_or_default()],
                        _ => vec![],
                    };
                    let mut locks = st.lock_state.locks().clone();
                    let mut aged: Vec<String> = Vec::new();
                    for k in &victims {
                        if let (Some(raw), Some(&owner)) = (locks.get_mut(k), held.get(k)) {
                            if raw.tx_id == owner {
                                raw.acquired_at_ms = raw.acquired_at_ms.saturating_sub(raw.timeout_ms.saturating_mul(100).saturating_add(1_000));
                                aged.push(format!("{}:tx{}", k, owner));
                                held.remove(k);
                                lapsed.insert(k.clone(), owner);
                                if let Some(t) = txs.iter_mut().find(|t| t.id == owner) {
                                    t.lost.insert(k.clone());
                                }
                            }
                        }
                    }
                    st.lock_state = SerializableLockState::new(locks, st.lock_state.tx_locks().clone(), st.lock_state.default_timeout_ms());
                    let mut data = tensor_store::TensorData::new();
                    match bitcode::serialize(&st) {
                        Ok(b) => data.set("state", tensor_store::TensorValue::Scalar(tensor_store::ScalarValue::Bytes(b))),
                        Err(e) => {
                            r.inconclusive(&format!("bitcode serialize failed: {}", first_line(&e.to_string())));
                            continue;
                        }
                    }
                    if store.put(skey, data).is_err() {
                        r.inconclusive("could not store the coordinator state");
                        continue;
                    }
                    coord = match DistributedTxCoordinator::load_from_store("n", store, ConsensusManager::default_config(), cfg.clone()) {
                        Ok(c) => c,
                        Err(e) => return fail("coord:persisted-state-does-not-load", format!("{}; program {:?}", e, trace)),
                    };
                    r.count("coord_op[restart_after_downtime]", 1);
                    r.count("coord_locks_aged_past_lease", aged.len() as u64);
                    trace.push(format!("restart after downtime: leases of {:?} ran out", aged));
                }
                4 => {
                    let res = coord.complete_abort(id);
                    trace.push(format!("complete_abort(tx{}) -> {}", id, if res.is_ok() { "Ok" } else { "Err" }));
                    r.count("coord_op[complete_abort]", 1);
                    if res.is_ok() {
                        let gone_tx = txs.remove(idx);
                        held.retain(|_, t| *t != id);
                        lapsed.retain(|_, t| *t != id);
                        completions += 1;
                        for p in &parts {
                            let _ = p.abort(id);
                        }
                        completed(&coord, id, "abort", &gone_tx.unrecorded, &all_ids, &trace, &mut soft, r)?;
                    }
                }
                _ => {
                    if sweep_times_out {
                        std::thread::sleep(Duration::from_millis(3));
                    } else if timeout_mode == 2 && naps < 8 {
                        naps += 1;
                        std::thread::sleep(Duration::from_millis(12));
                        trace.push("nap 12 ms".into());
                        if rng.bool() {
                            continue;
                        }
                    }
                    // transactions whose deadline has passed for certain when the sweep starts
                    // (the coordinator's own test is now - started_at > timeout, with started_at <=
                    // begun_by and now >= t0), with the phase they are in
                    let t0 = now_ms();
                    let overdue: Vec<(u64, Option<TxPhase>)> =
                        txs.iter().filter(|x| t0.saturating_sub(x.begun_by) > prepare_timeout_ms).map(|x| (x.id, coord.get(x.id).map(|t| t.phase))).collect();
                    for (t, ph) in &overdue {
                        r.count(&format!("coord_overdue_at_sweep[{:?}]", ph.unwrap_or(TxPhase::Aborted)), 1);
                        if *ph == Some(TxPhase::Aborting) && held.values().any(|o| o == t) {
                            r.count("coord_overdue_aborting_with_yes_lock", 1);
                        }
                    }
                    let gone = coord.cleanup_timeouts();
                    trace.push(format!("cleanup_timeouts -> {:?}", gone));
                    r.count("coord_op[cleanup_timeouts]", 1);
                    for &t in &gone {
                        let unrec: BTreeSet<u64> = txs.iter().find(|x| x.id == t).map(|x| x.unrecorded.clone()).unwrap_or_default();
                        txs.retain(|x| x.id != t);
                        held.retain(|_, o| *o != t);
                        lapsed.retain(|_, o| *o != t);
                        completions += 1;
                        for p in &parts {
                            let _ = p.abort(t);
                        }
                        completed(&coord, t, "timeout", &unrec, &all_ids, &trace, &mut soft, r)?;
                    }
                    // a transaction has timed out when its deadline has passed and the sweep has
                    // run, whether or not the sweep announces it: none of its locks may remain and
                    // it may not be left in the wait-for graph. (A Committing transaction is decided
                    // and is deliberately not subject to the deadline.)
                    for (t, ph) in overdue {
                        if gone.contains(&t) || ph == Some(TxPhase::Committing) || ph.is_none() {
                            continue;
                        }
                        r.count("coord_overdue_not_announced", 1);
                        trace.push(format!("(tx{} was {:?} and past its {} ms deadline, not listed by the sweep)", t, ph, prepare_timeout_ms));
                        let unrec: BTreeSet<u64> = txs.iter().find(|x| x.id == t).map(|x| x.unrecorded.clone()).unwrap_or_default();
                        completed(&coord, t, "timeout", &unrec, &all_ids, &trace, &mut soft, r)?;
                    }
                }
            }
        }
        // one holder per key, and it is the transaction whose prepare was granted
        for k in 0..nkeys {
            let name = kname(k);
            let h = coord.lock_manager().lock_holder(&name);
            r.count("coord_holder_reads_checked", 1);
            if h != held.get(&name).copied() {
                let sig = match (h, held.get(&name)) {
                    (None, Some(_)) => "coord:lock-of-pending-transaction-vanished",
                    (Some(_), None) => "coord:key-held-although-nobody-was-granted-it",
                    _ => "coord:holder-differs-from-grantee",
                };
                return fail(sig, format!("{}: lock_holder = {:?}, granted to {:?}; program {:?}", name, h, held.get(&name), trace));
            }
        }
    }
    // wind down: every transaction still pending is aborted
    for t in txs {
        if coord.abort(t.id, "end").is_ok() {
            trace.push(format!("abort(tx{}) -> Ok", t.id));
            completions += 1;
            completed(&coord, t.id, "abort", &t.unrecorded, &all_ids, &trace, &mut soft, r)?;
        }
    }
    if !coord.lock_manager().to_serializable().locks().is_empty() {
        return fail("coord:locks-remain-after-every-transaction-completed", format!("lock table {:?}; program {:?}", coord.lock_manager().to_serializable().locks().keys().collect::<Vec<_>>(), trace));
    }
    r.count("coord_conflict_votes", conflicts);
    let mut seen = BTreeSet::new();
    for f in soft {
        if seen.insert(f.sig.clone()) {
            r.violation(f.sig, f.detail, json!({"part": part, "case_seed": case_seed}));
        }
    }
    if r.want_sample() && conflicts > 0 && completions >= 3 && (!lease || lease_losses_met > 0) {
        r.sample(json!({"part": part, "program": trace.iter().take(if lease { 22 } else { 14 }).collect::<Vec<_>>()}));
    }
    // transaction ids differ from run to run (clock based): hash the shape of the program
    let shape: Vec<String> = trace.iter().map(|s| first_line(s)).collect();
    Ok((hash_str(&shape.join(";")), conflicts > 0 && completions > 0 && (!lease || lease_losses_met > 0)))
}

fn coord_case(case_seed: u64, lease: bool, r: &mut Report) -> bool {
    match coord_inner(case_seed, lease, r) {
        Ok((h, nt)) => {
            if h != 0 {
                r.eval(h, nt);
                r.count("coord_programs", 1);
            }
            true
        }
        Err(f) => {
            r.violation(f.sig, f.detail, json!({"part": if lease { "coord-lease" } else { "coord" }, "case_seed": case_seed}));
            false
        }
    }
}

// ------------------------------------------------------------------------------------------------
// threads: concurrent life cycles with a sound shadow-owner table
// ------------------------------------------------------------------------------------------------

struct Shared {
    lm: LockManager,
    graph: WaitForGraph,
    /// shadow owner per key: (tx, harness clock before the granting call). Written after a grant,
    /// cleared before a release.
    shadow: Vec<Mutex<Option<(u64, u64)>>>,
    t_ms: u64,
    expiring: bool,
    tick: AtomicU64,
    stop: AtomicBool,
    fails: Mutex<Vec<Fail>>,
    abandoned: Mutex<Vec<u64>>,
}

impl Shared {
    fn bad(&self, sig: &str, detail: String) {
        self.stop.store(true, Ordering::SeqCst);
        self.fails.lock().push(Fail { sig: sig.to_string(), detail });
    }
}

#[derive(Default)]
struct ThreadLog {
    events: Vec<(u64, u8, u8, u8)>, // (tick, thread, op, outcome)
    counters: BTreeMap<&'static str, u64>,
}
impl ThreadLog {
    fn c(&mut self, k: &'static str) {
        *self.counters.entry(k).or_insert(0) += 1;
    }
}

fn pause(rng: &mut Rng) {
    match rng.below(10) {
        0 | 1 | 2 => std::thread::yield_now(),
        3 => std::thread::sleep(Duration::from_micros(10 + rng.below(150) as u64)),
        4 => {
            for _ in 0..rng.below(200) {
                std::hint::spin_loop();
            }
        }
        _ => {}
    }
}

fn worker(sh: &Shared, th: usize, seed: u64, rounds: usize, nkeys: usize, mode: u8, log: &mut ThreadLog) {
    let mut rng = Rng::new(seed);
    for round in 0..rounds {
        if sh.stop.load(Ordering::Relaxed) {
            return;
        }
        let tx = (th as u64 + 1) * 1_000_000 + round as u64 + 1;
        let tracked = match mode {
            0 => false,
            1 => true,
            _ => rng.bool(),
        };
        let mut held: BTreeMap<usize, (u64, u64)> = BTreeMap::new(); // key -> (handle, a0)
        let mut handles: Vec<u64> = Vec::new();
        let attempts = 1 + rng.below(3);
        for _ in 0..attempts {
            let nk = 1 + rng.below(3);
            let mut keys: Vec<usize> = (0..nk).map(|_| rng.below(nkeys)).collect();
            keys.sort();
            keys.dedup();
            if rng.bool() {
                keys.reverse();
            }
            let names: Vec<String> = keys.iter().map(|&k| kname(k)).collect();
            let a0 = now_ms();
            let res: Result<u64, u64> = if tracked {
                sh.lm.try_lock_with_wait_tracking(tx, &names, &sh.graph, None).map_err(|w| w.blocking_tx_id)
            } else {
                sh.lm.try_lock(tx, &names)
            };
            let t1 = now_ms();
            let tick = sh.tick.fetch_add(1, Ordering::SeqCst);
            log.events.push((tick, th as u8, tracked as u8, res.is_ok() as u8));
            match res {
                Ok(h) => {
                    log.c("thread_grants");
                    for &k in &keys {
                        let mut s = sh.shadow[k].lock();
                        if let Some((p, pa0)) = *s {
                            if p != tx {
                                // p set its mark after being granted and has not yet begun to release
                                if !sh.expiring || t1.saturating_sub(pa0) < sh.t_ms / 2 {
                                    sh.bad(
                                        "exclusion:two-unexpired-holders-of-one-key",
                                        format!("tx {} was granted {} (handle {}) while tx {} still holds it (granted {} ms earlier, timeout {} ms)", tx, kname(k), h, p, t1.saturating_sub(pa0), sh.t_ms),
                                    );
                                } else {
                                    log.c("thread_takeover_or_ambiguous");
                                }
                            }
                        }
                        *s = Some((tx, a0));
                        drop(s);
                        held.insert(k, (h, a0));
                    }
                    handles.push(h);
                    for &k in &keys {
                        let hol = sh.lm.lock_holder(&kname(k));
                        let t2 = now_ms();
                        log.c("thread_holder_reads_checked");
                        if hol != Some(tx) && (!sh.expiring || t2.saturating_sub(a0) < sh.t_ms / 2) {
                            sh.bad("grant:requested-key-not-held-after-grant", format!("tx {} was granted {:?} (handle {}) but lock_holder({}) = {:?}", tx, names, h, kname(k), hol));
                        }
                    }
                }
                Err(b) => {
                    log.c("thread_refusals");
                    if b == tx {
                        sh.bad("refuse:blocker-is-the-requester", format!("tx {} refused on {:?} naming itself as the blocker", tx, names));
                    }
                    for &k in &keys {
                        if !held.contains_key(&k) && sh.lm.lock_holder(&kname(k)) == Some(tx) {
                            sh.bad("refuse:partial-grant-on-refusal", format!("tx {} was refused on {:?} but holds {}", tx, names, kname(k)));
                        }
                    }
                }
            }
            pause(&mut rng);
        }
        // ---- end of the transaction
        let unmark = |keys: &mut dyn Iterator<Item = usize>| {
            for k in keys {
                let mut s = sh.shadow[k].lock();
                if matches!(*s, Some((p, _)) if p == tx) {
                    *s = None;
                }
            }
        };
        if sh.expiring && rng.chance(1, 3) {
            // abandoned: never released; whoever wants the keys has to wait for the timeout
            unmark(&mut held.keys().copied());
            sh.abandoned.lock().push(tx);
            log.c("thread_abandoned");
            let tick = sh.tick.fetch_add(1, Ordering::SeqCst);
            log.events.push((tick, th as u8, 9, 0));
            if rng.bool() {
                std::thread::sleep(Duration::from_millis(sh.t_ms + 10 + rng.below(20) as u64));
            }
            continue;
        }
        let overlong = |held: &BTreeMap<usize, (u64, u64)>| sh.expiring && held.values().any(|&(_, a0)| now_ms().saturating_sub(a0) >= sh.t_ms / 2);
        if !tracked && rng.chance(1, 3) {
            unmark(&mut held.keys().copied());
            sh.lm.release(tx);
            log.c("thread_release");
            let tick = sh.tick.fetch_add(1, Ordering::SeqCst);
            log.events.push((tick, th as u8, 4, 0));
        } else {
            let mut order = handles.clone();
            rng.shuffle(&mut order);
            for h in order {
                unmark(&mut held.iter().filter(|(_, v)| v.0 == h).map(|(k, _)| *k));
                if tracked {
                    sh.lm.release_by_handle_with_wait_cleanup(h, &sh.graph);
                    log.c("thread_release_by_handle_with_wait_cleanup");
                } else {
                    sh.lm.release_by_handle(h);
                    log.c("thread_release_by_handle");
                }
                let tick = sh.tick.fetch_add(1, Ordering::SeqCst);
                log.events.push((tick, th as u8, 5, 0));
                pause(&mut rng);
            }
            if tracked && handles.is_empty() {
                sh.graph.remove_transaction(tx);
            }
        }
        let was_overlong = overlong(&held);
        // none left behind (this transaction id is never used again)
        for &k in held.keys() {
            if sh.lm.lock_holder(&kname(k)) == Some(tx) {
                sh.bad("left-behind:lock-held-after-release", format!("tx {} released everything but lock_holder({}) still names it", tx, kname(k)));
            }
        }
        let kft = sh.lm.keys_for_transaction(tx);
        if !kft.is_empty() {
            if was_overlong {
                log.c("thread_takeover_or_ambiguous");
            } else {
                sh.bad("left-behind:keys_for_transaction-nonempty-after-release", format!("tx {} released everything but keys_for_transaction = {:?}", tx, kft));
            }
        }
        if tracked && mode == 1 && !sh.expiring {
            let wf = sh.graph.waiting_for(tx);
            let wo = sh.graph.waiting_on(tx);
            log.c("thread_graph_absence_checked");
            if !wf.is_empty() || !wo.is_empty() {
                sh.bad(
                    "left-behind:finished-transaction-still-in-wait-graph",
                    format!("tx {} released all handles {:?} with wait cleanup but waiting_for = {:?}, waiting_on = {:?}", tx, handles, wf, wo),
                );
            }
        }
        log.c("thread_transactions_finished");
        pause(&mut rng);
    }
}

fn sweeper(sh: &Shared, seed: u64, done: &AtomicBool, log: &mut ThreadLog) {
    let mut rng = Rng::new(seed);
    while !done.load(Ordering::Relaxed) && !sh.stop.load(Ordering::Relaxed) {
        let n = if rng.bool() { sh.lm.cleanup_expired() } else { sh.lm.cleanup_expired_with_wait_cleanup(&sh.graph) };
        log.c("thread_sweeps");
        if n > 0 {
            if sh.expiring {
                log.c("thread_sweep_removed_expired");
            } else {
                sh.bad("sweep:removed-a-live-lock", format!("cleanup_expired removed {} lock(s) although the timeout is {} ms and the case is seconds old", n, sh.t_ms));
            }
        }
        if rng.chance(1, 4) {
            let _ = sh.lm.to_serializable();
            let _ = sh.graph.detect_cycles();
        }
        std::thread::sleep(Duration::from_micros(50 + rng.below(400) as u64));
    }
}

fn threads_inner(case_seed: u64, r: &mut Report) -> Result<(u64, bool), Fail> {
    let mut rng = Rng::new(case_seed);
    let nthreads = 2 + rng.below(5);
    let nkeys = 4 + rng.below(5);
    let expiring = rng.chance(1, 6);
    let t_ms: u64 = if expiring { 40 } else { 3_600_000 };
    let mode = rng.below(3) as u8; // 0 plain, 1 tracked, 2 mixed
    let rounds = if expiring { 6 + rng.below(6) } else { 30 + rng.below(60) };
    let sh = Shared {
        lm: LockManager::with_default_timeout(Duration::from_millis(t_ms)),
        graph: WaitForGraph::new(),
        shadow: (0..nkeys).map(|_| Mutex::new(None)).collect(),
        t_ms,
        expiring,
        tick: AtomicU64::new(0),
        stop: AtomicBool::new(false),
        fails: Mutex::new(Vec::new()),
        abandoned: Mutex::new(Vec::new()),
    };
    let barrier = Barrier::new(nthreads + 1);
    let done = AtomicBool::new(false);
    let seeds: Vec<u64> = (0..=nthreads).map(|_| rng.next_u64()).collect();
    let mut logs: Vec<ThreadLog> = Vec::new();
    std::thread::scope(|s| {
        let mut hs = Vec::new();
        for th in 0..nthreads {
            let (sh, barrier, seed) = (&sh, &barrier, seeds[th]);
            hs.push(s.spawn(move || {
                let mut log = ThreadLog::default();
                barrier.wait();
                worker(sh, th, seed, rounds, nkeys, mode, &mut log);
                log
            }));
        }
        let (shr, barrier_r, done_r, seed) = (&sh, &barrier, &done, seeds[nthreads]);
        let sw = s.spawn(move || {
            let mut log = ThreadLog::default();
            barrier_r.wait();
            sweeper(shr, seed, done_r, &mut log);
            log
        });
        for h in hs {
            match h.join() {
                Ok(l) => logs.push(l),
                Err(e) => sh.bad("panic:worker-thread", panic_msg(&e)),
            }
        }
        done.store(true, Ordering::SeqCst);
        match sw.join() {
            Ok(l) => logs.push(l),
            Err(e) => sh.bad("panic:sweeper-thread", panic_msg(&e)),
        }
    });
    let mut fails = std::mem::take(&mut *sh.fails.lock());
    if !fails.is_empty() {
        let f = fails.remove(0);
        return fail(f.sig, format!("{} [threads {}, keys {}, timeout {} ms, mode {}]", f.detail, nthreads, nkeys, t_ms, mode));
    }
    // quiescence
    let abandoned = sh.abandoned.lock().clone();
    if expiring {
        std::thread::sleep(Duration::from_millis(11 * t_ms));
        let _ = sh.lm.cleanup_expired_with_wait_cleanup(&sh.graph);
    }
    let raw = sh.lm.to_serializable();
    if let Some((k, l)) = raw.locks().iter().next() {
        let sig = if abandoned.contains(&l.tx_id) { "left-behind:expired-lock-survives-sweep" } else { "left-behind:lock-in-table-at-quiescence" };
        return fail(sig, format!("every transaction has released or timed out (and was swept) but {} is still locked by tx {} [threads {}, keys {}, timeout {} ms, mode {}]", k, l.tx_id, nthreads, nkeys, t_ms, mode));
    }
    for k in 0..nkeys {
        if let Some(t) = sh.lm.lock_holder(&kname(k)) {
            return fail("left-behind:lock-held-at-quiescence", format!("lock_holder({}) = {} after every transaction ended", kname(k), t));
        }
    }
    if mode == 1 && !expiring && !sh.graph.is_empty() && sh.graph.edge_count() > 0 {
        return fail(
            "left-behind:wait-edges-at-quiescence",
            format!("all transactions used wait tracking and released with wait cleanup, yet {} wait edge(s) remain [threads {}, keys {}]", sh.graph.edge_count(), nthreads, nkeys),
        );
    }
    // evidence
    let mut events: Vec<(u64, u8, u8, u8)> = Vec::new();
    let mut refusals = 0;
    for l in logs {
        for (k, v) in l.counters {
            r.count(k, v);
            if k == "thread_refusals" {
                refusals += v;
            }
        }
        events.extend(l.events);
    }
    events.sort();
    let mut h = 7u64;
    for (_, th, op, ok) in &events {
        h = hash_combine(h, (*th as u64) << 16 | (*op as u64) << 8 | *ok as u64);
    }
    r.count("thread_events", events.len() as u64);
    r.count(if expiring { "thread_cases_expiring" } else { "thread_cases_long_timeout" }, 1);
    r.count_max("max:threads", nthreads as u64);
    if r.want_sample() && refusals > 3 {
        r.sample(json!({"part": "threads", "threads": nthreads, "keys": nkeys, "timeout_ms": t_ms, "mode": (["plain", "tracked", "mixed"][mode as usize]),
            "first_events(thread,tracked|op,granted)": events.iter().take(24).map(|e| format!("t{}:{}:{}", e.1, e.2, e.3)).collect::<Vec<_>>()}));
    }
    Ok((h, refusals > 0))
}

fn threads_case(case_seed: u64, r: &mut Report) -> bool {
    match threads_inner(case_seed, r) {
        Ok((h, nt)) => {
            r.eval(h, nt);
            r.count("thread_cases", 1);
            true
        }
        Err(f) => {
            r.violation(f.sig, f.detail, json!({"part": "threads", "case_seed": case_seed}));
            false
        }
    }
}

// ------------------------------------------------------------------------------------------------
// participant: sequential programs at one real TxParticipant with retransmitted / late messages
// ------------------------------------------------------------------------------------------------

struct PTx {
    id: u64,
    req: PrepareRequest,
    /// the keys its operations write in the store = the key set its PREPARE asks for
    lock_keys: Vec<String>,
    prepared: bool,
    /// PREPAREs answered YES since it was last finished
    yes_votes: u32,
    /// harness clock before the first / after the latest PREPARE answered YES since it was last
    /// finished (the participant's own stamp of the prepared entry lies in between)
    first_call: u64,
    last_ret: u64,
}

fn participant_op(rng: &mut Rng, nk: usize) -> Transaction {
    let k = kname(rng.below(nk));
    match rng.below(7) {
        0 | 1 => Transaction::Put { key: k, data: vec![rng.below(200) as u8] },
        2 => Transaction::Delete { key: k },
        3 => Transaction::TableInsert { table: k, values: vec![1, 2] },
        // the same stored entry as TableInsert{table: k}
        4 => Transaction::Put { key: format!("table:{}", k), data: vec![3] },
        5 => Transaction::NodeCreate { key: k, label: "l".into() },
        _ => Transaction::CompareAndSwap { key: k, expected_data: vec![], new_data: vec![9] },
    }
}

/// a key lock as the reference sees it: the transaction whose PREPARE was granted it and, per grant that
/// may be the one in force, the harness clock before / after that PREPARE (the participant's own stamp
/// of the lock lies in between) and the lease it was granted for (`LockManager::default_timeout` at that
/// moment). A retransmitted PREPARE answered YES while the transaction still held the key may or may
/// not have renewed the lease (the statement is silent): both grants stay candidates.
#[derive(Clone, Debug)]
struct PLock {
    tx: u64,
    /// (a0, a1, lease_ms)
    grants: Vec<(u64, u64, u64)>,
}
impl PLock {
    /// the code: expired <=> now - acquired > lease, with a0 <= acquired <= a1 and t0 <= now <= t1
    fn status(&self, t0: u64, t1: u64) -> St {
        let one = |&(a0, a1, lease_ms): &(u64, u64, u64)| {
            if t1.saturating_sub(a0) < lease_ms {
                St::Live
            } else if t0.saturating_sub(a1) > lease_ms.saturating_add(1) {
                St::Expired
            } else {
                St::Ambig
            }
        };
        if self.grants.iter().all(|g| one(g) == St::Live) {
            St::Live
        } else if self.grants.iter().all(|g| one(g) == St::Expired) {
            St::Expired
        } else {
            St::Ambig
        }
    }
    fn describe(&self, t0: u64, t1: u64) -> String {
        format!("tx{} {:?}", self.tx, self.grants.iter().map(|&(a0, a1, l)| format!("{}..{} ms ago for {} ms", t0.saturating_sub(a1), t1.saturating_sub(a0), l)).collect::<Vec<_>>())
    }
}

/// `lease` = part participant-lease: the key locks' leases run out while the prepared entries stay
/// (without it every lock outlives its case and the reference never sees anything but live locks)
fn participant_inner(case_seed: u64, lease: bool, r: &mut Report) -> Result<(u64, bool), Fail> {
    let mut rng = Rng::new(case_seed);
    let mut p = TxParticipant::new_in_memory();
    let nk = 2 + rng.below(3);
    let universe: Vec<String> = (0..nk).flat_map(|i| [kname(i), format!("table:{}", kname(i)), format!("node:{}", kname(i))]).collect();
    // one case in eight lets prepared transactions really age past a 25 ms participant timeout
    let timed = rng.chance(1, 8);
    // participant-lease, one case in six: some PREPAREs are granted a 25 ms lease that really runs out
    // during 40 ms naps; in every participant-lease case leases also run out during a "downtime" (the
    // lock table is restored with the chosen locks 100 leases older)
    let short_leases = lease && rng.chance(1, 6);
    let part = if lease { "participant-lease" } else { "participant" };
    let mut txs: Vec<PTx> = Vec::new();
    let mut held: BTreeMap<String, PLock> = BTreeMap::new();
    let mut trace: Vec<String> = Vec::new();
    let mut next_id = *rng.pick(&[1u64, 500, 1 << 41]);
    let (mut conflicts, mut completions, mut naps) = (0u64, 0u64, 0);
    let (mut ambiguous, mut lease_losses_met) = (0u64, 0u64);
    let case_started = Instant::now();

    // the transaction is gone at this participant (commit / abort / timeout): none of its locks remain
    fn nothing_left(p: &TxParticipant, t: &PTx, how: &str, trace: &[String], r: &mut Report) -> Ck {
        r.count(&format!("participant_completions[{}]", how), 1);
        if t.yes_votes >= 2 {
            r.count("participant_completions_after_retransmitted_prepare", 1);
        }
        let raw = p.locks.to_serializable();
        if let Some((k, l)) = raw.locks().iter().find(|(_, l)| l.tx_id == t.id) {
            return fail(
                format!("participant:lock-remains-after-{}", how),
                format!("tx {} is finished at the participant ({}; its PREPARE was answered YES {} time(s)) but the lock table still holds {} (handle {}) for it; program {:?}", t.id, how, t.yes_votes, k, l.lock_handle, trace),
            );
        }
        let kft = p.locks.keys_for_transaction(t.id);
        if !kft.is_empty() {
            return fail(format!("participant:keys_for_transaction-nonempty-after-{}", how), format!("tx {} is finished at the participant ({}) but keys_for_transaction = {:?}; program {:?}", t.id, how, kft, trace));
        }
        Ok(())
    }

    // some key the transaction was granted is not its own any more for certain (its lease ran out, or
    // another transaction took the key over after that)
    fn lost_lock(held: &BTreeMap<String, PLock>, t: &PTx) -> bool {
        let now = now_ms();
        t.lock_keys.iter().any(|k| held.get(k).map(|l| l.tx != t.id || l.status(now, now) == St::Expired).unwrap_or(true))
    }

    let steps = 6 + rng.below(40);
    for _ in 0..steps {
        if case_started.elapsed() > Duration::from_secs(3) {
            r.inconclusive("participant case ran longer than 3 s (lock timeout is 30 s): machine stalled");
            return Ok((0, false));
        }
        if txs.is_empty() || (txs.len() < 6 && rng.chance(1, 4)) {
            let id = next_id;
            next_id += 1;
            let ops: Vec<Transaction> = (0..1 + rng.below(3)).map(|_| participant_op(&mut rng, nk)).collect();
            let lock_keys: Vec<String> = ops.iter().map(Transaction::storage_key).collect();
            let req = PrepareRequest { tx_id: id, coordinator: "c".into(), operations: ops, delta_embedding: SparseVector::new(4), timeout_ms: 5000 };
            txs.push(PTx { id, req, lock_keys, prepared: false, yes_votes: 0, first_call: 0, last_ret: 0 });
        }
        let idx = rng.below(txs.len());
        let id = txs[idx].id;
        let mut after = "";
        // (participant-lease: fewer sweeps, so that more prepared transactions live to see their leases
        // run out and their keys taken over)
        let (w_stale, w_recover) = if lease { (5, 3) } else { (9, 5) };
        match rng.weighted(&[44, 12, 12, w_stale, w_recover, 6, if timed || short_leases { 8 } else { 0 }, if lease { 12 } else { 0 }]) {
            0 => {
                // PREPARE: the first one, a retransmission while prepared, or a late duplicate after
                // the transaction was finished here (the participant then prepares it afresh)
                let keys = txs[idx].lock_keys.clone();
                if short_leases {
                    p.locks.default_timeout = if rng.bool() { Duration::from_millis(25) } else { Duration::from_secs(120) };
                }
                let lease_ms = p.locks.default_timeout.as_millis() as u64;
                let again = txs[idx].prepared;
                let t0 = now_ms();
                let vote = p.prepare(txs[idx].req.clone());
                let t1 = now_ms();
                r.count(if again { "participant_op[prepare_retransmitted]" } else { "participant_op[prepare]" }, 1);
                // the other transactions on the requested keys: holders for certain (lease running at
                // t1 at the latest), former holders for certain (lease run out before t0), undecidable
                let (mut blockers, mut maybe_blockers, mut expired_blockers) = (BTreeSet::new(), BTreeSet::new(), BTreeSet::new());
                // requested keys the transaction was granted earlier and does not hold for certain any
                // more: its own lease ran out, or another transaction took the key over after that
                let mut lost: BTreeSet<String> = BTreeSet::new();
                for k in &keys {
                    match held.get(k) {
                        Some(l) if l.tx != id => {
                            match l.status(t0, t1) {
                                St::Live => blockers.insert(l.tx),
                                St::Ambig => maybe_blockers.insert(l.tx),
                                St::Expired => expired_blockers.insert(l.tx),
                            };
                            if again {
                                lost.insert(k.clone());
                            }
                        }
                        Some(l) => {
                            if again && l.status(t0, t1) == St::Expired {
                                lost.insert(k.clone());
                            }
                        }
                        None => {
                            if again {
                                lost.insert(k.clone());
                            }
                        }
                    }
                }
                ambiguous += maybe_blockers.len() as u64;
                if again && !lost.is_empty() {
                    lease_losses_met += 1;
                    r.count("participant_prepare_again_after_lease_ran_out", 1);
                    if !blockers.is_empty() {
                        // the retransmission meets a key that another transaction took over and holds
                        r.count("participant_prepare_again_meets_key_taken_over", 1);
                    }
                }
                let mine_before: BTreeSet<String> = held.iter().filter(|(_, l)| l.tx == id).map(|(k, _)| k.clone()).collect();
                match &vote {
                    PrepareVote::Yes { lock_handle, .. } => {
                        trace.push(format!("PREPARE{}(tx{}, {:?}) -> Yes(h{})", if again { " again" } else { "" }, id, keys, lock_handle));
                        if !blockers.is_empty() {
                            return fail(
                                "participant:prepare-granted-over-held-key",
                                format!(
                                    "PREPARE of tx {} on {:?} was answered YES although {:?} hold(s) a requested key (lock_holder: {:?}); program {:?}",
                                    id,
                                    keys,
                                    blockers,
                                    keys.iter().map(|k| (k.clone(), p.locks.lock_holder(k))).collect::<Vec<_>>(),
                                    trace
                                ),
                            );
                        }
                        for k in &keys {
                            if let Some(old) = held.get(k) {
                                if old.tx != id && !maybe_blockers.contains(&old.tx) {
                                    r.count("participant_takeovers_of_expired_locks", 1);
                                }
                            }
                            // the grant in force: this one - or, if the transaction held the key anyway
                            // (retransmission), possibly still an earlier one
                            let mut grants = vec![(t0, t1, lease_ms)];
                            if let Some(old) = held.get(k) {
                                if again && old.tx == id && old.status(t0, t1) != St::Expired {
                                    grants.extend(old.grants.iter().copied());
                                    grants.sort();
                                    grants.dedup();
                                }
                            }
                            let now_held = PLock { tx: id, grants };
                            let hol = p.locks.lock_holder(k);
                            let t2 = now_ms();
                            // (a lease that may have run out since the grant is not judged)
                            let judged = now_held.status(t2, t2) == St::Live;
                            held.insert(k.clone(), now_held);
                            if hol != Some(id) && judged {
                                return fail(
                                    "participant:requested-key-not-held-after-yes",
                                    format!("PREPARE of tx {} on {:?} was answered YES but lock_holder({}) = {:?}; program {:?}", id, keys, k, hol, trace),
                                );
                            }
                        }
                        let t = &mut txs[idx];
                        if !t.prepared {
                            t.first_call = t0;
                            t.yes_votes = 0;
                        }
                        t.prepared = true;
                        t.yes_votes += 1;
                        t.last_ret = t1;
                        if again {
                            r.count("participant_retransmitted_prepares_answered_yes", 1);
                        }
                    }
                    PrepareVote::Conflict { conflicting_tx, .. } => {
                        conflicts += 1;
                        trace.push(format!("PREPARE{}(tx{}, {:?}) -> Conflict(tx{})", if again { " again" } else { "" }, id, keys, conflicting_tx));
                        if blockers.is_empty() && maybe_blockers.is_empty() {
                            if !expired_blockers.is_empty() {
                                return fail(
                                    "participant:prepare-refused-because-of-expired-lock",
                                    format!("PREPARE of tx {} on {:?} was refused naming tx {} although the only other locks on the requested keys, of {:?}, had run out; program {:?}", id, keys, conflicting_tx, expired_blockers, trace),
                                );
                            }
                            return fail(
                                "participant:conflict-vote-although-no-requested-key-is-held",
                                format!("PREPARE of tx {} on {:?} was refused naming tx {} although no other transaction holds a requested key; program {:?}", id, keys, conflicting_tx, trace),
                            );
                        }
                        if !blockers.contains(conflicting_tx) && !maybe_blockers.contains(conflicting_tx) {
                            return fail(
                                "participant:conflict-vote-names-non-holder",
                                format!("PREPARE of tx {} on {:?} names tx {}, holders are {:?} / {:?}; program {:?}", id, keys, conflicting_tx, blockers, maybe_blockers, trace),
                            );
                        }
                        for k in &keys {
                            if !mine_before.contains(k) && p.locks.lock_holder(k) == Some(id) {
                                return fail(
                                    "participant:refused-prepare-still-holds-requested-key",
                                    format!("PREPARE of tx {} on {:?} was refused but lock_holder({}) = tx {}; program {:?}", id, keys, k, id, trace),
                                );
                            }
                        }
                    }
                    _ => {
                        trace.push(format!("PREPARE(tx{}, {:?}) -> No", id, keys));
                        r.count("participant_no_votes_not_judged", 1);
                    }
                }
            }
            1 | 2 => {
                // COMMIT / ABORT: of a prepared transaction, or a duplicate / stray one
                let commit = rng.weighted(&[1, 1]) == 0;
                let target = if rng.chance(1, 12) { next_id + 1000 } else { id };
                let resp = if commit { p.commit(target) } else { p.abort(target) };
                trace.push(format!("{}(tx{}) -> {}", if commit { "COMMIT" } else { "ABORT" }, target, resp.success));
                r.count(if commit { "participant_op[commit]" } else { "participant_op[abort]" }, 1);
                if target == id && txs[idx].prepared {
                    txs[idx].prepared = false;
                    if lost_lock(&held, &txs[idx]) {
                        r.count("participant_completions_after_lease_ran_out", 1);
                    }
                    held.retain(|_, l| l.tx != id);
                    completions += 1;
                    nothing_left(&p, &txs[idx], if commit { "commit" } else { "abort" }, &trace, r)?;
                    txs[idx].yes_votes = 0;
                } else {
                    r.count("participant_stray_decisions", 1);
                }
            }
            3 | 4 => {
                // the participant's own timeout: cleanup_stale / recover. Which prepared transactions
                // a sweep times out is the participant's call; judged are (a) every transaction it
                // does time out and (b) every one whose latest PREPARE was answered more than the
                // timeout ago for certain when the sweep began, listed or not.
                let stale_sweep = rng.weighted(&[9, 5]) == 0;
                let timeout_ms: u64 = if timed {
                    25
                } else if lease {
                    *rng.pick(&[0u64, 3_600_000, 3_600_000])
                } else {
                    *rng.pick(&[0u64, 0, 3_600_000])
                };
                if timeout_ms == 0 {
                    std::thread::sleep(Duration::from_millis(2));
                }
                let before: Vec<u64> = txs.iter().filter(|t| t.prepared).map(|t| t.id).collect();
                let t0 = now_ms();
                let timed_out: Vec<u64> = if stale_sweep {
                    p.cleanup_stale(Duration::from_millis(timeout_ms))
                } else {
                    let awaiting = p.recover(Duration::from_millis(timeout_ms));
                    before.iter().copied().filter(|t| !awaiting.contains(t)).collect()
                };
                trace.push(format!("{}({} ms) timed out {:?}", if stale_sweep { "cleanup_stale" } else { "recover" }, timeout_ms, timed_out));
                r.count(if stale_sweep { "participant_op[cleanup_stale]" } else { "participant_op[recover]" }, 1);
                for t in txs.iter_mut().filter(|t| t.prepared) {
                    let listed = timed_out.contains(&t.id);
                    let overdue = t0.saturating_sub(t.last_ret) > timeout_ms;
                    if listed || overdue {
                        if !listed {
                            r.count("participant_overdue_not_announced", 1);
                            trace.push(format!("(tx{} was prepared {} ms ago for certain, past the {} ms timeout, not listed by the sweep)", t.id, t0.saturating_sub(t.last_ret), timeout_ms));
                        }
                        t.prepared = false;
                        let tid = t.id;
                        if lost_lock(&held, t) {
                            r.count("participant_completions_after_lease_ran_out", 1);
                        }
                        held.retain(|_, l| l.tx != tid);
                        completions += 1;
                        r.count("participant_timeouts", 1);
                        nothing_left(&p, t, "timeout", &trace, r)?;
                        t.yes_votes = 0;
                    }
                }
            }
            5 => {
                // persisted and loaded again (a restart of the participant)
                let store = p.store().clone();
                match p.save_to_store("n", 0, &store) {
                    Ok(()) => {
                        p = TxParticipant::load_from_store("n", 0, &store);
                        trace.push("save_to_store / load_from_store".into());
                        r.count("participant_op[save_load]", 1);
                        after = "@after-save-load";
                    }
                    Err(e) => r.inconclusive(&format!("participant save_to_store failed: {}", first_line(&e.to_string()))),
                }
            }
            6 => {
                if naps < 4 {
                    naps += 1;
                    std::thread::sleep(Duration::from_millis(40));
                    trace.push("nap 40 ms".into());
                    if short_leases {
                        r.count("participant_naps_longer_than_the_short_lease", 1);
                    }
                }
            }
            _ => {
                // downtime (participant-lease only): the lock table comes back with the chosen locks
                // 100 leases older, i.e. their leases have run out for certain; the prepared entries
                // are what they were (no cleanup_stale / recover has run)
                // every lock / all locks of one holder / one held key / (rarely) none
                let holders: Vec<u64> = held.values().map(|l| l.tx).collect::<BTreeSet<u64>>().into_iter().collect();
                let victims: Vec<String> = match rng.below(8) {
                    _ if holders.is_empty() => vec![],
                    0 | 1 => held.keys().cloned().collect(),
                    2..=4 => {
                        let h = *rng.pick(&holders);
                        held.iter().filter(|(_, l)| l.tx == h).map(|(k, _)| k.clone()).collect()
                    }
                    5 | 6 => vec![held.keys().nth(rng.below(held.len())).cloned().unwrap_or_default()],
                    _ => vec![],
                };
                let st = p.locks.to_serializable();
                let mut locks = st.locks().clone();
                let mut aged: Vec<String> = Vec::new();
                for k in &victims {
                    if let (Some(raw), Some(m)) = (locks.get_mut(k), held.get_mut(k)) {
                        if raw.tx_id == m.tx {
                            let longest = m.grants.iter().map(|g| g.2).max().unwrap_or(0).max(raw.timeout_ms);
                            let delta = longest.saturating_mul(100).saturating_add(1_000);
                            raw.acquired_at_ms = raw.acquired_at_ms.saturating_sub(delta);
                            for g in m.grants.iter_mut() {
                                g.0 = g.0.saturating_sub(delta);
                                g.1 = g.1.saturating_sub(delta);
                            }
                            aged.push(format!("{}:tx{}", k, m.tx));
                        }
                    }
                }
                let mut new = SerializableLockState::new(locks, st.tx_locks().clone(), st.default_timeout_ms());
                if rng.bool() {
                    match bitcode::serialize(&new).map(|b| bitcode::deserialize::<SerializableLockState>(&b)) {
                        Ok(Ok(s)) => new = s,
                        Ok(Err(e)) => return fail("participant:serialized-lock-state-does-not-decode", format!("{}; program {:?}", e, trace)),
                        Err(e) => r.inconclusive(&format!("bitcode serialize failed: {}", first_line(&e.to_string()))),
                    }
                }
                p.locks = LockManager::from_serializable(new);
                r.count("participant_op[downtime]", 1);
                r.count("participant_locks_aged_past_lease", aged.len() as u64);
                trace.push(format!("downtime: leases of {:?} ran out", aged));
                after = "@after-downtime";
            }
        }
        // one holder per key: the transaction whose PREPARE was granted it and that is still prepared,
        // as long as the lease of that grant runs
        for k in &universe {
            let t0 = now_ms();
            let h = p.locks.lock_holder(k);
            let t1 = now_ms();
            r.count("participant_holder_reads_checked", 1);
            let sig = match held.get(k) {
                None => h.map(|_| "participant:key-held-although-no-prepared-transaction-was-granted-it"),
                Some(l) => match l.status(t0, t1) {
                    St::Live => {
                        if h == Some(l.tx) {
                            None
                        } else if h.is_none() {
                            Some("participant:lock-of-prepared-transaction-vanished")
                        } else {
                            Some("participant:holder-differs-from-grantee")
                        }
                    }
                    St::Expired => {
                        r.count("participant_reads_of_keys_whose_lease_ran_out", 1);
                        h.map(|_| "participant:key-reported-held-after-its-lease-ran-out")
                    }
                    St::Ambig => {
                        ambiguous += 1;
                        if h.is_some() && h != Some(l.tx) {
                            Some("participant:holder-differs-from-grantee")
                        } else {
                            None
                        }
                    }
                },
            };
            if let Some(sig) = sig {
                return fail(
                    format!("{}{}", sig, after),
                    format!("{}: lock_holder = {:?}, granted to {:?}; program {:?}", k, h, held.get(k).map(|l| l.describe(t0, t1)), trace),
                );
            }
        }
    }
    // wind down: every transaction still prepared is aborted; nothing at all may remain
    for t in txs.iter_mut().filter(|t| t.prepared) {
        let _ = p.abort(t.id);
        trace.push(format!("ABORT(tx{})", t.id));
        t.prepared = false;
        completions += 1;
        nothing_left(&p, t, "abort", &trace, r)?;
    }
    if p.locks.active_lock_count() != 0 || !p.locks.to_serializable().locks().is_empty() {
        return fail(
            "participant:locks-remain-after-every-transaction-finished",
            format!("lock table {:?}; program {:?}", p.locks.to_serializable().locks().iter().map(|(k, l)| format!("{}:tx{}", k, l.tx_id)).collect::<Vec<_>>(), trace),
        );
    }
    r.count("participant_conflict_votes", conflicts);
    r.count("participant_ambiguous_lease_windows_skipped", ambiguous);
    if r.want_sample() && conflicts > 0 && completions >= 3 && trace.iter().any(|s| s.starts_with("PREPARE again")) && (!lease || lease_losses_met > 0) {
        r.sample(json!({"part": part, "program": trace.iter().take(if lease { 20 } else { 14 }).collect::<Vec<_>>()}));
    }
    // lock handles come from a process-wide counter: leave them out of the program's hash
    let shape: Vec<String> = trace.iter().map(|s| s.split("(h").next().unwrap_or("").to_string()).collect();
    Ok((hash_str(&shape.join(";")), conflicts > 0 && completions > 0 && (!lease || lease_losses_met > 0)))
}

fn participant_case(case_seed: u64, lease: bool, r: &mut Report) -> bool {
    match participant_inner(case_seed, lease, r) {
        Ok((h, nt)) => {
            if h != 0 {
                r.eval(h, nt);
                r.count("participant_programs", 1);
            }
            true
        }
        Err(f) => {
            r.violation(f.sig, f.detail, json!({"part": if lease { "participant-lease" } else { "participant" }, "case_seed": case_seed}));
            false
        }
    }
}

// ------------------------------------------------------------------------------------------------
// coord-threads: concurrent transaction life cycles through one real coordinator while the orphan
// sweep runs
// ------------------------------------------------------------------------------------------------

struct CShared {
    coord: DistributedTxCoordinator,
    /// shadow owner per pool key: (tx, when its grant returned). Written after a YES vote, cleared
    /// before the completion call.
    shadow: Vec<Mutex<Option<(u64, Instant)>>>,
    /// keeps the orphan sweep and the completion calls apart (see the header comment)
    gate: parking_lot::RwLock<()>,
    sweeps: AtomicU64,
    tick: AtomicU64,
    stop: AtomicBool,
    stalled: AtomicBool,
    fails: Mutex<Vec<Fail>>,
}
impl CShared {
    fn bad(&self, sig: &str, detail: String) {
        self.stop.store(true, Ordering::SeqCst);
        self.fails.lock().push(Fail { sig: sig.to_string(), detail });
    }
}

/// the coordinator's LockManager uses a 30 s lease: nothing older than this is judged
const CT_FRESH: Duration = Duration::from_secs(8);

fn cworker(sh: &CShared, th: usize, seed: u64, rounds: usize, nkeys: usize, bulk: usize, log: &mut ThreadLog) {
    let mut rng = Rng::new(seed);
    let lm = sh.coord.lock_manager();
    for round in 0..rounds {
        if sh.stop.load(Ordering::Relaxed) || sh.stalled.load(Ordering::Relaxed) {
            return;
        }
        let sweeps_at_begin = sh.sweeps.load(Ordering::SeqCst);
        let shards: Vec<usize> = if rng.bool() { vec![0] } else { vec![0, 1] };
        let tx = match sh.coord.begin(&"c".to_string(), &shards) {
            Ok(t) => t.tx_id,
            Err(_) => {
                log.c("cthread_begin_refused");
                continue;
            }
        };
        // what this pending transaction was granted: pool keys (index) and private keys, with the
        // time the grant returned
        let mut mine: BTreeMap<usize, Instant> = BTreeMap::new();
        let mut mine_private: Vec<(String, Instant)> = Vec::new();
        for &shard in &shards {
            let mut keys: Vec<usize> = (0..1 + rng.below(3)).map(|_| rng.below(nkeys)).collect();
            keys.sort();
            keys.dedup();
            if rng.bool() {
                keys.reverse();
            }
            let private: Vec<String> = (0..bulk).map(|j| format!("p{}:{}:{}:{}", th, round, shard, j)).collect();
            let mut ops: Vec<Transaction> = keys.iter().map(|&k| Transaction::Put { key: kname(k), data: vec![1] }).collect();
            ops.extend(private.iter().map(|k| Transaction::Put { key: k.clone(), data: vec![1] }));
            // zero delta: the semantic stage behind the lock stage never refuses (a refusal there
            // drops every lock of the transaction, which the statement does not speak about)
            let req = PrepareRequest { tx_id: tx, coordinator: "c".into(), operations: ops, delta_embedding: SparseVector::new(4), timeout_ms: 5000 };
            let vote = sh.coord.handle_prepare(&req);
            let granted_at = Instant::now();
            let tick = sh.tick.fetch_add(1, Ordering::SeqCst);
            log.events.push((tick, th as u8, 1, matches!(vote, PrepareVote::Yes { .. }) as u8));
            match &vote {
                PrepareVote::Yes { lock_handle, .. } => {
                    log.c("cthread_grants");
                    for &k in &keys {
                        let mut s = sh.shadow[k].lock();
                        if let Some((other, since)) = *s {
                            if other != tx {
                                // `other` set its mark after its YES vote and has not begun to complete
                                if since.elapsed() < CT_FRESH {
                                    sh.bad(
                                        "coord-threads:prepare-granted-while-pending-transaction-holds-the-key",
                                        format!(
                                            "prepare of tx {} on {} was voted YES (handle {}) while pending tx {} holds the key (its YES vote returned {} ms earlier; lease 30 s; {} orphan sweeps so far)",
                                            tx,
                                            kname(k),
                                            lock_handle,
                                            other,
                                            since.elapsed().as_millis(),
                                            sh.sweeps.load(Ordering::SeqCst)
                                        ),
                                    );
                                } else {
                                    sh.stalled.store(true, Ordering::SeqCst);
                                }
                            }
                        }
                        *s = Some((tx, granted_at));
                        drop(s);
                        mine.entry(k).or_insert(granted_at);
                    }
                    mine_private.extend(private.iter().map(|k| (k.clone(), granted_at)));
                }
                PrepareVote::Conflict { conflicting_tx, .. } => {
                    log.c("cthread_refusals");
                    if *conflicting_tx == tx {
                        sh.bad("coord-threads:conflict-vote-names-the-requester", format!("prepare of tx {} on {:?} was refused naming itself", tx, keys));
                    }
                    for &k in &keys {
                        if !mine.contains_key(&k) && lm.lock_holder(&kname(k)) == Some(tx) {
                            sh.bad("coord-threads:refused-prepare-still-holds-requested-key", format!("prepare of tx {} on {:?} was refused but lock_holder({}) names it", tx, keys, kname(k)));
                        }
                    }
                    if let Some(k) = private.first() {
                        if lm.lock_holder(k) == Some(tx) {
                            sh.bad("coord-threads:refused-prepare-still-holds-requested-key", format!("prepare of tx {} was refused but lock_holder({}) names it", tx, k));
                        }
                    }
                }
                _ => log.c("cthread_no_votes"),
            }
            if sh.coord.record_vote(tx, shard, vote).is_err() {
                log.c("cthread_record_vote_errors");
            }
            pause(&mut rng);
        }
        // ---- the transaction is pending and only this thread can complete it: whatever it was
        // granted is still its own
        pause(&mut rng);
        let private_probe: Vec<&(String, Instant)> = if mine_private.len() <= 6 { mine_private.iter().collect() } else { (0..6).map(|_| &mine_private[rng.below(mine_private.len())]).collect() };
        for (name, since) in mine.iter().map(|(k, s)| (kname(*k), *s)).chain(private_probe.into_iter().map(|(k, s)| (k.clone(), *s))) {
            let h = lm.lock_holder(&name);
            log.c("cthread_pending_lock_checks");
            if h != Some(tx) {
                if since.elapsed() < CT_FRESH {
                    sh.bad(
                        "coord-threads:lock-of-pending-transaction-vanished",
                        format!(
                            "tx {} is pending (begun, prepared with a YES vote {} ms ago, not completed) but lock_holder({}) = {:?}; keys_for_transaction = {} key(s); {} orphan sweeps so far",
                            tx,
                            since.elapsed().as_millis(),
                            name,
                            h,
                            lm.keys_for_transaction(tx).len(),
                            sh.sweeps.load(Ordering::SeqCst)
                        ),
                    );
                } else {
                    sh.stalled.store(true, Ordering::SeqCst);
                }
                break;
            }
        }
        if sh.sweeps.load(Ordering::SeqCst) != sweeps_at_begin && (!mine.is_empty() || !mine_private.is_empty()) {
            log.c("cthread_prepared_transactions_spanning_a_sweep");
        }
        if sh.stop.load(Ordering::Relaxed) {
            return;
        }
        // ---- completion (shadow marks cleared first)
        for &k in mine.keys() {
            let mut s = sh.shadow[k].lock();
            if matches!(*s, Some((p, _)) if p == tx) {
                *s = None;
            }
        }
        let how;
        {
            let _g = sh.gate.read();
            let phase = sh.coord.get(tx).map(|t| t.phase);
            let mut done = false;
            let mut h = "abort";
            if phase == Some(TxPhase::Prepared) && rng.chance(2, 3) {
                done = sh.coord.commit(tx).is_ok();
                h = "commit";
            } else if phase == Some(TxPhase::Aborting) && rng.bool() {
                done = sh.coord.complete_abort(tx).is_ok();
            }
            if !done {
                h = "abort";
                done = sh.coord.abort(tx, "client").is_ok();
            }
            if rng.chance(1, 10) {
                // nothing is overdue (timeout 1 h, lease 30 s)
                let gone = sh.coord.cleanup_timeouts();
                log.c("cthread_cleanup_timeouts");
                if !gone.is_empty() && !sh.stalled.load(Ordering::Relaxed) {
                    log.c("cthread_unexpected_timeouts_not_judged");
                }
            }
            if !done {
                // the statement says nothing about a completion being accepted
                log.c("cthread_completion_refused_not_judged");
                continue;
            }
            how = h;
        }
        let tick = sh.tick.fetch_add(1, Ordering::SeqCst);
        log.events.push((tick, th as u8, if how == "commit" { 2 } else { 3 }, 1));
        log.c(if how == "commit" { "cthread_completions[commit]" } else { "cthread_completions[abort]" });
        // ---- none left behind (this transaction id is never used again)
        for name in mine.keys().map(|k| kname(*k)).chain(mine_private.iter().map(|(k, _)| k.clone())) {
            if lm.lock_holder(&name) == Some(tx) {
                sh.bad(&format!("coord-threads:lock-held-after-{}", how), format!("tx {} completed ({}) but lock_holder({}) still names it", tx, how, name));
                break;
            }
        }
        let kft = lm.keys_for_transaction(tx);
        if !kft.is_empty() {
            sh.bad(&format!("coord-threads:keys_for_transaction-nonempty-after-{}", how), format!("tx {} completed ({}) but keys_for_transaction = {:?}", tx, how, kft.iter().take(6).collect::<Vec<_>>()));
        }
        let g = sh.coord.wait_graph();
        let (wf, wo) = (g.waiting_for(tx), g.waiting_on(tx));
        log.c("cthread_graph_absence_checked");
        if !wf.is_empty() || !wo.is_empty() {
            sh.bad(
                &format!("coord-threads:still-in-wait-graph-after-{}", how),
                format!("tx {} completed ({}) but waiting_for = {:?}, waiting_on = {:?}", tx, how, wf, wo),
            );
        }
        pause(&mut rng);
    }
}

fn csweeper(sh: &CShared, seed: u64, done: &AtomicBool, log: &mut ThreadLog) {
    let mut rng = Rng::new(seed);
    let lm = sh.coord.lock_manager();
    let mut next_orphan = 7u64;
    let mut planted: Vec<(u64, String)> = Vec::new();
    let style = rng.below(3); // 0 spinning, 1 short pauses, 2 mixed
    while !done.load(Ordering::Relaxed) && !sh.stop.load(Ordering::Relaxed) && !sh.stalled.load(Ordering::Relaxed) {
        // an orphan: a lock whose owner is not a pending transaction (keys o*, never used by workers)
        if rng.chance(1, 4) {
            let key = format!("o{}", rng.below(3));
            let id = next_orphan;
            next_orphan += 1;
            if lm.try_lock(id, &[key.clone()]).is_ok() {
                planted.push((id, key));
            }
        }
        let mode = rng.weighted(&[1, 3, 3]);
        let partition_start = match mode {
            0 => 0, // a partition that began before anything was locked: releases nothing
            1 => now_ms() + 60_000,
            _ => u64::MAX,
        };
        let n = {
            // never queue for the gate (a queued writer would hold back the completions)
            let Some(_g) = sh.gate.try_write() else {
                std::thread::yield_now();
                continue;
            };
            sh.coord.release_orphaned_locks(partition_start)
        };
        sh.sweeps.fetch_add(1, Ordering::SeqCst);
        log.c("cthread_sweeps");
        if n > 0 {
            log.c("cthread_sweeps_that_released_locks");
        }
        if mode == 0 {
            if n > 0 {
                sh.bad("orphan-sweep:released-lock-acquired-after-partition-start", format!("release_orphaned_locks(0) released {} lock(s)", n));
            }
            for (id, key) in &planted {
                if lm.lock_holder(key) != Some(*id) {
                    sh.bad("orphan-sweep:released-lock-acquired-after-partition-start", format!("{} of tx {} released by release_orphaned_locks(0)", key, id));
                }
            }
        } else {
            for (id, key) in planted.drain(..) {
                log.c("cthread_orphans_swept_checked");
                if lm.lock_holder(&key).is_some() || !lm.keys_for_transaction(id).is_empty() {
                    sh.bad("orphan-sweep:orphaned-lock-remains", format!("{} of tx {} (not a pending transaction) still held after release_orphaned_locks", key, id));
                }
            }
        }
        if rng.chance(1, 8) {
            let _ = lm.to_serializable();
            let _ = sh.coord.wait_graph().detect_cycles();
        }
        match style {
            0 => {}
            1 => std::thread::sleep(Duration::from_micros(20 + rng.below(200) as u64)),
            _ => pause(&mut rng),
        }
    }
}

fn coord_threads_inner(case_seed: u64, r: &mut Report) -> Result<(u64, bool), Fail> {
    let mut rng = Rng::new(case_seed);
    let nworkers = 2 + rng.below(4); // + the sweeper: 3-6 threads
    let nkeys = 4 + rng.below(9);
    let bulk = *rng.pick(&[0usize, 0, 4, 12, 32]);
    let rounds = 20 + rng.below(40);
    let cfg = DistributedTxConfig { prepare_timeout_ms: 3_600_000, commit_timeout_ms: 3_600_000, max_concurrent: 1_000_000, optimistic_locking: rng.bool(), ..DistributedTxConfig::default() };
    let sh = CShared {
        coord: DistributedTxCoordinator::new(ConsensusManager::default_config(), cfg),
        shadow: (0..nkeys).map(|_| Mutex::new(None)).collect(),
        gate: parking_lot::RwLock::new(()),
        sweeps: AtomicU64::new(0),
        tick: AtomicU64::new(0),
        stop: AtomicBool::new(false),
        stalled: AtomicBool::new(false),
        fails: Mutex::new(Vec::new()),
    };
    let barrier = Barrier::new(nworkers + 1);
    let done = AtomicBool::new(false);
    let seeds: Vec<u64> = (0..=nworkers).map(|_| rng.next_u64()).collect();
    let mut logs: Vec<ThreadLog> = Vec::new();
    std::thread::scope(|s| {
        let mut hs = Vec::new();
        for th in 0..nworkers {
            let (sh, barrier, seed) = (&sh, &barrier, seeds[th]);
            hs.push(s.spawn(move || {
                let mut log = ThreadLog::default();
                barrier.wait();
                cworker(sh, th, seed, rounds, nkeys, bulk, &mut log);
                log
            }));
        }
        let (shr, barrier_r, done_r, seed) = (&sh, &barrier, &done, seeds[nworkers]);
        let sw = s.spawn(move || {
            let mut log = ThreadLog::default();
            barrier_r.wait();
            csweeper(shr, seed, done_r, &mut log);
            log
        });
        for h in hs {
            match h.join() {
                Ok(l) => logs.push(l),
                Err(e) => sh.bad("panic:coord-worker-thread", panic_msg(&e)),
            }
        }
        done.store(true, Ordering::SeqCst);
        match sw.join() {
            Ok(l) => logs.push(l),
            Err(e) => sh.bad("panic:coord-sweeper-thread", panic_msg(&e)),
        }
    });
    let cfgs = format!("[workers {}, pool keys {}, private keys per prepare {}, rounds {}]", nworkers, nkeys, bulk, rounds);
    let mut fails = std::mem::take(&mut *sh.fails.lock());
    if !fails.is_empty() {
        let f = fails.remove(0);
        return fail(f.sig, format!("{} {}", f.detail, cfgs));
    }
    if sh.stalled.load(Ordering::SeqCst) {
        r.inconclusive("coord-threads case held a lock longer than 8 s (lease is 30 s): machine stalled");
        return Ok((0, false));
    }
    // quiescence: every transaction completed; what is left are orphans, and one more sweep takes them
    let lm = sh.coord.lock_manager();
    let _ = sh.coord.release_orphaned_locks(u64::MAX);
    let raw = lm.to_serializable();
    let all_completed = logs.iter().all(|l| !l.counters.contains_key("cthread_completion_refused_not_judged"));
    if !all_completed {
        r.count("cthread_cases_with_refused_completion_not_judged_at_quiescence", 1);
    } else if let Some((k, l)) = raw.locks().iter().next() {
        return fail(
            "coord-threads:lock-in-table-at-quiescence",
            format!("every transaction completed and the orphan sweep ran, but {} is still locked by tx {} ({} lock(s) in the table) {}", k, l.tx_id, raw.locks().len(), cfgs),
        );
    }
    if all_completed && sh.coord.wait_graph().edge_count() > 0 {
        return fail("coord-threads:wait-edges-at-quiescence", format!("every transaction completed, yet {} wait edge(s) remain {}", sh.coord.wait_graph().edge_count(), cfgs));
    }
    let mut events: Vec<(u64, u8, u8, u8)> = Vec::new();
    let (mut refusals, mut sweeps) = (0, 0);
    for l in logs {
        for (k, v) in l.counters {
            r.count(k, v);
            if k == "cthread_refusals" {
                refusals += v;
            }
            if k == "cthread_sweeps" {
                sweeps += v;
            }
        }
        events.extend(l.events);
    }
    events.sort();
    let mut h = 13u64;
    for (_, th, op, ok) in &events {
        h = hash_combine(h, (*th as u64) << 16 | (*op as u64) << 8 | *ok as u64);
    }
    r.count("cthread_events", events.len() as u64);
    r.count_max("max:cthread_threads", nworkers as u64 + 1);
    if r.want_sample() && refusals > 3 {
        r.sample(json!({"part": "coord-threads", "workers": nworkers, "pool_keys": nkeys, "private_keys_per_prepare": bulk, "orphan_sweeps": sweeps,
            "first_events(thread,op 1=prepare 2=commit 3=abort,granted)": events.iter().take(24).map(|e| format!("t{}:{}:{}", e.1, e.2, e.3)).collect::<Vec<_>>()}));
    }
    Ok((h, refusals > 0 && sweeps > 0))
}

fn coord_threads_case(case_seed: u64, r: &mut Report) -> bool {
    match coord_threads_inner(case_seed, r) {
        Ok((h, nt)) => {
            if h != 0 {
                r.eval(h, nt);
                r.count("cthread_cases", 1);
            }
            true
        }
        Err(f) => {
            r.violation(f.sig, f.detail, json!({"part": "coord-threads", "case_seed": case_seed}));
            false
        }
    }
}

// ------------------------------------------------------------------------------------------------
// takeover-threads: preparers take over locks whose lease ran out WHILE the expiry sweeps and the
// late completions of the old transactions run (no clock ambiguity: old leases ran out 100 leases
// ago or were granted 1 h leases just now; every new grant has a 1 h lease, rounds take < 1 ms)
// ------------------------------------------------------------------------------------------------

/// a round older than this is not judged (1 h leases: a margin of 12)
const TK_FRESH: Duration = Duration::from_secs(300);
const TK_LEASE_MS: u64 = 3_600_000;

struct TkShared {
    lm: LockManager,
    graph: WaitForGraph,
    /// shadow owner per key. Written after a grant returned, cleared before the release call;
    /// planted live locks are marked from the start.
    shadow: Vec<Mutex<Option<u64>>>,
    /// requests answered so far / takers that finished their walk (scheduling of the maintenance
    /// threads and evidence only - never part of a verdict)
    progress: AtomicU64,
    takers_done: AtomicU64,
    ntakers: u64,
    approx_requests: u64,
    stop: AtomicBool,
    fails: Mutex<Vec<Fail>>,
    /// old transactions all of whose leases ran out long ago
    dead: BTreeSet<u64>,
    /// old transactions still to be completed late by a maintenance thread: (tx, its handles, its keys, live?)
    old_pool: Mutex<Vec<(u64, Vec<u64>, Vec<usize>, bool)>>,
}
impl TkShared {
    fn bad(&self, sig: &str, detail: String) {
        self.stop.store(true, Ordering::SeqCst);
        self.fails.lock().push(Fail { sig: sig.to_string(), detail });
    }
    fn unmark(&self, tx: u64, keys: &[usize]) {
        for &k in keys {
            let mut s = self.shadow[k].lock();
            if *s == Some(tx) {
                *s = None;
            }
        }
    }
}

/// a granted, not yet finished transaction of a taker: (tx, handle, keys, used wait tracking)
type TkHeld = (u64, u64, Vec<usize>, bool);

/// ends a transaction the way the repo ends one and checks that nothing of it remains
fn tk_finish(sh: &TkShared, t: &TkHeld, how: usize, log: &mut ThreadLog) {
    let (tx, h, keys, tracked) = (t.0, t.1, &t.2, t.3);
    // nobody but this thread ends tx and its lease is 1 h: it still holds what it was granted
    for &k in keys {
        let hol = sh.lm.lock_holder(&kname(k));
        log.c("takeover_holder_reads_checked");
        if hol != Some(tx) {
            sh.bad(
                "takeover:granted-key-not-held-by-grantee",
                format!("tx {} was granted {} (handle {}, 1 h lease) and has not released it, but before its completion lock_holder({}) = {:?}", tx, kname(k), h, kname(k), hol),
            );
        }
    }
    sh.unmark(tx, keys);
    match how % 3 {
        0 => sh.lm.release(tx),
        1 => sh.lm.release_by_handle(h),
        _ => sh.lm.release_by_handle_with_wait_cleanup(h, &sh.graph),
    }
    if tracked {
        sh.graph.remove_transaction(tx);
    }
    log.c("takeover_completions");
    for &k in keys {
        if sh.lm.lock_holder(&kname(k)) == Some(tx) {
            sh.bad("takeover:lock-held-after-release", format!("tx {} released everything (way {}) but lock_holder({}) still names it", tx, how % 3, kname(k)));
        }
    }
    let kft = sh.lm.keys_for_transaction(tx);
    if !kft.is_empty() {
        sh.bad("takeover:keys_for_transaction-nonempty-after-release", format!("tx {} released everything (way {}) but keys_for_transaction = {:?}", tx, how % 3, kft));
    }
}

#[allow(clippy::too_many_arguments)]
fn tk_taker(sh: &TkShared, th: usize, seed: u64, round: usize, nkeys: usize, p_release: u32, mode: u8, log: &mut ThreadLog) -> (Vec<TkHeld>, Vec<(usize, u8)>) {
    let mut rng = Rng::new(seed);
    let mut order: Vec<usize> = (0..nkeys).collect();
    match rng.below(4) {
        0 => rng.shuffle(&mut order),
        1 => {
            order.reverse();
            order.rotate_left((th * nkeys / sh.ntakers.max(1) as usize) % nkeys);
        }
        _ => order.rotate_left((th * nkeys / sh.ntakers.max(1) as usize) % nkeys),
    }
    let mut backlog: Vec<TkHeld> = Vec::new();
    let mut won: Vec<(usize, u8)> = Vec::new();
    let (mut i, mut n) = (0usize, 0u64);
    while i < order.len() && !sh.stop.load(Ordering::Relaxed) {
        let nk = [1usize, 1, 1, 2, 3][rng.below(5)].min(order.len() - i);
        let keys: Vec<usize> = order[i..i + nk].to_vec();
        i += nk;
        n += 1;
        // one transaction per request (a shard's PREPARE); ids are never reused
        let tx = ((round as u64 + 1) << 32) | ((th as u64 + 1) << 24) | n;
        let tracked = match mode {
            0 => false,
            1 => true,
            _ => rng.bool(),
        };
        let names: Vec<String> = keys.iter().map(|&k| kname(k)).collect();
        let res: Result<u64, u64> = if tracked {
            sh.lm.try_lock_with_wait_tracking(tx, &names, &sh.graph, None).map_err(|w| w.blocking_tx_id)
        } else {
            sh.lm.try_lock(tx, &names)
        };
        sh.progress.fetch_add(1, Ordering::SeqCst);
        match res {
            Ok(h) => {
                log.c("takeover_grants");
                for &k in &keys {
                    let mut s = sh.shadow[k].lock();
                    if let Some(p) = *s {
                        if p != tx {
                            // p's mark was set after its grant (or planted with a 1 h lease) and p's
                            // release has not begun
                            sh.bad(
                                "takeover:two-unexpired-holders-of-one-key",
                                format!("tx {} was granted {:?} (handle {}) while tx {} holds {} (1 h lease, not released)", tx, names, h, p, kname(k)),
                            );
                        }
                    }
                    *s = Some(tx);
                    drop(s);
                    won.push((k, th as u8));
                }
                for &k in &keys {
                    let hol = sh.lm.lock_holder(&kname(k));
                    log.c("takeover_holder_reads_checked");
                    if hol != Some(tx) {
                        sh.bad(
                            "takeover:granted-key-not-held-by-grantee",
                            format!("tx {} was granted {:?} (handle {}, 1 h lease) and has not released anything, but lock_holder({}) = {:?}", tx, names, h, kname(k), hol),
                        );
                    }
                }
                backlog.push((tx, h, keys, tracked));
            }
            Err(b) => {
                log.c("takeover_refusals");
                if b == tx {
                    sh.bad("takeover:refusal-names-the-requester", format!("tx {} refused on {:?} naming itself as the blocker", tx, names));
                }
                if sh.dead.contains(&b) {
                    sh.bad(
                        "takeover:refused-because-of-a-lock-whose-lease-ran-out",
                        format!("tx {} was refused on {:?} naming tx {} as the holder, but every lease of tx {} ran out 100 leases ago", tx, names, b, b),
                    );
                }
                for &k in &keys {
                    if sh.lm.lock_holder(&kname(k)) == Some(tx) {
                        sh.bad("takeover:partial-grant-on-refusal", format!("tx {} was refused on {:?} but holds {}", tx, names, kname(k)));
                    }
                }
                if tracked {
                    // the refused transaction gives up (abort): nothing was granted, so no handle can
                    // carry the wait cleanup
                    sh.graph.remove_transaction(tx);
                }
            }
        }
        if !backlog.is_empty() && rng.chance(p_release, 100) {
            let j = rng.below(backlog.len());
            let t = backlog.swap_remove(j);
            tk_finish(sh, &t, rng.below(3), log);
        }
        if rng.chance(1, 8) {
            std::thread::yield_now();
        }
    }
    sh.takers_done.fetch_add(1, Ordering::SeqCst);
    (backlog, won)
}

/// the expiry sweeps and the late completions of the old transactions. `kind` 0 begins with a sweep.
fn tk_maint(sh: &TkShared, seed: u64, kind: u8, log: &mut ThreadLog) -> Vec<u64> {
    let mut rng = Rng::new(seed);
    let mut swept: Vec<u64> = Vec::new();
    // begin somewhere inside the takers' walks (a scheduling aid, not a deadline)
    let threshold = rng.below((sh.approx_requests * 3 / 4 + 1) as usize) as u64;
    let mut spins = 0u64;
    while sh.progress.load(Ordering::Relaxed) < threshold && sh.takers_done.load(Ordering::Relaxed) < sh.ntakers && !sh.stop.load(Ordering::Relaxed) {
        spins += 1;
        if spins % 64 == 0 {
            std::thread::yield_now();
        } else {
            std::hint::spin_loop();
        }
    }
    let nops = 1 + rng.below(4);
    for op in 0..nops {
        if sh.stop.load(Ordering::Relaxed) {
            break;
        }
        let what = if op == 0 && kind == 0 { rng.below(2) } else { rng.below(7) };
        match what {
            0 | 1 => {
                let p0 = sh.progress.load(Ordering::SeqCst);
                let d0 = sh.takers_done.load(Ordering::SeqCst);
                let n = if what == 0 { sh.lm.cleanup_expired() } else { sh.lm.cleanup_expired_with_wait_cleanup(&sh.graph) };
                let p1 = sh.progress.load(Ordering::SeqCst);
                log.c("takeover_sweeps");
                swept.push(n as u64);
                if n > 0 {
                    log.c("takeover_sweeps_that_removed_locks");
                    if p0 > 0 && d0 < sh.ntakers {
                        log.c("takeover_sweeps_removing_locks_amid_requests");
                    }
                    if p1 > p0 {
                        log.c("takeover_sweeps_removing_locks_overlapped_by_requests");
                    }
                }
            }
            2 | 3 | 4 => {
                // a transaction from before the downtime is completed now (late COMMIT / ABORT, or
                // the coordinator's timeout handling): whatever it still holds goes, nothing else
                let t = sh.old_pool.lock().pop();
                if let Some((tx, handles, keys, live)) = t {
                    if live {
                        sh.unmark(tx, &keys);
                        log.c("takeover_completions_of_live_old_transactions");
                    } else {
                        log.c("takeover_late_completions_of_expired_transactions");
                    }
                    match what {
                        2 => sh.lm.release(tx),
                        3 => {
                            for h in handles {
                                sh.lm.release_by_handle(h);
                            }
                        }
                        _ => {
                            for h in handles {
                                sh.lm.release_by_handle_with_wait_cleanup(h, &sh.graph);
                            }
                        }
                    }
                    for &k in &keys {
                        if sh.lm.lock_holder(&kname(k)) == Some(tx) {
                            sh.bad("takeover:lock-held-after-release", format!("old tx {} was completed (way {}) but lock_holder({}) still names it", tx, what, kname(k)));
                        }
                    }
                    let kft = sh.lm.keys_for_transaction(tx);
                    if !kft.is_empty() {
                        sh.bad("takeover:keys_for_transaction-nonempty-after-release", format!("old tx {} was completed (way {}) but keys_for_transaction = {:?}", tx, what, kft));
                    }
                }
            }
            5 => {
                let _ = sh.lm.to_serializable();
                let _ = sh.lm.active_lock_count();
            }
            _ => {
                let _ = sh.graph.detect_cycles();
            }
        }
        match rng.below(3) {
            0 => std::thread::yield_now(),
            1 => {
                for _ in 0..rng.below(400) {
                    std::hint::spin_loop();
                }
            }
            _ => {}
        }
    }
    swept
}

/// one lock table as a restarted node loads it, raced once. Returns (hash, sweep amid take-overs?, refusals)
fn takeover_round(rng: &mut Rng, round: usize, big: bool, r: &mut Report) -> Result<(u64, bool, u64), Fail> {
    let nkeys = if big { 64 + rng.below(193) } else { 8 + rng.below(89) };
    let ntakers = 1 + rng.below(4);
    let nmaint = 1 + rng.below(2);
    let p_release = [0u32, 0, 10, 30][rng.below(4)];
    let mode = rng.below(3) as u8;
    let p_expired = [70u32, 85, 100][rng.below(3)];
    let n_dead = 1 + rng.below(7) as u64;
    let n_live = 1 + rng.below(3) as u64;
    let now = now_ms();
    let handle0 = u64::MAX / 2 + ((round as u64) << 20); // never produced by the repo's handle counter in a run
    let mut locks = std::collections::HashMap::new();
    let mut tx_locks: std::collections::HashMap<u64, Vec<String>> = std::collections::HashMap::new();
    let mut old: BTreeMap<u64, (BTreeSet<u64>, Vec<usize>, bool)> = BTreeMap::new();
    let mut marks: Vec<Option<u64>> = vec![None; nkeys];
    let mut planted_expired = 0u64;
    for k in 0..nkeys {
        let roll = rng.below(100) as u32;
        let (tx, live) = if roll < p_expired {
            (1_000 + rng.below(n_dead as usize) as u64, false)
        } else if roll < p_expired + 12 {
            (2_000 + rng.below(n_live as usize) as u64, true)
        } else {
            continue;
        };
        let handle = handle0 + tx * 4 + rng.below(2) as u64;
        let lease = if live { TK_LEASE_MS } else { 1_000 + rng.below(9_000) as u64 };
        let acquired = if live { now } else { now.saturating_sub(100 * lease + 1_000) };
        locks.insert(kname(k), KeyLock { key: kname(k), tx_id: tx, lock_handle: handle, acquired_at_ms: acquired, timeout_ms: lease });
        tx_locks.entry(tx).or_default().push(kname(k));
        let e = old.entry(tx).or_insert_with(|| (BTreeSet::new(), Vec::new(), live));
        e.0.insert(handle);
        e.1.push(k);
        if live {
            marks[k] = Some(tx);
        } else {
            planted_expired += 1;
        }
    }
    let state = SerializableLockState::new(locks, tx_locks, TK_LEASE_MS);
    let lm = if rng.bool() {
        LockManager::from_serializable(state)
    } else {
        match bitcode::serialize(&state).ok().and_then(|b| bitcode::deserialize::<SerializableLockState>(&b).ok()) {
            Some(s) => LockManager::from_serializable(s),
            None => LockManager::from_serializable(state),
        }
    };
    let mut pool: Vec<(u64, Vec<u64>, Vec<usize>, bool)> = old.iter().map(|(&tx, (hs, ks, live))| (tx, hs.iter().copied().collect(), ks.clone(), *live)).collect();
    rng.shuffle(&mut pool);
    let sh = TkShared {
        lm,
        graph: WaitForGraph::new(),
        shadow: marks.iter().map(|m| Mutex::new(*m)).collect(),
        progress: AtomicU64::new(0),
        takers_done: AtomicU64::new(0),
        ntakers: ntakers as u64,
        approx_requests: (ntakers * nkeys * 5 / 8) as u64,
        stop: AtomicBool::new(false),
        fails: Mutex::new(Vec::new()),
        dead: old.iter().filter(|(_, v)| !v.2).map(|(&t, _)| t).collect(),
        old_pool: Mutex::new(pool),
    };
    let t_round = Instant::now();
    let barrier = Barrier::new(ntakers + nmaint);
    let seeds: Vec<u64> = (0..ntakers + nmaint).map(|_| rng.next_u64()).collect();
    let mut logs: Vec<ThreadLog> = Vec::new();
    let mut backlog: Vec<TkHeld> = Vec::new();
    let mut won: Vec<(usize, u8)> = Vec::new();
    let mut swept: Vec<u64> = Vec::new();
    std::thread::scope(|s| {
        let mut hs = Vec::new();
        for th in 0..ntakers {
            let (sh, barrier, seed) = (&sh, &barrier, seeds[th]);
            hs.push(s.spawn(move || {
                let mut log = ThreadLog::default();
                barrier.wait();
                let out = tk_taker(sh, th, seed, round, nkeys, p_release, mode, &mut log);
                (log, out)
            }));
        }
        let mut ms = Vec::new();
        for m in 0..nmaint {
            let (sh, barrier, seed) = (&sh, &barrier, seeds[ntakers + m]);
            ms.push(s.spawn(move || {
                let mut log = ThreadLog::default();
                barrier.wait();
                let out = tk_maint(sh, seed, m as u8, &mut log);
                (log, out)
            }));
        }
        for h in hs {
            match h.join() {
                Ok((l, (b, w))) => {
                    logs.push(l);
                    backlog.extend(b);
                    won.extend(w);
                }
                Err(e) => {
                    // let the maintenance threads go
                    sh.takers_done.fetch_add(1, Ordering::SeqCst);
                    sh.bad("panic:taker-thread", panic_msg(&e))
                }
            }
        }
        for h in ms {
            match h.join() {
                Ok((l, sw)) => {
                    logs.push(l);
                    swept.extend(sw);
                }
                Err(e) => sh.bad("panic:maintenance-thread", panic_msg(&e)),
            }
        }
    });
    let ctx = format!("[takers {}, maintenance threads {}, keys {}, planted: {} expired locks of {} transactions, release {} %, mode {}]", ntakers, nmaint, nkeys, planted_expired, sh.dead.len(), p_release, mode);
    if t_round.elapsed() > TK_FRESH {
        r.inconclusive("takeover-threads: a round took longer than 300 s (1 h leases): not judged");
        return Ok((0, false, 0));
    }
    let mut fails = std::mem::take(&mut *sh.fails.lock());
    if !fails.is_empty() {
        let f = fails.remove(0);
        return fail(f.sig, format!("{} {}", f.detail, ctx));
    }
    // ---- quiescence: every key is held by exactly the transaction that was granted it and has not
    // released it, and by nobody otherwise
    let mut log = ThreadLog::default();
    for k in 0..nkeys {
        let m = *sh.shadow[k].lock();
        let hol = sh.lm.lock_holder(&kname(k));
        r.count("takeover_quiescent_keys_checked", 1);
        match (m, hol) {
            (Some(o), h) if h != Some(o) => {
                return fail(
                    "takeover:granted-key-not-held-by-grantee",
                    format!("at quiescence tx {} holds {} (granted with a 1 h lease, never released) but lock_holder({}) = {:?} {}", o, kname(k), kname(k), h, ctx),
                );
            }
            (None, Some(x)) => {
                let sig = if sh.dead.contains(&x) { "takeover:lock-whose-lease-ran-out-reported-as-held" } else { "takeover:lock-held-by-finished-transaction" };
                return fail(sig, format!("at quiescence nobody holds {} but lock_holder({}) = Some({}) {}", kname(k), kname(k), x, ctx));
            }
            _ => {}
        }
    }
    for t in &backlog {
        let kft = sh.lm.keys_for_transaction(t.0);
        for &k in &t.2 {
            if !kft.contains(&kname(k)) {
                return fail("takeover:held-key-missing-from-keys_for_transaction", format!("tx {} holds {} (lock_holder agrees) but keys_for_transaction({}) = {:?} {}", t.0, kname(k), t.0, kft, ctx));
            }
        }
    }
    // ---- everybody completes; the transactions from before the downtime time out (sweep)
    let mut all_tx: Vec<u64> = old.keys().copied().collect();
    for (i, t) in backlog.iter().enumerate() {
        tk_finish(&sh, t, i, &mut log);
        all_tx.push(t.0);
    }
    let rest: Vec<_> = std::mem::take(&mut *sh.old_pool.lock());
    for (tx, handles, keys, live) in rest {
        if live {
            sh.unmark(tx, &keys);
            if tx % 2 == 0 {
                sh.lm.release(tx);
            } else {
                for h in handles {
                    sh.lm.release_by_handle_with_wait_cleanup(h, &sh.graph);
                }
            }
        }
    }
    let last = sh.lm.cleanup_expired_with_wait_cleanup(&sh.graph) as u64;
    let mut fails = std::mem::take(&mut *sh.fails.lock());
    if !fails.is_empty() {
        let f = fails.remove(0);
        return fail(f.sig, format!("{} {}", f.detail, ctx));
    }
    let raw = sh.lm.to_serializable();
    if let Some((k, l)) = raw.locks().iter().next() {
        return fail("takeover:lock-left-behind-at-quiescence", format!("every transaction was completed or timed out (and was swept) but {} is still locked by tx {} {}", k, l.tx_id, ctx));
    }
    for tx in all_tx {
        let kft = sh.lm.keys_for_transaction(tx);
        if !kft.is_empty() {
            return fail("takeover:keys_for_transaction-nonempty-after-release", format!("tx {} was completed / timed out and swept but keys_for_transaction = {:?} {}", tx, kft, ctx));
        }
    }
    // ---- evidence
    logs.push(log);
    let (mut refusals, mut amid) = (0u64, false);
    for l in logs {
        for (k, v) in l.counters {
            r.count(k, v);
            if k == "takeover_refusals" {
                refusals += v;
            }
            if k == "takeover_sweeps_removing_locks_amid_requests" {
                amid = true;
            }
        }
    }
    r.count("takeover_rounds", 1);
    r.count("takeover_expired_locks_planted", planted_expired);
    r.count("takeover_expired_locks_swept", swept.iter().sum::<u64>() + last);
    r.count("takeover_grants_kept_to_quiescence", backlog.iter().map(|t| t.2.len() as u64).sum());
    r.count_max("max:takeover_threads", (ntakers + nmaint) as u64);
    won.sort();
    let mut h = hash_combine(0x7a6b, nkeys as u64);
    for (k, th) in &won {
        h = hash_combine(h, (*k as u64) << 8 | *th as u64);
    }
    for n in &swept {
        h = hash_combine(h, *n);
    }
    if r.want_sample() && amid && refusals > 0 {
        r.sample(json!({"part": "takeover-threads", "takers": ntakers, "maintenance_threads": nmaint, "keys": nkeys, "expired_locks_planted": planted_expired,
            "sweep_results": swept, "grants(key<-taker)": won.iter().take(16).map(|(k, t)| format!("{}<-t{}", kname(*k), t)).collect::<Vec<_>>(), "refusals": refusals}));
    }
    Ok((h, amid, refusals))
}

fn takeover_inner(case_seed: u64, big: bool, r: &mut Report) -> Result<(u64, bool), Fail> {
    let mut rng = Rng::new(case_seed);
    let rounds = 6 + rng.below(10);
    let (mut h, mut amid, mut refusals) = (11u64, false, 0u64);
    for round in 0..rounds {
        let (rh, ra, rr) = takeover_round(&mut rng, round, big, r)?;
        h = hash_combine(h, rh);
        amid |= ra;
        refusals += rr;
    }
    Ok((h, amid && refusals > 0))
}

fn takeover_case(case_seed: u64, big: bool, r: &mut Report) -> bool {
    match takeover_inner(case_seed, big, r) {
        Ok((h, nt)) => {
            r.eval(h, nt);
            r.count("takeover_cases", 1);
            true
        }
        Err(f) => {
            r.violation(f.sig, f.detail, json!({"part": "takeover-threads", "case_seed": case_seed, "big": big}));
            false
        }
    }
}

// ------------------------------------------------------------------------------------------------
// witness: the two minimal programs behind the findings of this check (`--part witness`, not part
// of a normal run; prints what the real code answers)
// ------------------------------------------------------------------------------------------------

fn witnesses(r: &mut Report) {
    // (1) reverse index keeps a key after the expired lock was taken over
    let lm = LockManager::with_default_timeout(Duration::from_millis(30));
    let k = vec!["k".to_string()];
    let h1 = lm.try_lock(1, &k);
    std::thread::sleep(Duration::from_millis(330));
    let h2 = lm.try_lock(2, &k);
    if let Ok(h) = h1 {
        lm.release_by_handle(h);
    }
    if let Ok(h) = h2 {
        lm.release_by_handle(h);
    }
    let left = lm.keys_for_transaction(1);
    eprintln!("witness 1: try_lock(1,[k]) = {:?}; sleep 11 x timeout; try_lock(2,[k]) = {:?}; release_by_handle(both); keys_for_transaction(1) = {:?}, lock_count_for_transaction(1) = {}", h1, h2, left, lm.lock_count_for_transaction(1));
    r.sample(json!({"witness": "takeover-leaves-index-entry", "keys_for_transaction(1)": left}));
    // (2) a transaction refused on its only shard stays a waiter after abort
    let coord = DistributedTxCoordinator::new(ConsensusManager::default_config(), DistributedTxConfig::default());
    let req = |id: u64| PrepareRequest { tx_id: id, coordinator: "c".into(), operations: vec![Transaction::Put { key: "k".into(), data: vec![1] }], delta_embedding: SparseVector::new(4), timeout_ms: 5000 };
    let a = coord.begin(&"c".to_string(), &[0]).map(|t| t.tx_id).unwrap_or(0);
    let va = coord.handle_prepare(&req(a));
    let ra = coord.record_vote(a, 0, va.clone());
    let b = coord.begin(&"c".to_string(), &[0]).map(|t| t.tx_id).unwrap_or(0);
    let vb = coord.handle_prepare(&req(b));
    let rb = coord.record_vote(b, 0, vb.clone());
    let ab = coord.abort(b, "conflict");
    let wf = coord.wait_graph().waiting_for(b);
    let wo = coord.wait_graph().waiting_on(a);
    eprintln!(
        "witness 2: A={} prepare -> {:?} / {:?}; B={} prepare -> {:?} / {:?}; abort(B) = {:?}; waiting_for(B) = {:?}; waiting_on(A) = {:?}",
        a,
        matches!(va, PrepareVote::Yes { .. }),
        ra,
        b,
        vb,
        rb,
        ab.is_ok(),
        wf,
        wo
    );
    r.sample(json!({"witness": "aborted-tx-still-waiter", "waiting_for(B)": wf.iter().collect::<Vec<_>>()}));
    // (3) a PREPARE delivered twice to the coordinator: the second grant re-stamps the keys with a
    // handle the coordinator never records, so the completion releases nothing
    let coord = DistributedTxCoordinator::new(ConsensusManager::default_config(), DistributedTxConfig::default());
    let a = coord.begin(&"c".to_string(), &[0]).map(|t| t.tx_id).unwrap_or(0);
    let v1 = coord.handle_prepare(&req(a));
    let r1 = coord.record_vote(a, 0, v1.clone());
    let v2 = coord.handle_prepare(&req(a));
    let r2 = coord.record_vote(a, 0, v2.clone());
    let c = coord.commit(a);
    let hs = |v: &PrepareVote| match v {
        PrepareVote::Yes { lock_handle, .. } => format!("Yes(h{})", lock_handle),
        _ => "refused".to_string(),
    };
    let holder = coord.lock_manager().lock_holder("k");
    eprintln!(
        "witness 3: A={} prepare -> {} / {:?}; the same prepare again -> {} / {:?}; commit(A) = {:?}; lock_holder(k) = {:?}; keys_for_transaction(A) = {:?}",
        a,
        hs(&v1),
        r1,
        hs(&v2),
        r2,
        c.is_ok(),
        holder,
        coord.lock_manager().keys_for_transaction(a)
    );
    r.sample(json!({"witness": "retransmitted-prepare-at-coordinator-leaves-locks-after-commit", "lock_holder(k) after commit": holder}));
}

// ------------------------------------------------------------------------------------------------
// main
// ------------------------------------------------------------------------------------------------

fn main() {
    let args = Args::parse();
    let started = Instant::now();
    quiet_panics();
    let mut total = Report::new();
    total.max_samples = 10;
    let part = args.extra.get("part").cloned().unwrap_or_else(|| "all".to_string());
    let want = |p: &str| part == "all" || part == p;
    let mut exhaustive = false;

    if let Some(p) = &args.replay {
        let v: Value = serde_json::from_str(&std::fs::read_to_string(p).expect("replay file")).expect("json");
        let rp = &v["replay"];
        let s = rp["case_seed"].as_u64().unwrap_or(0);
        // hash-map iteration order (graphs) and thread schedules are not functions of the seed:
        // repeat the case until it fails again (bounded)
        let tries = match rp["part"].as_str().unwrap_or("") {
            "threads" | "coord-threads" | "takeover-threads" => 40,
            "graph4" | "graphN" | "graph-prog" => 60,
            _ => 3,
        };
        for _ in 0..tries {
            let ok = match rp["part"].as_str().unwrap_or("") {
                "graph4" => graph4_case(rp["mask"].as_u64().unwrap_or(0), s, 9, &mut total),
                "graphN" => graph_n_case(s, &mut total),
                "graph-prog" => graph_prog_case(s, &mut total),
                "locks-seq" => locks_seq_case(s, &mut total),
                "coord" => coord_case(s, false, &mut total),
                "coord-lease" => coord_case(s, true, &mut total),
                "threads" => threads_case(s, &mut total),
                "participant" => participant_case(s, false, &mut total),
                "participant-lease" => participant_case(s, true, &mut total),
                "coord-threads" => coord_threads_case(s, &mut total),
                "takeover-threads" => takeover_case(s, rp["big"].as_bool().unwrap_or(false), &mut total),
                other => {
                    total.inconclusive(&format!("unknown replay part {:?}", other));
                    true
                }
            };
            if !ok || total.violations_total > 0 {
                break;
            }
        }
    } else {
        let th = args.threads.max(1);
        if part == "witness" {
            witnesses(&mut total);
        }
        if want("graph4") {
            let reps = args.by_tier(3usize, 12usize);
            let mut rep = par_cases(th, args.seed, 4096, args.budget(300, 1200), |i, s, r| {
                graph4_case(i, s, reps, r);
            });
            exhaustive = rep.counters.get("budget_stops").copied().unwrap_or(0) == 0 && rep.counters.get("graph4_graphs").copied().unwrap_or(0) == 4096;
            total.count("graph4_complete", exhaustive as u64);
            rep.samples.truncate(2);
            total.merge(rep);
        }
        if want("graphN") {
            let n = args.by_tier(12_000u64, 400_000u64);
            let mut rep = par_cases(th, args.seed ^ 0x11, n, args.budget(120, 300), |_i, s, r| {
                graph_n_case(s, r);
            });
            rep.samples.truncate(2);
            total.merge(rep);
        }
        if want("graph-prog") {
            let n = args.by_tier(2_500u64, 80_000u64);
            let mut rep = par_cases(th, args.seed ^ 0x22, n, args.budget(120, 200), |_i, s, r| {
                graph_prog_case(s, r);
            });
            rep.samples.truncate(2);
            total.merge(rep);
        }
        if want("locks-seq") {
            let n = args.by_tier(12_000u64, 400_000u64);
            let mut rep = par_cases(th, args.seed ^ 0x33, n, args.budget(150, 420), |_i, s, r| {
                locks_seq_case(s, r);
            });
            rep.samples.truncate(2);
            total.merge(rep);
        }
        if want("coord") {
            let n = args.by_tier(4_000u64, 120_000u64);
            let mut rep = par_cases(th, args.seed ^ 0x44, n, args.budget(120, 240), |_i, s, r| {
                coord_case(s, false, r);
            });
            rep.samples.truncate(2);
            total.merge(rep);
        }
        if want("coord-lease") {
            let n = args.by_tier(2_500u64, 80_000u64);
            let mut rep = par_cases(th, args.seed ^ 0x99, n, args.budget(60, 150), |_i, s, r| {
                coord_case(s, true, r);
            });
            rep.samples.truncate(2);
            // the same program driver as part coord: its counters are kept apart
            rep.counters = std::mem::take(&mut rep.counters).into_iter().map(|(k, v)| (k.replacen("coord_", "coord_lease_", 1), v)).collect();
            total.merge(rep);
        }
        if want("participant") {
            let n = args.by_tier(3_000u64, 60_000u64);
            let mut rep = par_cases(th, args.seed ^ 0x66, n, args.budget(60, 150), |_i, s, r| {
                participant_case(s, false, r);
            });
            rep.samples.truncate(2);
            total.merge(rep);
        }
        if want("participant-lease") {
            let n = args.by_tier(4_000u64, 80_000u64);
            let mut rep = par_cases(th, args.seed ^ 0x88, n, args.budget(60, 150), |_i, s, r| {
                participant_case(s, true, r);
            });
            rep.samples.truncate(2);
            // the same program driver as part participant: its counters are kept apart
            rep.counters = std::mem::take(&mut rep.counters).into_iter().map(|(k, v)| (k.replacen("participant_", "participant_lease_", 1), v)).collect();
            total.merge(rep);
        }
        if want("coord-threads") {
            // every case spawns 3-6 OS threads of its own
            let outer = (th / 3).max(1);
            let n = args.by_tier(160u64, 6_000u64);
            let mut rep = par_cases(outer, args.seed ^ 0x77, n, args.budget(30, 200), |_i, s, r| {
                coord_threads_case(s, r);
            });
            rep.samples.truncate(2);
            total.merge(rep);
        }
        if want("takeover-threads") {
            // every round spawns 2-6 OS threads of its own
            let outer = (th / 3).max(1);
            let n = args.by_tier(400u64, 40_000u64);
            let big = !args.quick();
            let mut rep = par_cases(outer, args.seed ^ 0xaa, n, args.budget(12, 150), |i, s, r| {
                takeover_case(s, big && i % 3 == 0, r);
            });
            rep.samples.truncate(2);
            total.merge(rep);
        }
        if want("threads") {
            // every case spawns 3-7 OS threads of its own
            let outer = (th / 3).max(1);
            let n = args.by_tier(360u64, 12_000u64);
            let mut rep = par_cases(outer, args.seed ^ 0x55, n, args.budget(150, 420), |_i, s, r| {
                threads_case(s, r);
            });
            rep.samples.truncate(2);
            total.merge(rep);
        }
    }

    let mut floors: Vec<(&'static str, u64)> = Vec::new();
    if args.replay.is_none() {
        if want("graph4") {
            floors.push(("graph4_graphs", 4096));
            floors.push(("victims_checked", 10_000));
        }
        if want("graphN") {
            floors.push(("graphN_graphs", 1_000));
        }
        if want("graph-prog") {
            floors.push(("graph_programs", 300));
            floors.push(("graph_op[remove_transaction]", 500));
            floors.push(("stale_sweeps_that_dropped_edges", 100));
        }
        if want("locks-seq") {
            floors.push(("lock_programs", 1_000));
            floors.push(("grants", 5_000));
            floors.push(("refusals", 2_000));
            floors.push(("expired_locks_swept", 200));
            floors.push(("takeovers_of_expired_locks", 100));
            floors.push(("transactions_finished", 2_000));
            floors.push(("lock_op[serialize_restore]", 300));
        }
        if want("coord") {
            floors.push(("coord_programs", 500));
            floors.push(("coord_conflict_votes", 200));
            floors.push(("coord_semantic_refusals", 30));
            floors.push(("coord_overdue_aborting_with_yes_lock", 20));
            floors.push(("coord_op[remote_prepare]", 500));
            floors.push(("coord_completions[commit]", 100));
            floors.push(("coord_completions[abort]", 300));
            floors.push(("coord_retransmitted_prepares_answered_yes", 150));
            floors.push(("coord_completions_after_retransmitted_prepare", 80));
        }
        if want("participant") {
            floors.push(("participant_programs", 500));
            floors.push(("participant_retransmitted_prepares_answered_yes", 500));
            floors.push(("participant_completions_after_retransmitted_prepare", 300));
            floors.push(("participant_conflict_votes", 500));
            floors.push(("participant_timeouts", 200));
            floors.push(("participant_op[save_load]", 100));
        }
        if want("participant-lease") {
            floors.push(("participant_lease_programs", 500));
            floors.push(("participant_lease_locks_aged_past_lease", 1_500));
            floors.push(("participant_lease_takeovers_of_expired_locks", 250));
            floors.push(("participant_lease_prepare_again_after_lease_ran_out", 400));
            floors.push(("participant_lease_prepare_again_meets_key_taken_over", 80));
            floors.push(("participant_lease_completions_after_lease_ran_out", 200));
            floors.push(("participant_lease_reads_of_keys_whose_lease_ran_out", 3_000));
            floors.push(("participant_lease_naps_longer_than_the_short_lease", 50));
        }
        if want("coord-lease") {
            floors.push(("coord_lease_programs", 300));
            floors.push(("coord_lease_op[restart_after_downtime]", 600));
            floors.push(("coord_lease_locks_aged_past_lease", 300));
            floors.push(("coord_lease_takeovers_of_expired_locks", 25));
            floors.push(("coord_lease_prepare_again_after_lease_ran_out", 100));
            floors.push(("coord_lease_prepare_again_meets_key_taken_over", 10));
        }
        if want("coord-threads") {
            floors.push(("cthread_cases", 10));
            floors.push(("cthread_grants", 1_000));
            floors.push(("cthread_refusals", 200));
            floors.push(("cthread_sweeps", 1_000));
            floors.push(("cthread_prepared_transactions_spanning_a_sweep", 300));
            floors.push(("cthread_pending_lock_checks", 2_000));
            floors.push(("cthread_orphans_swept_checked", 50));
        }
        if want("takeover-threads") {
            floors.push(("takeover_cases", 20));
            floors.push(("takeover_grants", 5_000));
            floors.push(("takeover_refusals", 1_000));
            floors.push(("takeover_sweeps_removing_locks_amid_requests", 100));
            floors.push(("takeover_sweeps_removing_locks_overlapped_by_requests", 30));
            floors.push(("takeover_late_completions_of_expired_transactions", 50));
            floors.push(("takeover_holder_reads_checked", 5_000));
        }
        if want("threads") {
            floors.push(("thread_cases", 10));
            floors.push(("thread_grants", 1_000));
            floors.push(("thread_refusals", 200));
        }
    }
    let meta = Meta {
        property: "C12",
        rule: "graph cases are distinct by edge set (non-trivial: >= 1 edge for the exhaustive 4-transaction family, >= 2 edges otherwise); lock / coordinator programs are distinct by the hash of their executed call trace and non-trivial if at least one request was refused because of a held key; participant programs likewise (non-trivial: at least one PREPARE refused because of a held key and at least one completion); participant-lease / coord-lease programs likewise, non-trivial only if in addition a retransmitted PREPARE met a key whose lease had run out for the transaction (counters participant_lease_* / coord_lease_* are those of the lease parts alone); threaded cases are distinct by the hash of the global event order (thread, call kind, granted?) and non-trivial if at least one request was refused (coord-threads: and at least one orphan sweep ran); takeover-threads cases (6-15 restored lock tables, each raced once) are distinct by the hash of who was granted which key and what every sweep removed, non-trivial if a request was refused and a sweep that removed locks began after the first request was answered and before the last taker finished. graph4 is exhaustive: all 4 096 digraphs on 4 transactions x 3 (thorough: 12) labelings/insertion orders x (1 bare WaitForGraph + 5 detector configurations).",
        assumptions: vec![
            "the recorded wait-for relation is the set of add_wait calls made minus those removed; self-waits are not recorded (add_wait documents them as invalid)".into(),
            "'reports a cycle exactly when' is judged as existence (some cycle reported <=> the reference finds a non-trivial SCC); every reported cycle must be a simple cycle of recorded edges and the victim one of its members; max_cycle_length is set to 64 (> 8)".into(),
            "would_create_cycle(w,h) is judged for w != h only: true <=> a path h ->* w is recorded".into(),
            "a lock's expiry status is derived from the harness' own wall-clock readings before/after each call; anything inside the uncertainty window is not judged (counter ambiguous_expiry_windows_skipped)".into(),
            "a refused try_lock_with_wait_tracking must leave requester -> holder in the wait-for graph for every definitely-live holder (this is what makes 'deadlocks detected' meaningful; documented on the method)".into(),
            "a transaction ends the way the repo ends one: release(tx), or release_by_handle[_with_wait_cleanup] for every handle it was granted (what DistributedTxCoordinator::commit/abort do); when no lock carries any of its handles any more (never granted, released earlier, swept, taken over) release_by_handle_with_wait_cleanup cannot know the owner, so in the LockManager-level parts the harness removes the transaction from the graph itself (counter graph_cleanup_left_to_caller) and the real caller, the coordinator, is judged on exactly this in part coord".into(),
            "in the threaded part the shadow owner mark is set after a grant returned and cleared before the release call; with the 40 ms timeout a collision only counts if the earlier holder's grant is provably younger than half the timeout".into(),
            "a PREPARE may be delivered more than once (retransmission / duplicate delivery of the identical request) while the transaction is pending at the coordinator, and at any time at a participant; two different PREPAREs of one transaction are not generated. A transaction's locks are what its PREPAREs were granted, however often; 'none of its locks remain' is judged on all of them".into(),
            "participant: the requested key set of a PREPARE is the set of stored entries its operations write (Transaction::storage_key); a prepared transaction has timed out when cleanup_stale / recover says so, and in any case when its latest PREPARE was answered more than the timeout before the sweep began (harness clock), whether or not the sweep lists it".into(),
            "participant-lease / coord-lease: a key lock holds as long as its lease (LockManager::default_timeout at the grant) runs; the prepared / pending entry of a transaction may outlive its locks. Leases run out by a downtime (the persisted lock table comes back with the chosen locks 100 leases + 1 s older, everything else as saved) or, at the participant, in real time (25 ms leases, 40 ms naps); status is derived from the harness' clock readings around every grant, undecidable windows are not judged (participant_lease_ambiguous_lease_windows_skipped). A retransmitted PREPARE answered YES while the key was still held may or may not renew the lease (both grants stay candidates); answered YES after the lease ran out it must be a fresh grant (the key is held by the requester right after). A PREPARE refused although the only other locks on its keys had run out for certain is reported (participant:prepare-refused-because-of-expired-lock), as locks-seq does for try_lock".into(),
            "coord-threads: requests carry zero deltas (the semantic stage never refuses, so nothing but a completion may drop a pending transaction's locks); prepare timeout 1 h and 30 s lock lease against cases of milliseconds (a lock older than 8 s is not judged: inconclusive); release_orphaned_locks never overlaps commit / abort / complete_abort / cleanup_timeouts (harness gate: the two sides take `pending` and the lock tables in opposite orders), it overlaps begin / handle_prepare / record_vote and the observers".into(),
            "takeover-threads: the old locks are planted through SerializableLockState::new + LockManager::from_serializable (what load_from_store does after a downtime): leases of 1-10 s that began 100 leases + 1 s ago (definitely run out) or 1 h leases that began now; every new grant has a 1 h lease (default_timeout of the restored state) and a round lasts milliseconds (older than 300 s: inconclusive), so 'unexpired' is never in doubt. One request = one new transaction. The shadow mark is set after the grant returned and cleared before the release call, so two marks on one key imply two unexpired, unreleased holders. The maintenance threads' start is steered by a progress counter; counters takeover_sweeps_removing_locks_amid_requests / _overlapped_by_requests (requests were answered before / during a sweep that removed locks) are evidence, never verdicts".into(),
        ],
        floors,
        exhaustive,
    };
    write_result(&args, &meta, &total, started);
}
