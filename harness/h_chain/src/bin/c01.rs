//! C01 — Raft: committed log entries are never lost or contradicted.
//!
//! Deterministic discrete-event simulation of 3 or 5 REAL `tensor_chain::raft::RaftNode` objects
//! (each with its real write-ahead log on a scratch tmpfs) wired through `h_chain::CaptureTransport`.
//! The simulator owns the network and the clocks: it decides which in-flight message is delivered,
//! duplicated or dropped, whose election timer fires, when a leader heartbeats, when a client
//! proposes, which node is cut off and which node crashes (object dropped, WAL file kept) or restarts
//! (`RaftNode::with_wal`). Every event is one the real run loop (`RaftNode::run` / `tick_async` /
//! `cluster.rs`) can produce; no message is hand-made, except the SnapshotRequest of a lagging
//! follower (the repository has the handlers for snapshot transfer but no sender).
//!
//! One case in three runs with log compaction and snapshot transfer reachable: the application
//! finalizes, the leader's tick compacts, a follower behind the leader's snapshot pulls it chunk by
//! chunk, installs it, keeps acknowledging entries, crashes, restarts from its WAL, gets elected.
//!
//! Online monitor (oracle), evaluated after every event on the node the event touched:
//!  (i)   commit agreement — `committed: index -> (term, payload id)`; first reporter wins, every
//!        later report (any node, any time) must agree;
//!  (ii)  leader completeness — a node that is Leader in term T holds every entry that was reported
//!        committed by a node whose term was < T (at its election) / <= T (while it stays leader);
//!  (iii) election safety — at most one node is ever observed Leader in a term;
//!  (iv)  log matching — two live logs that agree on the term at a position agree on all earlier ones;
//!  (v)   a node's commit index never points beyond its own log or at an index missing inside it;
//!  (vi)  a node's snapshot (last included index/term) agrees with the committed map.
//! With compaction only indices a node still holds are compared.
//!
//! Parts: `random` (seeded schedules, config matrix pre-vote x fast-path x geometric tie-break,
//! 3 and 5 voters), `directed` (a few hand-ordered hostile schedules, executed through the same
//! simulator and judged by the same monitor) and `mixed` (a directed schedule cut at a random point
//! and continued by a seeded random walk).

use common::*;
use h_chain::CaptureTransport;
use serde::{Deserialize, Serialize};
use serde_json::{json, Value};
use std::collections::BTreeMap;
use std::path::PathBuf;
use std::sync::Arc;
use std::time::Instant;
use tensor_chain::block::{Block, BlockHeader};
use tensor_chain::network::{Message, SnapshotRequest};
use tensor_chain::raft::{RaftConfig, RaftNode, RaftState};
use tensor_store::{SparseVector, TensorStore};

thread_local! {
    static RT: tokio::runtime::Runtime =
        tokio::runtime::Builder::new_current_thread().build().expect("tokio current-thread runtime");
    static STORE: TensorStore = TensorStore::new();
}

fn block_on<F: std::future::Future>(f: F) -> F::Output {
    RT.with(|rt| rt.block_on(f))
}

// ------------------------------------------------------------------------------------------------
// configuration of one simulated cluster
// ------------------------------------------------------------------------------------------------

#[derive(Clone, Copy, Debug, PartialEq, Eq)]
struct Cfg {
    nodes: usize,
    pre_vote: bool,
    fast_path: bool,
    geometric: bool,
    /// 0 = no log compaction (snapshot_threshold stays at 10 000); 1..=4 = compaction and snapshot
    /// transfer reachable with a handful of entries (see `COMPACTION`)
    snap: u8,
}

/// (snapshot_threshold, snapshot_trailing_logs, snapshot_chunk_size) of the compaction variants
/// Variants 1 and 2 take snapshots but keep the whole log behind them (trailing logs 1000), so every
/// snapshot carries the log from index 1; variants 3 and 4 also drain the log behind the snapshot
/// (only run with `--drain 1`, see Meta.assumptions).
const COMPACTION: [(usize, usize, u64); 5] = [(10_000, 100, 1 << 20), (3, 1_000, 1 << 20), (4, 1_000, 256), (3, 1, 1 << 20), (5, 0, 256)];

impl Cfg {
    fn from_bits(nodes: usize, bits: u64) -> Cfg {
        Cfg { nodes, pre_vote: bits & 1 != 0, fast_path: bits & 2 != 0, geometric: bits & 4 != 0, snap: ((bits >> 3) & 7).min(4) as u8 }
    }
    fn bits(&self) -> u64 {
        self.pre_vote as u64 | (self.fast_path as u64) << 1 | (self.geometric as u64) << 2 | (self.snap as u64) << 3
    }
    fn name(&self) -> String {
        let c = COMPACTION[self.snap as usize];
        format!(
            "n{}:prevote={}:fastpath={}:geometric={}{}",
            self.nodes,
            self.pre_vote as u8,
            self.fast_path as u8,
            self.geometric as u8,
            if self.snap > 0 { format!(":compaction=thr{}/trail{}/chunk{}", c.0, c.1, c.2) } else { String::new() }
        )
    }
    fn raft(&self, tmp: &std::path::Path) -> RaftConfig {
        let c = COMPACTION[self.snap as usize];
        let base = if self.snap > 0 {
            RaftConfig {
                snapshot_threshold: c.0,
                snapshot_trailing_logs: c.1,
                snapshot_chunk_size: c.2,
                compaction_check_interval: 1,
                compaction_cooldown_ms: 0,
                // the leader's tick is used for compaction only; heartbeats stay explicit simulator
                // events (tick_async would send them depending on wall time)
                heartbeat_interval: 3_600_000,
                snapshot_temp_dir: Some(tmp.to_path_buf()),
                ..RaftConfig::default()
            }
        } else {
            RaftConfig::default()
        };
        RaftConfig {
            // `handle_pre_vote` grants only when the voter's own election timer has run out
            // (`last_heartbeat.elapsed() > election_timeout.0`). With 8 s here, a timer that was just
            // reset by a heartbeat/vote is "running" for the whole (millisecond-scale) schedule, and
            // `reset_heartbeat_for_election()` (now - 10 s) makes it "run out" — so timers are
            // simulator events, not wall time. Either reading is legal behaviour anyway.
            election_timeout: (8_000, 8_001),
            enable_pre_vote: self.pre_vote,
            enable_fast_path: self.fast_path,
            enable_geometric_tiebreak: self.geometric,
            auto_heartbeat: false,
            ..base
        }
    }
}

fn nid(i: usize) -> String {
    format!("n{}", i)
}
fn nidx(s: &str) -> Option<usize> {
    s.strip_prefix('n').and_then(|x| x.parse().ok())
}

// ------------------------------------------------------------------------------------------------
// events
// ------------------------------------------------------------------------------------------------

/// Identifies an in-flight message by everything that determines its content (a leader's log is
/// append-only within its term, so (term, prev, len, commit) fixes an AppendEntries). Deliver/Dup/Drop
/// act on the *oldest* in-flight message with this key; that keeps recorded schedules meaningful
/// when other events are deleted from them (shrinking).
#[derive(Clone, Debug, PartialEq, Eq, Serialize, Deserialize)]
struct MKey {
    from: usize,
    to: usize,
    k: String,
    t: u64,
    a: u64,
    b: u64,
    c: u64,
}

fn mkey(from: usize, to: usize, m: &Message) -> MKey {
    let (k, t, a, b, c) = match m {
        Message::RequestVote(x) => ("RV", x.term, x.last_log_index, x.last_log_term, 0),
        Message::RequestVoteResponse(x) => ("RVR", x.term, x.vote_granted as u64, 0, 0),
        Message::PreVote(x) => ("PV", x.term, x.last_log_index, x.last_log_term, 0),
        Message::PreVoteResponse(x) => ("PVR", x.term, x.vote_granted as u64, 0, 0),
        Message::AppendEntries(x) => ("AE", x.term, x.prev_log_index, x.entries.len() as u64, x.leader_commit),
        Message::AppendEntriesResponse(x) => ("AER", x.term, x.success as u64, x.match_index, 0),
        Message::SnapshotRequest(x) => ("SRQ", 0, x.offset, x.chunk_size, 0),
        Message::SnapshotResponse(x) => ("SRS", x.snapshot_height, x.offset, x.data.len() as u64, x.is_last as u64),
        other => (other.type_name(), 0, 0, 0, 0),
    };
    MKey { from, to, k: k.to_string(), t, a, b, c }
}

fn mdesc(m: &Message) -> String {
    match m {
        Message::RequestVote(x) => format!("RequestVote(term {}, last {}@t{})", x.term, x.last_log_index, x.last_log_term),
        Message::RequestVoteResponse(x) => format!("VoteResponse(term {}, granted {})", x.term, x.vote_granted),
        Message::PreVote(x) => format!("PreVote(term {}, last {}@t{})", x.term, x.last_log_index, x.last_log_term),
        Message::PreVoteResponse(x) => format!("PreVoteResponse(term {}, granted {})", x.term, x.vote_granted),
        Message::AppendEntries(x) => format!(
            "AppendEntries(term {}, prev {}@t{}, entries [{}], leader_commit {})",
            x.term,
            x.prev_log_index,
            x.prev_log_term,
            x.entries.iter().map(|e| format!("{}:t{}#{}", e.index, e.term, e.block.header.height)).collect::<Vec<_>>().join(" "),
            x.leader_commit
        ),
        Message::AppendEntriesResponse(x) => {
            format!("AppendResponse(term {}, success {}, match_index {})", x.term, x.success, x.match_index)
        }
        Message::SnapshotRequest(x) => format!("SnapshotRequest(offset {}, chunk_size {})", x.offset, x.chunk_size),
        Message::SnapshotResponse(x) => format!(
            "SnapshotResponse(height {}, offset {}, {} of {} bytes, last {})",
            x.snapshot_height,
            x.offset,
            x.data.len(),
            x.total_size,
            x.is_last
        ),
        other => other.type_name().to_string(),
    }
}

#[derive(Clone, Debug, PartialEq, Serialize, Deserialize)]
#[serde(tag = "ev")]
enum Ev {
    /// deliver the oldest in-flight message with this key (lost if an endpoint is cut off)
    Deliver { key: MKey },
    Dup { key: MKey },
    Drop { key: MKey },
    /// election timer of a non-leader fires: `reset_heartbeat_for_election` + the real `tick_async`
    /// (which starts a pre-vote or an election according to the node's config)
    Timeout { n: usize },
    /// election timer of a non-leader runs out but its tick has not fired yet (it will grant pre-votes)
    Elapse { n: usize },
    /// `start_election_async` directly (what the tick does with pre-vote off; with pre-vote on see
    /// the assumption in Meta)
    Election { n: usize },
    Heartbeat { n: usize },
    Propose { n: usize, hb: bool },
    QuorumCheck { n: usize },
    Isolate { n: usize },
    Heal { n: usize },
    Crash { n: usize },
    Restart { n: usize },
    /// the application on node n has applied everything committed: `finalize_to(commit_index)`
    /// (`upto`: the application lags and has applied only that far)
    Finalize {
        n: usize,
        #[serde(default)]
        upto: Option<u64>,
    },
    /// the leader's periodic tick (`tick_async`): automatic log compaction behind the finalized height
    LeaderTick { n: usize },
    /// a follower that can no longer be caught up from its leader's log asks it for the snapshot
    /// (first chunk; the following chunks are requested as the answers arrive)
    SnapRequest { n: usize },
}

impl Ev {
    fn kind(&self) -> &'static str {
        match self {
            Ev::Deliver { .. } => "deliver",
            Ev::Dup { .. } => "duplicate",
            Ev::Drop { .. } => "drop",
            Ev::Timeout { .. } => "election_timeout",
            Ev::Elapse { .. } => "timer_elapse",
            Ev::Election { .. } => "start_election",
            Ev::Heartbeat { .. } => "heartbeat",
            Ev::Propose { .. } => "propose",
            Ev::QuorumCheck { .. } => "quorum_check",
            Ev::Isolate { .. } => "isolate",
            Ev::Heal { .. } => "heal",
            Ev::Crash { .. } => "crash",
            Ev::Restart { .. } => "restart",
            Ev::Finalize { .. } => "finalize",
            Ev::LeaderTick { .. } => "leader_tick",
            Ev::SnapRequest { .. } => "snapshot_request",
        }
    }
}

// ------------------------------------------------------------------------------------------------
// monitor
// ------------------------------------------------------------------------------------------------

#[derive(Clone, Debug)]
struct Committed {
    term: u64,
    id: u64,
    /// current term of the node that first reported it (the entry was committed in a term <= this)
    report_term: u64,
    reporter: usize,
    step: usize,
}

#[derive(Clone, Debug)]
struct Found {
    signature: String,
    detail: String,
    step: usize,
}

/// What a node holds of the log: entries by index (a compacted prefix is simply absent).
#[derive(Clone, Debug, Default)]
struct Img {
    /// index of the first held entry (1 when nothing was compacted)
    first: u64,
    /// ents[k] = (term, payload id) of index first + k; None = the node holds later entries but not this one
    ents: Vec<Option<(u64, u64)>>,
}

impl Img {
    fn last(&self) -> u64 {
        if self.ents.is_empty() {
            0
        } else {
            self.first + self.ents.len() as u64 - 1
        }
    }
    fn get(&self, i: u64) -> Option<(u64, u64)> {
        if i < self.first || self.ents.is_empty() {
            return None;
        }
        self.ents.get((i - self.first) as usize).copied().flatten()
    }
}

#[derive(Default)]
struct Monitor {
    committed: BTreeMap<u64, Committed>,
    leader_of: BTreeMap<u64, usize>,
    /// last image of every live node's log
    logs: Vec<Option<Img>>,
    /// (last_included_index, last_included_term) of every live node's snapshot, if it has one
    snaps: Vec<Option<(u64, u64)>>,
    /// prev_log_index + entries.len() of the last AppendEntries each node handled (labels only)
    last_new: Vec<u64>,
    /// node restarted after it had installed a snapshot (evidence only)
    restarted_after_install: Vec<bool>,
    found: Option<Found>,
    // evidence
    commit_checks: u64,
    new_commits: u64,
    leaders_seen: u64,
    leaders_after_install_and_restart: u64,
    completeness_checks: u64,
    completeness_behind_snapshot: u64,
    matching_checks: u64,
    snapshot_checks: u64,
    max_term: u64,
    max_commit: u64,
}

fn fmt_log(l: &Img) -> String {
    let body = l
        .ents
        .iter()
        .enumerate()
        .map(|(k, e)| match e {
            Some((t, id)) => format!("{}:t{}#{}", l.first + k as u64, t, id),
            None => format!("{}:MISSING", l.first + k as u64),
        })
        .collect::<Vec<_>>()
        .join(" ");
    if l.first > 1 && !l.ents.is_empty() {
        format!("(1..{} compacted) {}", l.first - 1, body)
    } else {
        body
    }
}

impl Monitor {
    fn new(n: usize) -> Monitor {
        Monitor { logs: vec![None; n], snaps: vec![None; n], last_new: vec![0; n], restarted_after_install: vec![false; n], ..Default::default() }
    }
    fn flag(&mut self, step: usize, sig: &str, detail: String) {
        if self.found.is_none() {
            self.found = Some(Found { signature: sig.to_string(), detail, step });
        }
    }

    /// `node` is live; its current image is in `self.logs[node]`. Only indices the node still holds
    /// are compared; what lies behind its compaction point is represented by its snapshot.
    fn check(&mut self, step: usize, node: usize, role: RaftState, term: u64, commit: u64, log_changed: bool) {
        if self.found.is_some() {
            return;
        }
        let log = match &self.logs[node] {
            Some(l) => l.clone(),
            None => return,
        };
        self.max_term = self.max_term.max(term);
        self.max_commit = self.max_commit.max(commit);
        // (v)
        if commit > log.last() {
            self.flag(
                step,
                "commit-index-beyond-own-log",
                format!("n{} (term {}, {:?}) has commit_index {} but its log ends at {}: [{}]", node, term, role, commit, log.last(), fmt_log(&log)),
            );
            return;
        }
        // (i)
        for i in log.first.max(1)..=commit {
            let (t, id) = match log.get(i) {
                Some(e) => e,
                None => {
                    self.flag(
                        step,
                        "commit-index-covers-missing-entry",
                        format!("n{} (term {}, {:?}) has commit_index {} but holds no entry at index {} inside its log: [{}]", node, term, role, commit, i, fmt_log(&log)),
                    );
                    return;
                }
            };
            match self.committed.get(&i) {
                Some(c) => {
                    self.commit_checks += 1;
                    if (c.term, c.id) != (t, id) {
                        let who = match role {
                            RaftState::Leader => "leader",
                            RaftState::Follower => {
                                if i > self.last_new[node] {
                                    "follower-past-last-new-entry"
                                } else {
                                    "follower"
                                }
                            }
                            _ => "candidate",
                        };
                        let c = c.clone();
                        self.flag(
                            step,
                            &format!("commit-contradiction:reported-by-{}", who),
                            format!(
                                "index {}: n{} reported entry t{}#{} committed at step {} (its term then {}); now n{} ({:?}, term {}, commit_index {}) reports t{}#{} at that index (last AppendEntries it handled covered up to index {}). log of n{}: [{}]",
                                i, c.reporter, c.term, c.id, c.step, c.report_term, node, role, term, commit, t, id, self.last_new[node], node, fmt_log(&log)
                            ),
                        );
                        return;
                    }
                }
                None => {
                    self.new_commits += 1;
                    self.committed.insert(i, Committed { term: t, id, report_term: term, reporter: node, step });
                }
            }
        }
        // a snapshot stands for committed entries: its last included (index, term) must be the
        // committed entry of that index
        if let Some((si, st)) = self.snaps[node] {
            if let Some(c) = self.committed.get(&si) {
                self.snapshot_checks += 1;
                if c.term != st {
                    let c = c.clone();
                    self.flag(
                        step,
                        "snapshot-disagrees-with-committed-entry",
                        format!(
                            "n{} holds a snapshot ending at index {} term {}, but n{} reported t{}#{} committed at that index at step {}",
                            node, si, st, c.reporter, c.term, c.id, c.step
                        ),
                    );
                    return;
                }
            }
        }
        // (iii) + (ii)
        if role == RaftState::Leader {
            let mut newly = false;
            match self.leader_of.get(&term) {
                Some(&m) if m != node => {
                    self.flag(step, "two-leaders-in-one-term", format!("term {}: n{} was observed Leader, now n{} is Leader in the same term", term, m, node));
                    return;
                }
                Some(_) => {}
                None => {
                    self.leader_of.insert(term, node);
                    self.leaders_seen += 1;
                    if self.restarted_after_install[node] {
                        self.leaders_after_install_and_restart += 1;
                    }
                    newly = true;
                }
            }
            let mut miss: Option<(u64, Committed)> = None;
            for (i, c) in &self.committed {
                let applies = if newly { c.report_term < term } else { c.report_term <= term };
                if !applies {
                    continue;
                }
                if *i < log.first && !log.ents.is_empty() {
                    // behind the leader's compaction point: covered by its snapshot, not comparable
                    self.completeness_behind_snapshot += 1;
                    continue;
                }
                self.completeness_checks += 1;
                if log.get(*i) != Some((c.term, c.id)) {
                    miss = Some((*i, c.clone()));
                    break;
                }
            }
            if let Some((i, c)) = miss {
                let have = log.get(i).map(|(t, id)| format!("t{}#{}", t, id)).unwrap_or_else(|| "nothing".into());
                self.flag(
                    step,
                    if newly { "leader-elected-without-committed-entry" } else { "leader-lacks-committed-entry" },
                    format!(
                        "n{} is Leader of term {} but holds {} at index {}, where n{} reported t{}#{} committed at step {} (in term {}). leader log: [{}]",
                        node, term, have, i, c.reporter, c.term, c.id, c.step, c.report_term, fmt_log(&log)
                    ),
                );
                return;
            }
        }
        // (iv) over the range both nodes hold
        if log_changed {
            for o in 0..self.logs.len() {
                if o == node {
                    continue;
                }
                let other = match &self.logs[o] {
                    Some(l) => l,
                    None => continue,
                };
                self.matching_checks += 1;
                if log.ents.is_empty() || other.ents.is_empty() {
                    continue;
                }
                let lo = log.first.max(other.first);
                let hi = log.last().min(other.last());
                if lo > hi {
                    continue;
                }
                let mut top = None;
                let mut i = hi;
                loop {
                    if let (Some(a), Some(b)) = (log.get(i), other.get(i)) {
                        if a.0 == b.0 {
                            top = Some(i);
                            break;
                        }
                    }
                    if i == lo {
                        break;
                    }
                    i -= 1;
                }
                if let Some(top) = top {
                    let mut bad: Option<(u64, &'static str)> = None;
                    if log.get(top).map(|e| e.1) != other.get(top).map(|e| e.1) {
                        bad = Some((top, "log-matching:same-index-and-term-different-entry"));
                    }
                    for j in lo..top {
                        let (a, b) = (log.get(j), other.get(j));
                        if a != b {
                            bad = Some((j, if a.is_none() || b.is_none() { "log-matching:earlier-position-missing" } else { "log-matching:earlier-position-differs" }));
                            break;
                        }
                    }
                    if let Some((j, sig)) = bad {
                        let d = format!(
                            "n{} and n{} both hold term {} at index {}, but differ at index {}: n{} [{}] vs n{} [{}]",
                            node, o, log.get(top).map(|e| e.0).unwrap_or(0), top, j, node, fmt_log(&log), o, fmt_log(other)
                        );
                        self.flag(step, sig, d);
                        return;
                    }
                }
            }
        }
    }
}

// ------------------------------------------------------------------------------------------------
// simulator
// ------------------------------------------------------------------------------------------------

struct Live {
    raft: RaftNode,
    tr: Arc<CaptureTransport>,
}

struct Flight {
    from: usize,
    to: usize,
    msg: Message,
    key: MKey,
    seq: u64,
    /// straggler: the random scheduler picks it rarely (a message that is delayed for a long time)
    slow: bool,
}

struct Sim {
    cfg: Cfg,
    ids: Vec<String>,
    nodes: Vec<Option<Live>>,
    wal: Vec<PathBuf>,
    embed: Vec<Option<Vec<f32>>>,
    inflight: Vec<Flight>,
    isolated: Vec<bool>,
    crashes: Vec<u32>,
    /// node installed a snapshot since it was last started
    installed_since_boot: Vec<bool>,
    /// node has been observed Leader at some point (generator bias only)
    was_leader: Vec<bool>,
    next_payload: u64,
    next_seq: u64,
    dups: u32,
    mon: Monitor,
    step: usize,
    counts: BTreeMap<String, u64>,
    /// harness-side trouble (never a violation)
    trouble: Option<String>,
    trace: Option<Vec<String>>,
    hash: u64,
    _scratch: Scratch,
}

const MAX_CRASHES_PER_NODE: u32 = 3;
const MAX_INFLIGHT: usize = 160;
const MAX_DUPS: u32 = 60;

impl Sim {
    fn new(args: &Args, cfg: Cfg, embed: Vec<Option<Vec<f32>>>, want_trace: bool) -> Sim {
        let scratch = args.scratch_dir("c01");
        let ids: Vec<String> = (0..cfg.nodes).map(nid).collect();
        let wal: Vec<PathBuf> = (0..cfg.nodes).map(|i| scratch.join(&format!("n{}.wal", i))).collect();
        let mut s = Sim {
            cfg,
            ids,
            nodes: (0..cfg.nodes).map(|_| None).collect(),
            wal,
            embed,
            inflight: Vec::new(),
            isolated: vec![false; cfg.nodes],
            crashes: vec![0; cfg.nodes],
            installed_since_boot: vec![false; cfg.nodes],
            was_leader: vec![false; cfg.nodes],
            next_payload: 1,
            next_seq: 0,
            dups: 0,
            mon: Monitor::new(cfg.nodes),
            step: 0,
            counts: BTreeMap::new(),
            trouble: None,
            trace: if want_trace { Some(Vec::new()) } else { None },
            hash: 0x51ed_270b,
            _scratch: scratch,
        };
        for i in 0..cfg.nodes {
            s.boot(i);
        }
        s
    }

    fn cnt(&mut self, k: &str) {
        *self.counts.entry(k.to_string()).or_insert(0) += 1;
    }

    fn boot(&mut self, i: usize) -> bool {
        let peers: Vec<String> = (0..self.cfg.nodes).filter(|&j| j != i).map(nid).collect();
        let tr = CaptureTransport::new(&self.ids[i], &peers);
        let rcfg = self.cfg.raft(self._scratch.path());
        match RaftNode::with_wal(self.ids[i].clone(), peers, tr.clone(), rcfg, &self.wal[i]) {
            Ok(raft) => {
                if self.installed_since_boot[i] {
                    self.installed_since_boot[i] = false;
                    self.mon.restarted_after_install[i] = true;
                    self.cnt("installs_followed_by_restart");
                }
                if let Some(e) = &self.embed[i] {
                    raft.update_state_embedding_dense(e);
                }
                self.nodes[i] = Some(Live { raft, tr });
                true
            }
            Err(e) => {
                self.trouble = Some(format!("with_wal failed on n{}: {}", i, e));
                false
            }
        }
    }

    fn role(&self, n: usize) -> Option<RaftState> {
        self.nodes[n].as_ref().map(|l| l.raft.state())
    }
    fn is_leader(&self, n: usize) -> bool {
        self.role(n) == Some(RaftState::Leader)
    }

    fn send(&mut self, from: usize, to: usize, msg: Message) {
        let key = mkey(from, to, &msg);
        let seq = self.next_seq;
        self.next_seq += 1;
        self.inflight.push(Flight { from, to, msg, key, seq, slow: false });
    }

    fn drain(&mut self, n: usize) -> usize {
        let out = match &self.nodes[n] {
            Some(l) => l.tr.drain(),
            None => return 0,
        };
        let k = out.len();
        for (to, m) in out {
            if let Some(t) = nidx(&to) {
                if t < self.cfg.nodes {
                    self.send(n, t, m);
                }
            }
        }
        k
    }

    /// read the full (term, vote, log) image of a live node through the public persistence API
    fn read_image(&mut self, n: usize) -> bool {
        let id = self.ids[n].clone();
        let live = match &self.nodes[n] {
            Some(l) => l,
            None => return false,
        };
        let r = STORE.with(|st| match live.raft.save_to_store(st) {
            Ok(()) => RaftNode::load_from_store(&id, st).ok_or_else(|| "load_from_store returned None".to_string()),
            Err(e) => Err(format!("save_to_store: {}", e)),
        });
        match r {
            Ok((_term, _vote, log)) => {
                let mut img = Img { first: log.first().map_or(1, |e| e.index), ents: Vec::with_capacity(log.len()) };
                let mut next = img.first;
                for e in log.iter() {
                    if e.index < next || e.index > next + 10_000 {
                        // the same index twice / indices running backwards: not a log any more
                        let step = self.step;
                        let all = log.iter().map(|e| format!("{}:t{}#{}", e.index, e.term, e.block.header.height)).collect::<Vec<_>>().join(" ");
                        self.mon.flag(step, "log-indices-not-increasing", format!("n{} holds a log whose entry indices do not increase: [{}]", n, all));
                        return false;
                    }
                    while next < e.index {
                        img.ents.push(None);
                        next += 1;
                    }
                    img.ents.push(Some((e.term, e.block.header.height)));
                    next += 1;
                }
                if img.ents.iter().any(|e| e.is_none()) {
                    self.cnt("images_with_missing_index");
                }
                self.mon.logs[n] = Some(img);
                self.cnt("image_reads");
                true
            }
            Err(e) => {
                self.trouble = Some(format!("image of n{}: {}", n, e));
                false
            }
        }
    }

    fn observe(&mut self, n: usize, log_may_have_changed: bool) {
        if self.nodes[n].is_none() {
            return;
        }
        if log_may_have_changed || self.mon.logs[n].is_none() {
            if !self.read_image(n) {
                return;
            }
        }
        let (role, term, commit, snap) = {
            let l = self.nodes[n].as_ref().unwrap();
            (l.raft.state(), l.raft.current_term(), l.raft.commit_index(), l.raft.get_snapshot_metadata().map(|m| (m.last_included_index, m.last_included_term)))
        };
        self.mon.snaps[n] = snap;
        if role == RaftState::Leader {
            self.was_leader[n] = true;
        }
        let step = self.step;
        self.mon.check(step, n, role, term, commit, log_may_have_changed);
    }

    fn state_line(&self, n: usize) -> String {
        match &self.nodes[n] {
            Some(l) => format!(
                "n{}: {:?} term {} commit {}{} log [{}]",
                n,
                l.raft.state(),
                l.raft.current_term(),
                l.raft.commit_index(),
                l.raft.get_snapshot_metadata().map(|m| format!(" snapshot@{}t{}", m.last_included_index, m.last_included_term)).unwrap_or_default(),
                self.mon.logs[n].as_ref().map(|x| fmt_log(x)).unwrap_or_default()
            ),
            None => format!("n{}: down", n),
        }
    }

    fn note(&mut self, s: String) {
        let step = self.step;
        if let Some(t) = &mut self.trace {
            t.push(format!("{:>3}. {}", step, s));
        }
    }

    /// The leader a lagging follower would pull a snapshot from: the node it believes to be leader,
    /// provided that node really leads and either its snapshot reaches beyond the end of the
    /// follower's log (the follower is behind the snapshot) or the leader's own
    /// `needs_snapshot_for_follower` says that log replication cannot serve this follower any more
    /// (its next_index has been backed up below the leader's first held entry). Nothing in the repository sends SnapshotRequest (only
    /// the two handlers exist), so the simulator plays the pulling follower's driver.
    fn snap_request_target(&self, n: usize) -> Option<usize> {
        if self.cfg.snap == 0 || n >= self.cfg.nodes {
            return None;
        }
        let me = self.nodes[n].as_ref()?;
        if me.raft.state() != RaftState::Follower {
            return None;
        }
        let l = nidx(&me.raft.current_leader()?)?;
        if l == n || l >= self.cfg.nodes || !self.is_leader(l) {
            return None;
        }
        let ll = self.nodes[l].as_ref()?;
        let snap = ll.raft.get_snapshot_metadata()?;
        if snap.last_included_index > me.raft.last_log_index() || ll.raft.needs_snapshot_for_follower(&self.ids[n]) {
            Some(l)
        } else {
            None
        }
    }

    fn find(&self, key: &MKey) -> Option<usize> {
        self.inflight.iter().position(|f| &f.key == key)
    }

    fn block(&mut self, proposer: usize) -> Block {
        let id = self.next_payload;
        self.next_payload += 1;
        let mut h = BlockHeader::default();
        h.height = id;
        h.proposer = nid(proposer);
        // embeddings close to each other so that the similarity fast-path is actually taken sometimes
        h.delta_embedding = SparseVector::from_dense(&[1.0, 0.02 * (id % 5) as f32, 0.0, if id % 7 == 0 { 3.0 } else { 0.0 }]);
        Block::new(h, vec![])
    }

    /// Executes `ev` if it is enabled in the current state; returns whether it was.
    fn apply(&mut self, ev: &Ev) -> bool {
        if self.mon.found.is_some() || self.trouble.is_some() {
            return false;
        }
        let n_nodes = self.cfg.nodes;
        let ok = match ev {
            Ev::Deliver { key } => {
                if key.to >= n_nodes || key.from >= n_nodes || self.nodes[key.to].is_none() {
                    return false;
                }
                let idx = match self.find(key) {
                    Some(i) => i,
                    None => return false,
                };
                let f = self.inflight.remove(idx);
                self.step += 1;
                if self.isolated[f.from] || self.isolated[f.to] {
                    self.cnt("msgs_lost_in_partition");
                    self.note(format!("n{} -> n{} {} LOST (partition)", f.from, f.to, mdesc(&f.msg)));
                } else {
                    let is_ae = matches!(f.msg, Message::AppendEntries(_) | Message::SnapshotResponse(_));
                    let snap_before = self.nodes[f.to].as_ref().unwrap().raft.get_snapshot_metadata().map(|m| m.last_included_index);
                    if let Message::AppendEntries(ae) = &f.msg {
                        self.mon.last_new[f.to] = ae.prev_log_index + ae.entries.len() as u64;
                        if ae.block_embedding.is_some() {
                            self.cnt("ae_with_embedding");
                        }
                    }
                    if let Message::AppendEntriesResponse(r) = &f.msg {
                        // evidence only: how often a leader is handed an answer from an earlier term
                        let (stale, beyond) = {
                            let l = &self.nodes[f.to].as_ref().unwrap().raft;
                            let stale = r.success && l.state() == RaftState::Leader && r.term < l.current_term();
                            (stale, stale && r.match_index > l.last_log_index())
                        };
                        if stale {
                            self.cnt("earlier_term_ack_delivered_to_leader");
                        }
                        if beyond {
                            self.cnt("earlier_term_ack_beyond_leader_log");
                        }
                    }
                    let from_id = self.ids[f.from].clone();
                    let reply = self.nodes[f.to].as_ref().unwrap().raft.handle_message(&from_id, &f.msg);
                    self.cnt(&format!("delivered_{}", f.key.k));
                    if let Some(Message::AppendEntriesResponse(r)) = &reply {
                        if r.used_fast_path {
                            self.cnt("fast_path_taken");
                        }
                    }
                    let rd = reply.as_ref().map(mdesc);
                    if let Some(r) = reply {
                        self.send(f.to, f.from, r);
                    }
                    if let Message::SnapshotResponse(sr) = &f.msg {
                        let snap_after = self.nodes[f.to].as_ref().unwrap().raft.get_snapshot_metadata().map(|m| m.last_included_index);
                        if sr.is_last {
                            if snap_after != snap_before {
                                self.cnt("snapshots_installed");
                                self.installed_since_boot[f.to] = true;
                            } else {
                                self.cnt("snapshot_last_chunks_not_installed");
                            }
                        } else if self.role(f.to) == Some(RaftState::Follower) {
                            // the requester asks for the next chunk (what a pulling follower does)
                            let next = Message::SnapshotRequest(SnapshotRequest {
                                requester_id: self.ids[f.to].clone(),
                                offset: sr.offset + sr.data.len() as u64,
                                chunk_size: COMPACTION[self.cfg.snap as usize].2,
                            });
                            self.send(f.to, f.from, next);
                        }
                    }
                    self.drain(f.to);
                    self.observe(f.to, is_ae);
                    if self.trace.is_some() {
                        let s = format!(
                            "n{} -> n{} {}{}   => {}",
                            f.from,
                            f.to,
                            mdesc(&f.msg),
                            rd.map(|r| format!("; replies {}", r)).unwrap_or_default(),
                            self.state_line(f.to)
                        );
                        self.note(s);
                    }
                }
                true
            }
            Ev::Dup { key } => {
                if self.dups >= MAX_DUPS {
                    return false;
                }
                match self.find(key) {
                    Some(i) => {
                        self.step += 1;
                        self.dups += 1;
                        let (from, to, m) = (self.inflight[i].from, self.inflight[i].to, self.inflight[i].msg.clone());
                        self.note(format!("network duplicates n{} -> n{} {}", from, to, mdesc(&m)));
                        self.send(from, to, m);
                        true
                    }
                    None => false,
                }
            }
            Ev::Drop { key } => match self.find(key) {
                Some(i) => {
                    self.step += 1;
                    let f = self.inflight.remove(i);
                    self.note(format!("network drops n{} -> n{} {}", f.from, f.to, mdesc(&f.msg)));
                    true
                }
                None => false,
            },
            Ev::Timeout { n } | Ev::Election { n } => {
                let n = *n;
                if n >= n_nodes || self.nodes[n].is_none() || self.is_leader(n) {
                    return false;
                }
                self.step += 1;
                let tick = matches!(ev, Ev::Timeout { .. });
                let res = {
                    let l = self.nodes[n].as_ref().unwrap();
                    l.raft.reset_heartbeat_for_election();
                    if tick {
                        block_on(l.raft.tick_async())
                    } else {
                        block_on(l.raft.start_election_async())
                    }
                };
                if let Err(e) = res {
                    self.trouble = Some(format!("election start on n{} failed: {}", n, e));
                    return true;
                }
                let sent = self.drain(n);
                self.observe(n, false);
                if self.trace.is_some() {
                    let s = format!(
                        "{} on n{} ({} messages broadcast)   => {}",
                        if tick { "election timer fires (tick_async)" } else { "start_election_async" },
                        n,
                        sent,
                        self.state_line(n)
                    );
                    self.note(s);
                }
                true
            }
            Ev::Elapse { n } => {
                let n = *n;
                if n >= n_nodes || self.nodes[n].is_none() || self.is_leader(n) {
                    return false;
                }
                self.step += 1;
                self.nodes[n].as_ref().unwrap().raft.reset_heartbeat_for_election();
                self.note(format!("election timer of n{} runs out (tick not yet fired)", n));
                true
            }
            Ev::Heartbeat { n } => {
                let n = *n;
                if n >= n_nodes || !self.is_leader(n) {
                    return false;
                }
                self.step += 1;
                let res = block_on(self.nodes[n].as_ref().unwrap().raft.send_heartbeats());
                if let Err(e) = res {
                    self.trouble = Some(format!("send_heartbeats on n{} failed: {}", n, e));
                    return true;
                }
                let sent = self.drain(n);
                self.observe(n, false);
                self.note(format!("leader n{} sends heartbeats/AppendEntries ({} messages)", n, sent));
                true
            }
            Ev::Propose { n, hb } => {
                let n = *n;
                if n >= n_nodes || !self.is_leader(n) {
                    return false;
                }
                self.step += 1;
                let b = self.block(n);
                let id = b.header.height;
                let res = self.nodes[n].as_ref().unwrap().raft.propose(b);
                match res {
                    Ok(idx) => {
                        self.cnt("proposals_accepted");
                        if *hb {
                            let _ = block_on(self.nodes[n].as_ref().unwrap().raft.send_heartbeats());
                            self.drain(n);
                        }
                        self.observe(n, true);
                        if self.trace.is_some() {
                            let s = format!("client proposes #{} on leader n{}: appended at index {}   => {}", id, n, idx, self.state_line(n));
                            self.note(s);
                        }
                    }
                    Err(e) => {
                        self.cnt("proposals_rejected");
                        self.note(format!("client proposes #{} on n{}: rejected ({})", id, n, e));
                    }
                }
                true
            }
            Ev::QuorumCheck { n } => {
                let n = *n;
                if n >= n_nodes || !self.is_leader(n) {
                    return false;
                }
                self.step += 1;
                self.nodes[n].as_ref().unwrap().raft.check_quorum_health();
                if !self.is_leader(n) {
                    self.cnt("quorum_step_downs");
                }
                self.observe(n, false);
                if self.trace.is_some() {
                    let s = format!("check_quorum_health on n{}   => {}", n, self.state_line(n));
                    self.note(s);
                }
                true
            }
            Ev::Isolate { n } => {
                if *n >= n_nodes || self.isolated[*n] {
                    return false;
                }
                self.step += 1;
                self.isolated[*n] = true;
                self.note(format!("n{} is cut off from the network", n));
                true
            }
            Ev::Heal { n } => {
                if *n >= n_nodes || !self.isolated[*n] {
                    return false;
                }
                self.step += 1;
                self.isolated[*n] = false;
                self.note(format!("n{} is reconnected", n));
                true
            }
            Ev::Crash { n } => {
                let n = *n;
                if n >= n_nodes || self.nodes[n].is_none() || self.crashes[n] >= MAX_CRASHES_PER_NODE {
                    return false;
                }
                self.step += 1;
                self.crashes[n] += 1;
                // process dies between two events (a kill, not an orderly shutdown): the WAL file
                // keeps exactly the bytes that were on disk at that moment; whatever dropping the
                // node object would still flush from user-space buffers is lost with the process
                let on_disk = std::fs::read(&self.wal[n]).ok();
                self.nodes[n] = None;
                if let Some(bytes) = on_disk {
                    let after_drop = std::fs::metadata(&self.wal[n]).map(|m| m.len()).unwrap_or(0);
                    if after_drop != bytes.len() as u64 {
                        self.cnt("crashes_that_lost_buffered_wal_bytes");
                    }
                    let _ = std::fs::write(&self.wal[n], &bytes);
                }
                self.mon.logs[n] = None;
                self.note(format!("n{} CRASHES (killed; WAL file keeps the bytes that were on disk)", n));
                true
            }
            Ev::Restart { n } => {
                let n = *n;
                if n >= n_nodes || self.nodes[n].is_some() {
                    return false;
                }
                self.step += 1;
                if self.boot(n) {
                    self.observe(n, true);
                    if self.trace.is_some() {
                        let s = format!("n{} RESTARTS from its WAL   => {}", n, self.state_line(n));
                        self.note(s);
                    }
                }
                true
            }
            Ev::Finalize { n, upto } => {
                let n = *n;
                if self.cfg.snap == 0 || n >= n_nodes || self.nodes[n].is_none() {
                    return false;
                }
                let (commit, fin) = {
                    let l = &self.nodes[n].as_ref().unwrap().raft;
                    (l.commit_index(), l.finalized_height())
                };
                let commit = upto.map_or(commit, |u| u.min(commit));
                if commit <= fin {
                    return false;
                }
                self.step += 1;
                let ok = self.nodes[n].as_ref().unwrap().raft.finalize_to(commit).is_ok();
                self.note(format!("application on n{} has applied up to {}: finalize_to -> {}", n, commit, if ok { "ok" } else { "refused" }));
                true
            }
            Ev::LeaderTick { n } => {
                let n = *n;
                if self.cfg.snap == 0 || n >= n_nodes || !self.is_leader(n) {
                    return false;
                }
                self.step += 1;
                let before = self.nodes[n].as_ref().unwrap().raft.get_snapshot_metadata().map(|m| m.last_included_index);
                let res = block_on(self.nodes[n].as_ref().unwrap().raft.tick_async());
                let after = self.nodes[n].as_ref().unwrap().raft.get_snapshot_metadata().map(|m| m.last_included_index);
                if after != before {
                    self.cnt("compactions");
                }
                if let Err(e) = &res {
                    self.cnt("leader_tick_errors");
                    self.note(format!("tick_async on leader n{} returned an error: {}", n, e));
                }
                self.drain(n);
                self.observe(n, true);
                if self.trace.is_some() {
                    let s = format!("leader n{} ticks{}   => {}", n, if after != before { " and compacts its log" } else { "" }, self.state_line(n));
                    self.note(s);
                }
                true
            }
            Ev::SnapRequest { n } => {
                let n = *n;
                let l = match self.snap_request_target(n) {
                    Some(l) => l,
                    None => return false,
                };
                self.step += 1;
                let m = Message::SnapshotRequest(SnapshotRequest { requester_id: self.ids[n].clone(), offset: 0, chunk_size: COMPACTION[self.cfg.snap as usize].2 });
                self.note(format!("follower n{} is behind the snapshot of its leader n{} and asks for it", n, l));
                self.send(n, l, m);
                true
            }
        };
        if ok {
            self.cnt(&format!("ev_{}", ev.kind()));
            let tag = match ev {
                Ev::Deliver { key } | Ev::Dup { key } | Ev::Drop { key } => {
                    hash_combine(hash_str(&key.k), (key.from as u64) << 40 | (key.to as u64) << 32 | key.t << 8 | key.a)
                }
                Ev::Timeout { n } | Ev::Elapse { n } | Ev::Election { n } | Ev::Heartbeat { n } | Ev::QuorumCheck { n } | Ev::Isolate { n } | Ev::Heal { n } | Ev::Crash { n } | Ev::Restart { n } | Ev::LeaderTick { n } | Ev::SnapRequest { n } => *n as u64,
                Ev::Finalize { n, upto } => (*n as u64) << 16 | upto.unwrap_or(0),
                Ev::Propose { n, hb } => (*n as u64) << 1 | *hb as u64,
            };
            self.hash = hash_combine(hash_combine(self.hash, hash_str(ev.kind())), tag);
        }
        ok
    }
}

// ------------------------------------------------------------------------------------------------
// random schedule generation
// ------------------------------------------------------------------------------------------------

struct Profile {
    w_deliver: u32,
    w_dup: u32,
    w_drop: u32,
    w_timeout: u32,
    w_elapse: u32,
    w_force: u32,
    w_heartbeat: u32,
    w_propose: u32,
    w_quorum: u32,
    w_partition: u32,
    w_crash: u32,
    w_restart: u32,
    fifo_bias: bool,
    /// percentage of sent messages that become stragglers, and the weight of delivering one
    slow_pct: u32,
    w_slow: u32,
    /// adversarial delay: successful AppendEntries answers become stragglers more often and are then
    /// only released while their addressee leads a later term (any delay is legal for the network)
    hold_acks: bool,
    /// compaction configs only: application finalizes, leader ticks, lagging follower pulls a snapshot
    w_finalize: u32,
    w_tick: u32,
    w_snapreq: u32,
    /// election timers of nodes that have led before fire preferentially (re-elected leaders)
    former_leaders: bool,
    /// every leader reaches only one "near" follower reliably; AppendEntries to the others are lost
    /// half of the time (entries acknowledged by a minority, divergent suffixes)
    partial_replication: bool,
}

fn profile(rng: &mut Rng, cfg: &Cfg) -> Profile {
    let calm = rng.chance(1, 4);
    Profile {
        w_deliver: *rng.pick(&[40, 60, 90]),
        w_dup: if calm { 0 } else { *rng.pick(&[0, 2, 6]) },
        w_drop: if calm { 0 } else { *rng.pick(&[0, 3, 10]) },
        w_timeout: *rng.pick(&[1, 2, 5]),
        w_elapse: if cfg.pre_vote { *rng.pick(&[2, 5]) } else { 0 },
        // With pre-vote on, a won pre-vote ends in the synchronous `start_election()` (raft.rs
        // handle_pre_vote_response), which never broadcasts RequestVote; see Meta.assumptions.
        w_force: if cfg.pre_vote { *rng.pick(&[1, 2, 4]) } else { 0 },
        w_heartbeat: *rng.pick(&[6, 12]),
        w_propose: *rng.pick(&[4, 8, 14]),
        w_quorum: *rng.pick(&[0, 0, 1]),
        w_partition: if calm { 0 } else { *rng.pick(&[0, 1, 3]) },
        w_crash: if calm { 0 } else { *rng.pick(&[0, 1, 3]) },
        w_restart: 6,
        fifo_bias: rng.bool(),
        slow_pct: *rng.pick(&[0, 4, 10]),
        w_slow: *rng.pick(&[1, 2]),
        hold_acks: rng.chance(1, 3),
        w_finalize: if cfg.snap > 0 { *rng.pick(&[3, 6]) } else { 0 },
        w_tick: if cfg.snap > 0 { *rng.pick(&[3, 6]) } else { 0 },
        w_snapreq: if cfg.snap > 0 { *rng.pick(&[4, 10]) } else { 0 },
        former_leaders: rng.chance(1, 3),
        partial_replication: rng.chance(1, 3),
    }
}

fn gen_event(rng: &mut Rng, p: &Profile, s: &Sim) -> Option<Ev> {
    let n = s.cfg.nodes;
    let live: Vec<usize> = (0..n).filter(|&i| s.nodes[i].is_some()).collect();
    let down: Vec<usize> = (0..n).filter(|&i| s.nodes[i].is_none()).collect();
    let leaders: Vec<usize> = live.iter().copied().filter(|&i| s.is_leader(i)).collect();
    let non_leaders: Vec<usize> = live.iter().copied().filter(|&i| !s.is_leader(i)).collect();
    let former: Vec<usize> = if p.former_leaders { non_leaders.iter().copied().filter(|&i| s.was_leader[i]).collect() } else { Vec::new() };
    let deliverable: Vec<usize> = (0..s.inflight.len()).filter(|&k| s.nodes[s.inflight[k].to].is_some() && !s.inflight[k].slow).collect();
    let stragglers: Vec<usize> = (0..s.inflight.len())
        .filter(|&k| {
            let f = &s.inflight[k];
            let live = match &s.nodes[f.to] {
                Some(l) => l,
                None => return false,
            };
            if !f.slow {
                return false;
            }
            if p.hold_acks && f.key.k == "AER" && f.key.a == 1 {
                return live.raft.state() == RaftState::Leader && live.raft.current_term() > f.key.t;
            }
            true
        })
        .collect();
    let crashable: Vec<usize> = live.iter().copied().filter(|&i| s.crashes[i] < MAX_CRASHES_PER_NODE).collect();
    // never take a majority down at once for long: keep the schedule productive (not a soundness matter)
    let can_crash = !crashable.is_empty() && down.len() < n / 2 + 1;
    let cut: Vec<usize> = (0..n).filter(|&i| s.isolated[i]).collect();
    let (finalizable, pullers): (Vec<usize>, Vec<usize>) = if s.cfg.snap > 0 {
        (
            live.iter().copied().filter(|&i| s.nodes[i].as_ref().map_or(false, |l| l.raft.commit_index() > l.raft.finalized_height())).collect(),
            live.iter().copied().filter(|&i| s.snap_request_target(i).is_some()).collect(),
        )
    } else {
        (Vec::new(), Vec::new())
    };
    if s.inflight.len() > MAX_INFLIGHT {
        let k = rng.below(s.inflight.len());
        return Some(Ev::Drop { key: s.inflight[k].key.clone() });
    }
    let w = [
        if deliverable.is_empty() { 0 } else { p.w_deliver },
        if s.inflight.is_empty() || s.dups >= MAX_DUPS { 0 } else { p.w_dup },
        if s.inflight.is_empty() { 0 } else { p.w_drop },
        if non_leaders.is_empty() { 0 } else { p.w_timeout },
        if non_leaders.is_empty() { 0 } else { p.w_elapse },
        if non_leaders.is_empty() { 0 } else { p.w_force },
        if leaders.is_empty() { 0 } else { p.w_heartbeat },
        if leaders.is_empty() { 0 } else { p.w_propose },
        if leaders.is_empty() { 0 } else { p.w_quorum },
        p.w_partition,
        if can_crash { p.w_crash } else { 0 },
        if down.is_empty() { 0 } else { p.w_restart },
        if stragglers.is_empty() { 0 } else if p.hold_acks { p.w_slow * 4 } else { p.w_slow },
        if finalizable.is_empty() { 0 } else { p.w_finalize },
        if leaders.is_empty() { 0 } else { p.w_tick },
        if pullers.is_empty() { 0 } else { p.w_snapreq },
    ];
    if w.iter().all(|&x| x == 0) {
        return None;
    }
    Some(match rng.weighted(&w) {
        0 => {
            let k = if p.fifo_bias && rng.chance(2, 3) { deliverable[rng.below(deliverable.len().min(3))] } else { *rng.pick(&deliverable) };
            let f = &s.inflight[k];
            if p.partial_replication && f.key.k == "AE" && f.to != (f.from + 1) % n && rng.bool() {
                Ev::Drop { key: f.key.clone() }
            } else {
                Ev::Deliver { key: f.key.clone() }
            }
        }
        1 => Ev::Dup { key: s.inflight[rng.below(s.inflight.len())].key.clone() },
        2 => Ev::Drop { key: s.inflight[rng.below(s.inflight.len())].key.clone() },
        3 => {
            let pool = if !former.is_empty() && rng.chance(2, 3) { &former } else { &non_leaders };
            Ev::Timeout { n: *rng.pick(pool) }
        }
        4 => Ev::Elapse { n: *rng.pick(&non_leaders) },
        5 => {
            let pool = if !former.is_empty() && rng.chance(2, 3) { &former } else { &non_leaders };
            Ev::Election { n: *rng.pick(pool) }
        }
        6 => Ev::Heartbeat { n: *rng.pick(&leaders) },
        7 => Ev::Propose { n: *rng.pick(&leaders), hb: rng.chance(2, 3) },
        8 => Ev::QuorumCheck { n: *rng.pick(&leaders) },
        9 => {
            if !cut.is_empty() && (rng.chance(2, 3) || cut.len() >= n / 2) {
                Ev::Heal { n: *rng.pick(&cut) }
            } else if !leaders.is_empty() && rng.bool() {
                Ev::Isolate { n: *rng.pick(&leaders) } // a cut-off leader keeps accepting nothing but piles up uncommitted entries
            } else {
                Ev::Isolate { n: rng.below(n) }
            }
        }
        10 => Ev::Crash { n: *rng.pick(&crashable) },
        11 => Ev::Restart { n: *rng.pick(&down) },
        12 => Ev::Deliver { key: s.inflight[*rng.pick(&stragglers)].key.clone() },
        13 => {
            let n = *rng.pick(&finalizable);
            // sometimes the application lags behind what is committed
            let upto = if rng.chance(1, 3) {
                s.nodes[n].as_ref().map(|l| {
                    let (c, f) = (l.raft.commit_index(), l.raft.finalized_height());
                    f + 1 + rng.below((c - f) as usize) as u64
                })
            } else {
                None
            };
            Ev::Finalize { n, upto }
        }
        14 => Ev::LeaderTick { n: *rng.pick(&leaders) },
        _ => Ev::SnapRequest { n: *rng.pick(&pullers) },
    })
}

fn gen_embeddings(rng: &mut Rng, cfg: &Cfg) -> Vec<Option<Vec<f32>>> {
    (0..cfg.nodes)
        .map(|_| {
            if !cfg.geometric {
                return None;
            }
            match rng.below(5) {
                0 => None, // no embedding: neutral bias
                1 => Some(vec![-1.0, 0.0, 0.0, 0.0]),
                2 => Some(vec![0.0, 1.0, 0.0, 0.0]),
                _ => Some(vec![1.0, 0.1, 0.0, 0.0]),
            }
        })
        .collect()
}

struct Outcome {
    found: Option<Found>,
    trouble: Option<String>,
    schedule: Vec<Ev>,
    counts: BTreeMap<String, u64>,
    hash: u64,
    mon: Monitor,
    trace: Vec<String>,
    final_state: Vec<String>,
    steps: usize,
}

fn finish(mut s: Sim, schedule: Vec<Ev>) -> Outcome {
    let final_state = (0..s.cfg.nodes).map(|i| s.state_line(i)).collect();
    let mon = std::mem::take(&mut s.mon);
    Outcome {
        found: mon.found.clone(),
        trouble: s.trouble.take(),
        schedule,
        counts: std::mem::take(&mut s.counts),
        hash: s.hash,
        trace: s.trace.take().unwrap_or_default(),
        final_state,
        steps: s.step,
        mon,
    }
}

/// the seeded random case: everything derives from (cfg, case_seed)
fn run_random(args: &Args, cfg: Cfg, case_seed: u64, want_trace: bool) -> Outcome {
    let mut rng = Rng::new(case_seed);
    let emb = gen_embeddings(&mut rng, &cfg);
    let p = profile(&mut rng, &cfg);
    let steps = 300 + rng.below(501);
    let mut s = Sim::new(args, cfg, emb, want_trace);
    let mut schedule = Vec::new();
    random_walk(&mut s, &mut rng, &p, steps, &mut schedule);
    finish(s, schedule)
}

/// a directed script cut at a random point, continued by a seeded random walk: reaches the deep
/// states of the scripts (a node leading twice with a rewritten log, answers held across terms) and
/// then lets the scheduler loose on them
fn run_mixed(args: &Args, bits: u64, case_seed: u64, want_trace: bool) -> (Cfg, Vec<Option<Vec<f32>>>, Outcome) {
    let mut rng = Rng::new(case_seed);
    let scripts = directed_scripts();
    // compaction cases continue a script written for compaction, the others one of the plain scripts
    let want_snap = (bits >> 3) & 7 > 0;
    let pool: Vec<&(&'static str, usize, u64, Vec<Op>)> = scripts.iter().filter(|x| (x.2 > 0) == want_snap).collect();
    let (_, nodes, _, ops) = pool[rng.below(pool.len())];
    let cfg = Cfg::from_bits(*nodes, bits);
    let emb = if rng.bool() { gen_embeddings(&mut rng, &cfg) } else { vec![None; cfg.nodes] };
    let cut = rng.below(ops.len() + 1);
    let p = profile(&mut rng, &cfg);
    let extra = 60 + rng.below(300);
    let mut s = Sim::new(args, cfg, emb.clone(), want_trace);
    let mut schedule = Vec::new();
    apply_ops(&mut s, &ops[..cut], &mut schedule);
    let steps = s.step + extra;
    random_walk(&mut s, &mut rng, &p, steps, &mut schedule);
    (cfg, emb, finish(s, schedule))
}

fn random_walk(s: &mut Sim, rng: &mut Rng, p: &Profile, steps: usize, schedule: &mut Vec<Ev>) {
    let mut idle = 0;
    while s.step < steps && s.mon.found.is_none() && s.trouble.is_none() && idle < 50 {
        let seq0 = s.next_seq;
        match gen_event(rng, p, s) {
            Some(ev) => {
                if s.apply(&ev) {
                    schedule.push(ev);
                    idle = 0;
                } else {
                    idle += 1;
                }
            }
            None => idle += 1,
        }
        if p.slow_pct > 0 || p.hold_acks {
            for f in s.inflight.iter_mut().filter(|f| f.seq >= seq0) {
                let pct = if p.hold_acks && f.key.k == "AER" && f.key.a == 1 && f.key.b > 0 { 30 } else { p.slow_pct };
                if rng.chance(pct, 100) {
                    f.slow = true;
                }
            }
        }
    }
}

/// an explicit schedule, interpreted leniently (events that are not enabled are skipped), so every
/// sub-sequence of a legal schedule is again a legal execution
fn run_schedule(args: &Args, cfg: Cfg, emb: &[Option<Vec<f32>>], sched: &[Ev], want_trace: bool) -> Outcome {
    let mut s = Sim::new(args, cfg, emb.to_vec(), want_trace);
    let mut executed = Vec::new();
    for ev in sched {
        if s.mon.found.is_some() || s.trouble.is_some() {
            break;
        }
        if s.apply(ev) {
            executed.push(ev.clone());
        }
    }
    finish(s, executed)
}

/// delta-debugging over the event list: keeps the same violation signature
fn shrink(args: &Args, cfg: Cfg, emb: &[Option<Vec<f32>>], sched: Vec<Ev>, sig: &str, max_runs: usize) -> Vec<Ev> {
    let mut cur = sched;
    let mut runs = 0;
    let mut chunks = 2usize;
    let same = |o: &Outcome| o.found.as_ref().map(|f| f.signature == sig).unwrap_or(false);
    while cur.len() >= 2 && runs < max_runs {
        let size = (cur.len() + chunks - 1) / chunks;
        let mut reduced = false;
        let mut start = 0;
        while start < cur.len() && runs < max_runs {
            let end = (start + size).min(cur.len());
            let cand: Vec<Ev> = cur[..start].iter().chain(cur[end..].iter()).cloned().collect();
            runs += 1;
            let o = run_schedule(args, cfg, emb, &cand, false);
            if same(&o) {
                cur = o.schedule; // only the executed events, cut at the violation
                reduced = true;
                chunks = chunks.saturating_sub(1).max(2);
                break;
            }
            start = end;
        }
        if !reduced {
            if size <= 1 {
                break;
            }
            chunks = (chunks * 2).min(cur.len());
        }
    }
    cur
}

fn emb_json(e: &[Option<Vec<f32>>]) -> Value {
    json!(e)
}
fn emb_from(v: &Value, n: usize) -> Vec<Option<Vec<f32>>> {
    let mut out: Vec<Option<Vec<f32>>> = serde_json::from_value(v.clone()).unwrap_or_default();
    out.resize(n, None);
    out
}

fn absorb(r: &mut Report, cfg: &Cfg, o: &Outcome) {
    for (k, v) in &o.counts {
        r.count(k, *v);
    }
    r.count("steps", o.steps as u64);
    r.count("leaders_elected", o.mon.leaders_seen);
    r.count("committed_entries", o.mon.new_commits);
    r.count("commit_agreement_checks", o.mon.commit_checks);
    r.count("leader_completeness_checks", o.mon.completeness_checks);
    r.count("log_matching_pair_checks", o.mon.matching_checks);
    r.count("snapshot_agreement_checks", o.mon.snapshot_checks);
    r.count("leader_completeness_behind_snapshot", o.mon.completeness_behind_snapshot);
    r.count("leaders_elected_after_install_and_restart", o.mon.leaders_after_install_and_restart);
    if cfg.snap > 0 {
        r.count("compaction_cases", 1);
    }
    r.count_max("max:term", o.mon.max_term);
    r.count_max("max:commit_index", o.mon.max_commit);
    r.count(&format!("cases[{}]", cfg.name()), 1);
    if o.mon.new_commits > 0 {
        r.count(&format!("cases_with_commit[{}]", cfg.name()), 1);
    }
}

static SHRUNK: std::sync::Mutex<BTreeMap<String, u32>> = std::sync::Mutex::new(BTreeMap::new());

fn report_outcome(args: &Args, r: &mut Report, part: &str, cfg: Cfg, emb: &[Option<Vec<f32>>], case_seed: Option<u64>, o: Outcome) {
    absorb(r, &cfg, &o);
    if let Some(t) = &o.trouble {
        // harness / environment trouble is never a verdict
        let why = first_line(t);
        r.inconclusive(&why);
        return;
    }
    let nontrivial = o.mon.new_commits >= 1 && o.mon.leaders_seen >= 2;
    match &o.found {
        None => {
            r.eval(hash_combine(o.hash, cfg.bits() << 8 | cfg.nodes as u64), nontrivial);
            let directed_part = part.starts_with("directed");
            let wanted = if directed_part {
                cfg.bits() & 7 == 0 && r.samples.len() < 2
            } else {
                nontrivial && o.counts.get("ev_crash").copied().unwrap_or(0) > 0 && o.steps < 450
            };
            if r.want_sample() && wanted {
                r.sample(json!({
                    "part": part, "config": cfg.name(), "case_seed": case_seed, "events": o.steps,
                    "leaders_by_term": o.mon.leader_of.iter().map(|(t, n)| format!("t{}=n{}", t, n)).collect::<Vec<_>>(),
                    "committed": o.mon.committed.iter().map(|(i, c)| format!("{}:t{}#{}", i, c.term, c.id)).collect::<Vec<_>>(),
                    "event_counts": o.counts.iter().filter(|(k, _)| k.starts_with("ev_")).map(|(k, v)| format!("{}={}", &k[3..], v)).collect::<Vec<_>>(),
                    "final": o.final_state,
                }));
            }
        }
        Some(f) => {
            r.eval(hash_combine(o.hash, cfg.bits() << 8 | cfg.nodes as u64), true);
            // shrink only while witnesses of this signature are still being kept
            let kept = {
                let mut g = SHRUNK.lock().unwrap_or_else(|e| e.into_inner());
                let e = g.entry(f.signature.clone()).or_insert(0);
                *e += 1;
                *e - 1
            };
            let (sched, trace, detail, final_state) = if kept < 3 || part.starts_with("replay") {
                let small = shrink(args, cfg, emb, o.schedule.clone(), &f.signature, args.by_tier(200, 500));
                let o2 = run_schedule(args, cfg, emb, &small, true);
                match &o2.found {
                    Some(f2) if f2.signature == f.signature => (o2.schedule.clone(), o2.trace.clone(), f2.detail.clone(), o2.final_state.clone()),
                    _ => {
                        let o3 = run_schedule(args, cfg, emb, &o.schedule, true);
                        (o.schedule.clone(), o3.trace, f.detail.clone(), o3.final_state)
                    }
                }
            } else {
                (o.schedule.clone(), Vec::new(), f.detail.clone(), o.final_state.clone())
            };
            let tail: Vec<&String> = trace.iter().rev().take(60).collect::<Vec<_>>().into_iter().rev().collect();
            r.violation(
                f.signature.clone(),
                format!(
                    "{} | config {} | {} events (shrunk from {}) | trace: {} | final: {}",
                    detail,
                    cfg.name(),
                    sched.len(),
                    o.schedule.len(),
                    tail.iter().map(|s| s.trim().to_string()).collect::<Vec<_>>().join(" // "),
                    final_state.join(" ; ")
                ),
                json!({
                    "part": part, "nodes": cfg.nodes, "cfg": cfg.bits(), "case_seed": case_seed,
                    "embeddings": emb_json(emb), "schedule": sched,
                }),
            );
        }
    }
}

fn random_case(args: &Args, i: u64, case_seed: u64, r: &mut Report) {
    let nodes = if args.quick() {
        if (i / 8) % 5 == 4 {
            5
        } else {
            3
        }
    } else if (i / 8) % 2 == 1 {
        5
    } else {
        3
    };
    // one case in three runs with log compaction and snapshot transfer reachable
    let snap = match args.extra.get("snap") {
        Some(v) => v.parse::<u64>().unwrap_or(0).min(4),
        None => {
            if (i / 8) % 3 == 2 {
                1 + (i / 24) % if args.extra_u64("drain", 0) > 0 { 4 } else { 2 }
            } else {
                0
            }
        }
    };
    if i % 4 == 3 && !args.extra.contains_key("nodes") {
        let (cfg, emb, o) = run_mixed(args, (i / 4) % 8 | snap << 3, case_seed, false);
        r.count("mixed_cases", 1);
        report_outcome(args, r, "mixed", cfg, &emb, Some(case_seed), o);
        return;
    }
    let nodes = args.extra_u64("nodes", nodes as u64) as usize;
    let cfg = Cfg::from_bits(nodes, i % 8 | snap << 3);
    let o = run_random(args, cfg, case_seed, false);
    let emb = gen_embeddings(&mut Rng::new(case_seed), &cfg);
    report_outcome(args, r, "random", cfg, &emb, Some(case_seed), o);
}

// ------------------------------------------------------------------------------------------------
// directed schedules: small scripts over the same simulator (lenient; judged by the same monitor)
// ------------------------------------------------------------------------------------------------

/// script operations; message selection by predicate instead of exact key
enum Op {
    E(Ev),
    /// deliver every in-flight message from `from` to `to` of kind `k` ("*" = any), oldest first,
    Flush { from: usize, to: usize, k: &'static str },
    /// drop every in-flight message from `from` to `to` of kind `k`
    DropBetween { from: usize, to: usize, k: &'static str },
}

fn run_script(args: &Args, cfg: Cfg, ops: &[Op], want_trace: bool) -> Outcome {
    let emb: Vec<Option<Vec<f32>>> = vec![None; cfg.nodes];
    let mut s = Sim::new(args, cfg, emb, want_trace);
    let mut executed = Vec::new();
    apply_ops(&mut s, ops, &mut executed);
    finish(s, executed)
}

fn apply_ops(s: &mut Sim, ops: &[Op], executed: &mut Vec<Ev>) {
    for op in ops {
        if s.mon.found.is_some() || s.trouble.is_some() {
            break;
        }
        match op {
            Op::E(ev) => {
                if s.apply(ev) {
                    executed.push(ev.clone());
                }
            }
            Op::Flush { from, to, k } => {
                let keys: Vec<MKey> = s.inflight.iter().filter(|f| f.from == *from && f.to == *to && (*k == "*" || f.key.k == *k)).map(|f| f.key.clone()).collect();
                for key in keys {
                    let ev = Ev::Deliver { key };
                    if s.apply(&ev) {
                        executed.push(ev);
                    }
                }
            }
            Op::DropBetween { from, to, k } => {
                let keys: Vec<MKey> = s.inflight.iter().filter(|f| f.from == *from && f.to == *to && (*k == "*" || f.key.k == *k)).map(|f| f.key.clone()).collect();
                for key in keys {
                    let ev = Ev::Drop { key };
                    if s.apply(&ev) {
                        executed.push(ev);
                    }
                }
            }
        }
    }
}

fn elect(l: usize, voters: &[usize]) -> Vec<Op> {
    let mut v = vec![Op::E(Ev::Election { n: l })];
    for &x in voters {
        v.push(Op::Flush { from: l, to: x, k: "RV" });
        v.push(Op::Flush { from: x, to: l, k: "RVR" });
    }
    v
}
fn replicate(l: usize, followers: &[usize]) -> Vec<Op> {
    let mut v = vec![Op::E(Ev::Heartbeat { n: l })];
    for &x in followers {
        v.push(Op::Flush { from: l, to: x, k: "AE" });
        v.push(Op::Flush { from: x, to: l, k: "AER" });
    }
    v
}

fn props(n: usize, k: usize) -> Vec<Op> {
    (0..k).map(|_| Op::E(Ev::Propose { n, hb: false })).collect()
}
fn dropk(from: usize, to: &[usize], k: &'static str) -> Vec<Op> {
    to.iter().map(|&t| Op::DropBetween { from, to: t, k }).collect()
}

fn directed_scripts() -> Vec<(&'static str, usize, u64, Vec<Op>)> {
    let mut out = Vec::new();
    // 1. (3 voters) A follower that still holds an uncommitted suffix from an older term answers a
    //    heartbeat of the new leader that only covers their common prefix.
    {
        let mut s = Vec::new();
        s.extend(elect(0, &[1, 2])); // n0 leads term 1
        s.extend(replicate(0, &[1, 2])); // contact with a quorum => proposals are accepted
        s.extend(props(0, 1)); // #1 at index 1
        s.extend(replicate(0, &[1, 2])); // everybody holds [1:t1#1]
        s.push(Op::E(Ev::Isolate { n: 0 }));
        s.extend(props(0, 2)); // #2,#3 at 2,3 (term 1) exist only on n0
        s.extend(elect(1, &[2])); // n1 leads term 2
        s.push(Op::E(Ev::Heartbeat { n: 1 })); // AppendEntries(prev 1@t1, no entries) to n0 stays in flight
        s.push(Op::Flush { from: 1, to: 2, k: "AE" });
        s.push(Op::Flush { from: 2, to: 1, k: "AER" });
        s.extend(props(1, 2)); // #4,#5 at 2,3 (term 2) exist only on n1
        s.push(Op::E(Ev::Heal { n: 0 }));
        s.push(Op::Flush { from: 1, to: 0, k: "AE" }); // the delayed heartbeat reaches n0
        s.push(Op::Flush { from: 0, to: 1, k: "AER" }); // n0's answer reaches the leader
        s.push(Op::E(Ev::Crash { n: 1 }));
        s.extend(elect(0, &[2])); // n0 (log 1:t1 2:t1 3:t1) wins term 3 with n2's vote
        out.push(("follower-with-stale-suffix-answers-short-heartbeat", 3, 0, s));
    }
    // 2. (5 voters) An answer to an AppendEntries of term 1 reaches the same node when it leads term 3
    //    with a different log, and is counted toward the quorum for new entries.
    {
        let mut s = Vec::new();
        s.extend(elect(0, &[1, 2]));
        s.extend(dropk(0, &[3, 4], "RV"));
        s.extend(replicate(0, &[1, 2]));
        s.extend(dropk(0, &[3, 4], "AE"));
        s.extend(props(0, 3)); // #1..#3 at 1..3 (term 1)
        s.push(Op::E(Ev::Heartbeat { n: 0 }));
        s.push(Op::Flush { from: 0, to: 1, k: "AE" }); // n1 stores them; its answer (match 3) stays in flight
        s.extend(dropk(0, &[2, 3, 4], "AE"));
        s.extend(elect(2, &[3, 4])); // n2 leads term 2 (empty logs vote for it)
        s.extend(dropk(2, &[0, 1], "RV"));
        s.extend(replicate(2, &[3, 4]));
        s.extend(dropk(2, &[0, 1], "AE"));
        s.extend(props(2, 1)); // #4 at index 1 (term 2)
        s.extend(replicate(2, &[0, 1, 3])); // overwrites index 1 on n0 and n1 (their term-1 entries go)
        s.extend(dropk(2, &[4], "AE"));
        s.extend(elect(0, &[1, 3])); // n0 leads term 3 with log [1:t2#4]
        s.push(Op::Flush { from: 0, to: 2, k: "RV" }); // the old leader n2 learns term 3 and steps down
        s.extend(dropk(0, &[4], "RV"));
        s.extend(props(0, 2)); // #5,#6 at 2,3 (term 3)
        s.push(Op::Flush { from: 1, to: 0, k: "AER" }); // the term-1 answer arrives now
        s.push(Op::E(Ev::Heartbeat { n: 0 }));
        s.push(Op::Flush { from: 0, to: 3, k: "AE" });
        s.push(Op::Flush { from: 3, to: 0, k: "AER" }); // n0 + n3 hold 2,3: two of five
        s.extend(dropk(0, &[1, 2, 4], "AE"));
        s.extend(elect(2, &[1, 4])); // n2 (log [1:t2#4]) wins term 4 with n1 and n4
        out.push(("append-response-of-earlier-term-counted-toward-quorum", 5, 0, s));
    }
    // 3. (5 voters) The same late answer pushes next_index past the leader's log; the next heartbeat
    //    then carries prev (0,0), which any follower accepts, together with the leader's commit index.
    {
        let mut s = Vec::new();
        s.extend(elect(0, &[1, 2]));
        s.extend(dropk(0, &[3, 4], "RV"));
        s.extend(replicate(0, &[1, 2]));
        s.extend(dropk(0, &[3, 4], "AE"));
        s.extend(props(0, 3));
        s.push(Op::E(Ev::Heartbeat { n: 0 }));
        s.push(Op::Flush { from: 0, to: 1, k: "AE" }); // n1: [1:t1 2:t1 3:t1]; answer (match 3) in flight
        s.extend(dropk(0, &[2, 3, 4], "AE"));
        s.extend(elect(2, &[3, 4])); // term 2
        s.extend(dropk(2, &[0, 1], "RV"));
        s.extend(replicate(2, &[3, 4]));
        s.extend(dropk(2, &[0, 1], "AE"));
        s.extend(props(2, 1)); // #4 at index 1 (term 2)
        s.extend(replicate(2, &[0, 3])); // n2,n0,n3 hold it: committed on n2
        s.extend(dropk(2, &[1, 4], "AE"));
        s.extend(replicate(2, &[0, 3])); // followers learn commit index 1
        s.extend(dropk(2, &[1, 4], "AE"));
        s.extend(elect(0, &[3, 4])); // n0 leads term 3, log [1:t2#4], commit index 1
        s.extend(dropk(0, &[1, 2], "RV"));
        s.push(Op::Flush { from: 1, to: 0, k: "AER" }); // term-1 answer: next_index[n1] = 4 > log end
        s.push(Op::E(Ev::Heartbeat { n: 0 }));
        s.push(Op::Flush { from: 0, to: 1, k: "AE" }); // prev (0,0), no entries, leader_commit 1
        out.push(("heartbeat-with-zero-prev-after-late-append-response", 5, 0, s));
    }
    // 4. (3 voters) crash / restart of a voter between vote and count; leader crash after partial replication
    {
        let mut s = Vec::new();
        s.push(Op::E(Ev::Election { n: 0 }));
        s.push(Op::Flush { from: 0, to: 1, k: "RV" });
        s.push(Op::E(Ev::Crash { n: 1 }));
        s.push(Op::E(Ev::Restart { n: 1 }));
        s.push(Op::E(Ev::Election { n: 2 })); // same term 1 candidate: n1 must remember its vote
        s.push(Op::Flush { from: 2, to: 1, k: "RV" });
        s.push(Op::Flush { from: 1, to: 2, k: "RVR" });
        s.push(Op::Flush { from: 1, to: 0, k: "RVR" });
        s.extend(replicate(0, &[1, 2]));
        s.push(Op::E(Ev::Propose { n: 0, hb: true }));
        s.push(Op::Flush { from: 0, to: 1, k: "AE" });
        s.push(Op::Flush { from: 1, to: 0, k: "AER" });
        s.push(Op::E(Ev::Crash { n: 0 }));
        s.extend(elect(2, &[1]));
        s.extend(elect(1, &[2]));
        s.extend(replicate(1, &[2]));
        s.push(Op::E(Ev::Restart { n: 0 }));
        s.extend(replicate(1, &[0, 2]));
        s.extend(replicate(1, &[0, 2]));
        out.push(("vote-memory-and-leader-crash", 3, 0, s));
    }
    // 5. (3 voters, snapshots) A follower that was cut off is brought up to date with the leader's
    //    snapshot, acknowledges one more entry (which commits through that acknowledgement), crashes,
    //    restarts from its WAL and is elected by the one surviving voter with a shorter log.
    for snap in [1u64, 2] {
        let mut s = Vec::new();
        s.extend(elect(0, &[1, 2])); // n0 leads term 1
        s.extend(replicate(0, &[1, 2])); // n2 learns who leads
        s.push(Op::E(Ev::Isolate { n: 2 }));
        s.extend(props(0, 4)); // #1..#4
        s.extend(replicate(0, &[1])); // committed on n0 through n1
        s.extend(replicate(0, &[1]));
        s.extend(dropk(0, &[2], "AE"));
        s.push(Op::E(Ev::Finalize { n: 0, upto: None }));
        s.push(Op::E(Ev::LeaderTick { n: 0 })); // snapshot at index 4
        s.push(Op::E(Ev::Heal { n: 2 }));
        s.push(Op::E(Ev::SnapRequest { n: 2 }));
        for _ in 0..8 {
            // chunk by chunk: request -> answer -> next request
            s.push(Op::Flush { from: 2, to: 0, k: "SRQ" });
            s.push(Op::Flush { from: 0, to: 2, k: "SRS" });
        }
        s.push(Op::E(Ev::Isolate { n: 1 }));
        s.extend(props(0, 1)); // #5 at index 5
        s.extend(replicate(0, &[2])); // may first have to back up next_index
        s.extend(replicate(0, &[2]));
        s.extend(replicate(0, &[2])); // n0 + n2 hold index 5: committed through n2's answer
        s.extend(dropk(0, &[1], "AE"));
        s.push(Op::E(Ev::Crash { n: 2 }));
        s.push(Op::E(Ev::Restart { n: 2 }));
        s.push(Op::E(Ev::Crash { n: 0 }));
        s.push(Op::E(Ev::Heal { n: 1 }));
        s.extend(elect(2, &[1])); // n1 holds 1..4 only and votes for n2
        s.extend(replicate(2, &[1]));
        s.extend(replicate(2, &[1]));
        out.push((if snap == 1 { "snapshot-install-then-ack-restart-and-lead" } else { "snapshot-install-in-chunks-then-ack-restart-and-lead" }, 3, snap, s));
    }
    // 6. (3 voters, snapshots) The snapshot a follower asked for while it was behind arrives after
    //    AppendEntries has already brought it further than the snapshot reaches.
    {
        let mut s = Vec::new();
        s.extend(elect(0, &[1, 2]));
        s.extend(replicate(0, &[1, 2]));
        s.push(Op::E(Ev::Isolate { n: 2 }));
        s.extend(props(0, 4)); // #1..#4
        s.extend(replicate(0, &[1])); // committed through n1
        s.extend(dropk(0, &[2], "AE"));
        s.push(Op::E(Ev::Finalize { n: 0, upto: None }));
        s.push(Op::E(Ev::LeaderTick { n: 0 })); // snapshot at index 4
        s.push(Op::E(Ev::Heal { n: 2 }));
        s.push(Op::E(Ev::SnapRequest { n: 2 }));
        s.push(Op::Flush { from: 2, to: 0, k: "SRQ" }); // the answer (whole snapshot) is now in flight
        s.extend(props(0, 1)); // #5 at index 5
        s.push(Op::E(Ev::Heartbeat { n: 0 }));
        s.extend(dropk(0, &[1], "AE"));
        s.push(Op::Flush { from: 0, to: 2, k: "AE" }); // n2 receives 1..5
        s.push(Op::Flush { from: 2, to: 0, k: "AER" }); // index 5 commits through n2's answer
        s.push(Op::Flush { from: 0, to: 2, k: "SRS" }); // the late snapshot (1..4) arrives
        s.push(Op::E(Ev::Crash { n: 0 }));
        s.extend(elect(1, &[2])); // n1 holds 1..4
        out.push(("snapshot-arrives-after-append-entries-went-further", 3, 1, s));
    }
    // 7. (5 voters) A leader whose entries were acknowledged by a minority only loses its term, has
    //    those entries overwritten, and leads again later: what it knew about its followers' logs in
    //    the earlier term must be gone.
    {
        let mut s = Vec::new();
        s.extend(elect(0, &[1, 2]));
        s.extend(dropk(0, &[3, 4], "RV"));
        s.extend(replicate(0, &[1, 2]));
        s.extend(dropk(0, &[3, 4], "AE"));
        s.extend(props(0, 3)); // #1..#3 at 1..3 (term 1)
        s.push(Op::E(Ev::Heartbeat { n: 0 }));
        s.push(Op::Flush { from: 0, to: 1, k: "AE" });
        s.push(Op::Flush { from: 1, to: 0, k: "AER" }); // n0 knows: n1 holds 1..3 (two of five, not committed)
        s.extend(dropk(0, &[2, 3, 4], "AE"));
        s.extend(elect(2, &[3, 4])); // n2 leads term 2
        s.extend(dropk(2, &[0, 1], "RV"));
        s.extend(replicate(2, &[3, 4]));
        s.extend(dropk(2, &[0, 1], "AE"));
        s.extend(props(2, 1)); // #4 at index 1 (term 2)
        s.extend(replicate(2, &[0, 1, 3])); // n0 steps down through AppendEntries; 1..3 of term 1 are gone on n0 and n1
        s.extend(dropk(2, &[4], "AE"));
        s.extend(elect(0, &[1, 3])); // n0 leads term 3 with log [1:t2#4]
        s.push(Op::Flush { from: 0, to: 2, k: "RV" }); // n2 steps down
        s.extend(dropk(0, &[4], "RV"));
        s.extend(props(0, 2)); // #5,#6 at 2,3 (term 3)
        s.push(Op::E(Ev::Heartbeat { n: 0 }));
        s.push(Op::Flush { from: 0, to: 3, k: "AE" });
        s.extend(dropk(0, &[1, 2, 4], "AE"));
        s.push(Op::Flush { from: 3, to: 0, k: "AER" }); // one real acknowledgement: n0 + n3 hold 2,3
        s.extend(elect(2, &[1, 4])); // n2 (log [1:t2#4]) wins term 4 with n1 and n4
        out.push(("reelected-leader-remembers-acks-of-its-earlier-term", 5, 0, s));
    }
    // 8. (5 voters, draining snapshots) A deposed leader still holds entries of its own term that
    //    reached nobody, at the very positions where the cluster later committed other entries and
    //    compacted past them; it can only be caught up with a snapshot.
    {
        let mut s = Vec::new();
        s.extend(elect(0, &[1, 2]));
        s.extend(dropk(0, &[3, 4], "RV"));
        s.extend(replicate(0, &[1, 2]));
        s.extend(dropk(0, &[3, 4], "AE"));
        s.extend(props(0, 1)); // #1 at index 1
        s.extend(replicate(0, &[1, 2, 3, 4])); // on all five
        s.extend(props(0, 2)); // #2,#3 at 2,3 (term 1)
        s.push(Op::E(Ev::Heartbeat { n: 0 }));
        s.push(Op::Flush { from: 0, to: 1, k: "AE" });
        s.push(Op::Flush { from: 1, to: 0, k: "AER" }); // n0 and n1 hold 1..3
        s.extend(dropk(0, &[2, 3, 4], "AE"));
        s.extend(elect(2, &[3, 4])); // n2 (log [1]) leads term 2
        s.push(Op::Flush { from: 2, to: 0, k: "RV" }); // n0 learns term 2 and steps down (vote refused)
        s.extend(dropk(2, &[1], "RV"));
        s.extend(replicate(2, &[3, 4]));
        s.extend(dropk(2, &[0, 1], "AE"));
        s.push(Op::E(Ev::Isolate { n: 2 }));
        s.extend(props(2, 2)); // #4,#5 at 2,3 (term 2) reach nobody
        s.extend(elect(0, &[1, 3])); // n0 leads term 3 with 1..3 of term 1
        s.extend(dropk(0, &[2, 4], "RV"));
        s.extend(props(0, 1)); // #6 at index 4 (term 3)
        for _ in 0..5 {
            s.extend(replicate(0, &[1, 3])); // n3 has to be backed up to index 1 first
        }
        s.extend(dropk(0, &[2, 4], "AE"));
        s.push(Op::E(Ev::Finalize { n: 0, upto: Some(3) })); // the application has applied up to 3
        s.push(Op::E(Ev::LeaderTick { n: 0 })); // snapshot at 3 (term 1); 1..2 drained
        s.push(Op::E(Ev::Heal { n: 2 }));
        for _ in 0..6 {
            s.extend(replicate(0, &[2])); // n2 steps down; every AppendEntries is refused (3 is of term 2 there)
        }
        s.extend(dropk(0, &[1, 3, 4], "AE"));
        s.push(Op::E(Ev::SnapRequest { n: 2 }));
        for _ in 0..4 {
            s.push(Op::Flush { from: 2, to: 0, k: "SRQ" });
            s.push(Op::Flush { from: 0, to: 2, k: "SRS" });
        }
        s.extend(replicate(0, &[2]));
        s.extend(replicate(0, &[2]));
        out.push(("deposed-leader-with-unreplicated-suffix-needs-snapshot", 5, 3, s));
    }
    out
}

fn directed(args: &Args, r: &mut Report) {
    for (name, nodes, snap, ops) in directed_scripts() {
        for bits in 0..8u64 {
            // scripts use start_election_async directly, so pre-vote only changes what Timeout would do
            let cfg = Cfg::from_bits(nodes, bits | snap << 3);
            let verbose = args.extra.contains_key("verbose") && bits == 0;
            if args.extra.get("script").map_or(false, |x| !name.contains(x.as_str())) {
                continue;
            }
            let o = run_script(args, cfg, &ops, verbose);
            if verbose {
                eprintln!("=== directed {} ===", name);
                for l in &o.trace {
                    eprintln!("{}", l);
                }
                for l in &o.final_state {
                    eprintln!("final {}", l);
                }
                if let Some(f) = &o.found {
                    eprintln!("VIOLATION {}: {}", f.signature, f.detail);
                }
            }
            r.count("directed_scripts_run", 1);
            r.count(&format!("directed[{}]", name), 1);
            let emb: Vec<Option<Vec<f32>>> = vec![None; nodes];
            report_outcome(args, r, &format!("directed:{}", name), cfg, &emb, None, o);
        }
    }
}

// ------------------------------------------------------------------------------------------------

fn main() {
    let args = Args::parse();
    let started = Instant::now();
    quiet_panics();
    let mut total = Report::new();
    total.max_samples = 6;

    if let Some(p) = &args.replay {
        let v: Value = serde_json::from_str(&std::fs::read_to_string(p).expect("replay file")).expect("json");
        let rp = if v.get("replay").is_some() { &v["replay"] } else { &v };
        let nodes = rp["nodes"].as_u64().unwrap_or(3) as usize;
        let cfg = Cfg::from_bits(nodes, rp["cfg"].as_u64().unwrap_or(0));
        let o = if let Some(sch) = rp.get("schedule").filter(|s| s.is_array()) {
            let sched: Vec<Ev> = serde_json::from_value(sch.clone()).expect("schedule");
            let emb = emb_from(&rp["embeddings"], nodes);
            let o = run_schedule(&args, cfg, &emb, &sched, true);
            (emb, o)
        } else {
            let seed = rp["case_seed"].as_u64().expect("case_seed");
            if rp["part"].as_str() == Some("mixed") {
                let (_c, emb, o) = run_mixed(&args, cfg.bits(), seed, true);
                (emb, o)
            } else {
                let emb = gen_embeddings(&mut Rng::new(seed), &cfg);
                (emb, run_random(&args, cfg, seed, true))
            }
        };
        let (emb, o) = o;
        for l in &o.trace {
            eprintln!("{}", l);
        }
        for l in &o.final_state {
            eprintln!("final {}", l);
        }
        if let Some(f) = &o.found {
            eprintln!("VIOLATION at event {}: {}: {}", f.step, f.signature, f.detail);
        }
        report_outcome(&args, &mut total, "replay", cfg, &emb, rp["case_seed"].as_u64(), o);
    } else {
        let only = args.extra.get("only").cloned().unwrap_or_default();
        if only != "random" {
            directed(&args, &mut total);
        }
        let n_cases = if only == "directed" { 0 } else { args.extra_u64("cases", args.by_tier(12_000u64, 400_000u64)) };
        let a = &args;
        let rep = par_cases(args.threads, args.seed, n_cases, args.budget(75, 1_080), move |i, s, r| random_case(a, i, s, r));
        total.merge(rep);
    }

    // reduced legs (sanitizer builds) pass --floor-pct to scale the non-vacuity floors with their budget
    let pct = args.extra_u64("floor-pct", 100);
    let mut meta = Meta {
        property: "C01",
        rule: "one case = one schedule (<= 800 simulator events) over 3 or 5 real RaftNode objects with real WALs; distinct by the hash of the executed event sequence (event kind, node, message key) together with the config; non-trivial if at least two leaderships were observed and at least one entry was reported committed (so the commit-agreement / leader-completeness oracles had something to compare), or if it ended in a violation",
        assumptions: vec![
            "crashes are process kills between two simulator events: the WAL file keeps the bytes that were on disk at that moment (bytes still in user-space buffers are lost); every WAL record is whole (torn tails are C10's subject); messages addressed to a crashed node stay in flight and may be dropped or delivered after the restart".into(),
            "election timers are simulator events: election_timeout.0 = 8 s, reset_heartbeat_for_election() makes a timer 'run out'; the election-timeout event runs the real tick_async".into(),
            "with enable_pre_vote=true the pinned tree can never broadcast RequestVote from its run loop (a won pre-vote calls the synchronous start_election(), which builds the RequestVote and discards it), so pre-vote configs additionally fire start_election_async() directly; Raft safety must hold for arbitrary election starts, so this cannot raise a false alarm".into(),
            "membership is fixed; no leadership transfer".into(),
            "one case in three runs with snapshots reachable (snapshot_threshold 3-5, compaction_check_interval 1, cooldown 0): the application finalizes what is committed (finalize_to(commit_index)), the leader's real tick_async compacts, and a follower whose log ends before its leader's snapshot pulls that snapshot chunk by chunk through the real handle_snapshot_request / handle_snapshot_response. The repository contains both handlers but nothing that sends SnapshotRequest, so the simulator plays the pulling follower's driver (first request, then one request per received chunk); those requests are the only messages not produced by RaftNode itself".into(),
            "with compaction only indices a node still holds are compared (a compacted prefix is represented by the node's snapshot, whose last included index/term must agree with the committed map); a held log with a missing index in its middle is reported".into(),
            "by default snapshots keep the whole log behind them (snapshot_trailing_logs 1000); the draining variants (trailing logs 0/1) run only with --drain 1, because on a tree without the get_entries_for_follower / install_snapshot_entries / with_wal repairs reported with this harness they violate C01 in ~5-10% of the cases".into(),
            "leader completeness is demanded of a leader of term T only for entries first reported committed by a node whose current term was < T (at election) or <= T (while it stays leader): such an entry was committed in a term <= the reporter's term".into(),
        ],
        floors: if args.replay.is_some() {
            vec![]
        } else {
            vec![
                ("cases", args.by_tier(2_000, 20_000)),
                ("distinct_nontrivial", args.by_tier(1_500, 15_000)),
                ("mixed_cases", args.by_tier(500, 5_000)),
                ("directed_scripts_run", 72),
                ("leaders_elected", args.by_tier(15_000, 150_000)),
                ("committed_entries", args.by_tier(25_000, 250_000)),
                ("commit_agreement_checks", args.by_tier(2_000_000, 20_000_000)),
                ("leader_completeness_checks", args.by_tier(1_000_000, 10_000_000)),
                ("log_matching_pair_checks", args.by_tier(300_000, 3_000_000)),
                ("delivered_AE", args.by_tier(100_000, 1_000_000)),
                ("delivered_RV", args.by_tier(50_000, 500_000)),
                ("delivered_PV", args.by_tier(15_000, 150_000)),
                ("proposals_accepted", args.by_tier(30_000, 300_000)),
                ("ev_crash", args.by_tier(5_000, 50_000)),
                ("ev_restart", args.by_tier(5_000, 50_000)),
                ("ev_duplicate", args.by_tier(10_000, 100_000)),
                ("ev_drop", args.by_tier(20_000, 200_000)),
                ("msgs_lost_in_partition", args.by_tier(40_000, 400_000)),
                ("earlier_term_ack_delivered_to_leader", args.by_tier(500, 5_000)),
                ("compaction_cases", args.by_tier(600, 6_000)),
                ("compactions", args.by_tier(2_000, 20_000)),
                ("snapshots_installed", args.by_tier(150, 1_500)),
                ("installs_followed_by_restart", args.by_tier(60, 600)),
                ("leaders_elected_after_install_and_restart", args.by_tier(60, 600)),
                ("snapshot_agreement_checks", args.by_tier(50_000, 500_000)),
            ]
        },
        exhaustive: false,
    };
    for f in meta.floors.iter_mut() {
        if f.0 != "directed_scripts_run" {
            f.1 = (f.1 * pct / 100).max(1);
        }
    }
    write_result(&args, &meta, &total, started);
}
