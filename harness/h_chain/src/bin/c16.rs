//! C16 — the chain is tamper-evident; commits are atomic and deterministic.
//!
//! Everything below drives the REAL `tensor_chain::TensorChain` / `Chain` / `TensorStateMachine`
//! and judges what they did with small reference models (oracles only).
//!
//! Parts (select one with `--part seq|tamper|concurrent|replay`, default: all):
//!  seq        : random sequential programs of begin / add_operation / set delta / commit /
//!               rollback / append_block (valid and hostile) over up to 4 overlapping workspaces.
//!               After every call: verify() must pass, height/tip must match the model, the user
//!               keys of the store must equal the reference model (block-order application), a
//!               failed commit / any rollback must leave chain and store byte-identical.
//!  tamper     : a chain is built through the public interface (commit + append_block, two
//!               registered validators); then for every stored block x every single-field
//!               mutation (+ removal, swap, replacement, forgery, raw bit flips) the altered record
//!               is written through the underlying store and verify() must fail.
//!  concurrent : 2-4 prepared workspaces (conflicting / orthogonal keys and deltas, auto-merge
//!               on/off) committed from 2-4 threads, in stress mode (jitter at the hook) and parked
//!               deterministically at `chain_commit:after_preimage`; judged at quiescence.
//!  replay     : the same block sequence applied through TensorStateMachine::{apply_block,
//!               apply_committed} to two fresh replicas; results and state roots must agree.

use common::sched::{self, Gate};
use common::*;
use graph_engine::GraphEngine;
use serde_json::{json, Value};
use std::collections::{BTreeMap, BTreeSet};
use std::sync::atomic::{AtomicBool, AtomicU64, Ordering};
use std::sync::Arc;
use std::time::{Duration, Instant};
use tensor_chain::{
    apply_transaction_to_store, compute_state_root, AppendEntries, AutoMergeConfig, Block, BlockHash, BlockHeader,
    Chain, ChainConfig, Identity, LogEntry, Message, RaftConfig, RaftNode, TensorChain, TensorStateMachine,
    Transaction, TransactionState, TransactionWorkspace, ValidatorRegistry, ValidatorSignature,
};
use tensor_store::{ScalarValue, SparseVector, TensorData, TensorStore, TensorValue};

const HOOK: &str = "chain_commit:after_preimage";
static STRICT_ENDORSEMENT_LIST: AtomicBool = AtomicBool::new(false);

// ------------------------------------------------------------------------------------------------
// small helpers
// ------------------------------------------------------------------------------------------------

fn hex(b: &[u8]) -> String {
    let mut s = String::with_capacity(b.len() * 2);
    for x in b {
        s.push_str(&format!("{:02x}", x));
    }
    s
}
fn short(h: &[u8]) -> String {
    hex(&h[..4.min(h.len())])
}

type Fields = BTreeMap<String, TensorValue>;
/// key -> field -> serialized value (whole store, chain records included)
type Dump = BTreeMap<String, BTreeMap<String, Vec<u8>>>;

fn fields_of(d: &TensorData) -> Fields {
    d.fields_iter().map(|(k, v)| (k.clone(), v.clone())).collect()
}

/// full content of the store (only called at quiescent points)
fn dump(store: &TensorStore) -> Dump {
    let mut out = Dump::new();
    for k in store.scan("") {
        if let Ok(d) = store.get(&k) {
            let f = d.fields_iter().map(|(n, v)| (n.clone(), bitcode::serialize(v).unwrap_or_default())).collect();
            out.insert(k, f);
        }
    }
    out
}

fn dump_diff(a: &Dump, b: &Dump) -> Vec<String> {
    let mut keys: BTreeSet<&String> = a.keys().collect();
    keys.extend(b.keys());
    let mut out = Vec::new();
    for k in keys {
        match (a.get(k), b.get(k)) {
            (Some(x), Some(y)) if x == y => {}
            (Some(_), Some(_)) => out.push(format!("~{}", k)),
            (Some(_), None) => out.push(format!("-{}", k)),
            (None, Some(_)) => out.push(format!("+{}", k)),
            _ => {}
        }
    }
    out
}

fn is_user_key(k: &str) -> bool {
    k.starts_with("u:") || k.starts_with("emb:") || k.starts_with("node:n") || k.starts_with("edge:n") || k.starts_with("table:")
}

// ------------------------------------------------------------------------------------------------
// reference model of what a committed transaction means for the store (oracle only)
// ------------------------------------------------------------------------------------------------

#[derive(Clone, Default, PartialEq, Debug)]
struct Model {
    kv: BTreeMap<String, Fields>,
}

fn bytes_field(name: &str, b: &[u8]) -> Fields {
    let mut f = Fields::new();
    f.insert(name.to_string(), TensorValue::Scalar(ScalarValue::Bytes(b.to_vec())));
    f
}
fn s(x: &str) -> TensorValue {
    TensorValue::Scalar(ScalarValue::String(x.to_string()))
}

fn model_apply(m: &mut Model, tx: &Transaction) {
    match tx {
        Transaction::Put { key, data } => {
            m.kv.insert(key.clone(), bytes_field("data", data));
        }
        Transaction::Delete { key } => {
            m.kv.remove(key);
        }
        Transaction::Embed { key, vector } => {
            let mut f = Fields::new();
            f.insert("vector".into(), TensorValue::Vector(vector.clone()));
            m.kv.insert(format!("emb:{key}"), f);
        }
        Transaction::NodeCreate { key, label } => {
            let mut f = Fields::new();
            f.insert("_id".into(), s(key));
            f.insert("_type".into(), s("node"));
            f.insert("_label".into(), s(label));
            m.kv.insert(format!("node:{key}"), f);
        }
        Transaction::NodeDelete { key } => {
            m.kv.remove(&format!("node:{key}"));
        }
        Transaction::EdgeCreate { from, to, edge_type } => {
            let mut f = Fields::new();
            f.insert("_from".into(), s(from));
            f.insert("_to".into(), s(to));
            f.insert("_edge_type".into(), s(edge_type));
            m.kv.insert(format!("edge:{from}:{to}:{edge_type}"), f);
        }
        Transaction::TableInsert { table, values } => {
            m.kv.insert(format!("table:{table}:row:{}", hex(&tx.hash())), bytes_field("data", values));
        }
        Transaction::TableUpdate { table, row_id, values } => {
            m.kv.insert(format!("table:{table}:row:{row_id}"), bytes_field("data", values));
        }
        Transaction::TableDelete { table, row_id } => {
            m.kv.remove(&format!("table:{table}:row:{row_id}"));
        }
        Transaction::CompareAndSwap { key, expected_data, new_data } => {
            // the generator never uses an empty expectation, so "absent" never matches
            let cur = m.kv.get(key).and_then(|f| f.get("data")).and_then(|v| match v {
                TensorValue::Scalar(ScalarValue::Bytes(b)) => Some(b.clone()),
                _ => None,
            });
            if cur.as_deref() == Some(expected_data.as_slice()) {
                m.kv.insert(key.clone(), bytes_field("data", new_data));
            }
        }
        _ => {}
    }
}

/// user keys of the real store vs the model
fn check_store(store: &TensorStore, m: &Model) -> Result<u64, String> {
    let mut seen = 0u64;
    let keys: BTreeSet<String> = store.scan("").into_iter().filter(|k| is_user_key(k)).collect();
    for k in &keys {
        if !m.kv.contains_key(k) {
            return Err(format!("store holds key {:?} that no committed transaction wrote (or a committed delete removed)", k));
        }
    }
    for (k, want) in &m.kv {
        match store.get(k) {
            Err(_) => return Err(format!("committed write to {:?} is missing from the store", k)),
            Ok(d) => {
                let have = fields_of(&d);
                if &have != want {
                    return Err(format!("store value of {:?} is {:?}, committed transactions in block order give {:?}", k, have, want));
                }
                seen += 1;
            }
        }
    }
    Ok(seen)
}

// ------------------------------------------------------------------------------------------------
// transaction generator
// ------------------------------------------------------------------------------------------------

struct Gen {
    rng: Rng,
    uniq: u64,
}

impl Gen {
    fn data(&mut self, tag: &str) -> Vec<u8> {
        self.uniq += 1;
        format!("{}.{}", tag, self.uniq).into_bytes()
    }
    fn ukey(&mut self) -> String {
        format!("u:k{}", self.rng.below(6))
    }
    fn nkey(&mut self) -> String {
        format!("n{}", self.rng.below(3))
    }
    /// `model` is only used to make some compare-and-swap expectations match
    fn op(&mut self, tag: &str, model: &Model) -> Transaction {
        let w = [40u32, 12, 10, 8, 6, 3, 5, 6, 5, 3];
        match self.rng.weighted(&w) {
            0 => Transaction::Put { key: self.ukey(), data: self.data(tag) },
            1 => Transaction::Delete { key: self.ukey() },
            2 => {
                let key = self.ukey();
                let cur = model.kv.get(&key).and_then(|f| f.get("data")).and_then(|v| match v {
                    TensorValue::Scalar(ScalarValue::Bytes(b)) => Some(b.clone()),
                    _ => None,
                });
                let expected = match cur {
                    Some(c) if self.rng.chance(2, 3) => c,
                    _ => self.data("nomatch"),
                };
                Transaction::CompareAndSwap { key, expected_data: expected, new_data: self.data(tag) }
            }
            3 => {
                let v = (0..3).map(|_| (self.rng.below(2001) as f32 - 1000.0) / 8.0).collect();
                Transaction::Embed { key: format!("e{}", self.rng.below(3)), vector: v }
            }
            4 => {
                self.uniq += 1;
                Transaction::NodeCreate { key: self.nkey(), label: format!("L{}", self.uniq) }
            }
            5 => Transaction::NodeDelete { key: self.nkey() },
            6 => {
                self.uniq += 1;
                Transaction::EdgeCreate { from: self.nkey(), to: self.nkey(), edge_type: format!("t{}", self.rng.below(2)) }
            }
            7 => Transaction::TableInsert { table: format!("t{}", self.rng.below(2)), values: self.data(tag) },
            8 => Transaction::TableUpdate { table: format!("t{}", self.rng.below(2)), row_id: self.rng.below(4) as u64, values: self.data(tag) },
            _ => Transaction::TableDelete { table: format!("t{}", self.rng.below(2)), row_id: self.rng.below(4) as u64 },
        }
    }
}

fn tx_short(t: &Transaction) -> String {
    match t {
        Transaction::Put { key, data } => format!("Put({},{})", key, String::from_utf8_lossy(data)),
        Transaction::Delete { key } => format!("Del({})", key),
        Transaction::CompareAndSwap { key, expected_data, new_data } => {
            format!("Cas({},{}->{})", key, String::from_utf8_lossy(expected_data), String::from_utf8_lossy(new_data))
        }
        Transaction::Embed { key, .. } => format!("Embed({})", key),
        Transaction::NodeCreate { key, label } => format!("Node+({},{})", key, label),
        Transaction::NodeDelete { key } => format!("Node-({})", key),
        Transaction::EdgeCreate { from, to, edge_type } => format!("Edge+({},{},{})", from, to, edge_type),
        Transaction::TableInsert { table, values } => format!("TIns({},{})", table, String::from_utf8_lossy(values)),
        Transaction::TableUpdate { table, row_id, .. } => format!("TUpd({},{})", table, row_id),
        Transaction::TableDelete { table, row_id } => format!("TDel({},{})", table, row_id),
        _ => "?".into(),
    }
}

fn unit(dim: usize, i: usize) -> Vec<f32> {
    let mut v = vec![0.0f32; dim];
    v[i % dim] = 1.0;
    v
}

/// can `txs` be written as primary ++ (some order of all of `merged`)?  (merged.len() <= 3)
fn segments_ok(txs: &[Transaction], primary: &[Transaction], merged: &[Vec<Transaction>]) -> bool {
    if txs.len() < primary.len() || txs[..primary.len()] != *primary {
        return false;
    }
    fn rec(rest: &[Transaction], left: &mut Vec<&Vec<Transaction>>) -> bool {
        if left.is_empty() {
            return rest.is_empty();
        }
        for i in 0..left.len() {
            let cand = left[i];
            if rest.len() >= cand.len() && rest[..cand.len()] == cand[..] {
                let c = left.remove(i);
                if rec(&rest[c.len()..], left) {
                    return true;
                }
                left.insert(i, c);
            }
        }
        false
    }
    let mut left: Vec<&Vec<Transaction>> = merged.iter().collect();
    rec(&txs[primary.len()..], &mut left)
}

/// structural walk over the stored chain through get_block (independent of verify())
fn walk_chain(chain: &TensorChain, expect: &[Vec<Transaction>]) -> Result<(), (String, String)> {
    let h = chain.height();
    if h as usize + 1 != expect.len() {
        return Err(("height-differs-from-number-of-blocks".into(), format!("height {} but {} blocks were accepted (genesis excluded)", h, expect.len() - 1)));
    }
    let mut prev: Option<Block> = None;
    for i in 0..=h {
        let b = match chain.get_block(i) {
            Ok(Some(b)) => b,
            Ok(None) => return Err(("stored-block-missing".into(), format!("get_block({}) = None with height {}", i, h))),
            Err(e) => return Err(("stored-block-unreadable".into(), format!("get_block({}) = Err({})", i, e))),
        };
        if b.header.height != i {
            return Err(("stored-block-wrong-height".into(), format!("block stored at {} has header height {}", i, b.header.height)));
        }
        if let Some(p) = &prev {
            if b.header.prev_hash != p.hash() {
                return Err(("stored-block-prev-hash-mismatch".into(), format!("block {} prev_hash {} but block {} hashes to {}", i, short(&b.header.prev_hash), i - 1, short(&p.hash()))));
            }
        }
        if !b.verify_tx_root() {
            return Err(("stored-block-tx-root-mismatch".into(), format!("block {} tx_root does not match its transactions", i)));
        }
        if b.transactions != expect[i as usize] {
            return Err((
                "stored-block-content-differs".into(),
                format!("block {} holds {:?}, expected {:?}", i, b.transactions.iter().map(tx_short).collect::<Vec<_>>(), expect[i as usize].iter().map(tx_short).collect::<Vec<_>>()),
            ));
        }
        if i == h && chain.tip_hash() != b.hash() {
            return Err(("tip-hash-differs-from-stored-tip".into(), format!("tip_hash() {} but block {} hashes to {}", short(&chain.tip_hash()), i, short(&b.hash()))));
        }
        prev = Some(b);
    }
    Ok(())
}

fn state_name(s: TransactionState) -> &'static str {
    match s {
        TransactionState::Active => "Active",
        TransactionState::Committing => "Committing",
        TransactionState::Committed => "Committed",
        TransactionState::RolledBack => "RolledBack",
        TransactionState::Failed => "Failed",
    }
}

fn signed_block(height: u64, prev: BlockHash, txs: Vec<Transaction>, proposer: &Identity, proposer_name: Option<String>, ts: Option<u64>, emb: &[f32], codes: Vec<u16>) -> Block {
    let mut header = BlockHeader::new(height, prev, [0u8; 32], [0u8; 32], proposer_name.unwrap_or_else(|| proposer.node_id()));
    if !emb.is_empty() {
        header = header.with_dense_embedding(emb);
    }
    header = header.with_codes(codes);
    if let Some(t) = ts {
        header.timestamp = t;
    }
    let mut b = Block::new(header, txs);
    b.header.tx_root = b.compute_tx_root();
    b.header.signature = proposer.sign(&b.header.signing_bytes());
    b
}

/// a genuine validator endorsement of `b`: signature by `who` over the block hash
fn endorse(b: &mut Block, who: &Identity) {
    let h = b.hash();
    let _ = b.add_signature(ValidatorSignature { validator: who.node_id(), signature: who.sign(&h), block_hash: h });
}

// ------------------------------------------------------------------------------------------------
// part: sequential programs
// ------------------------------------------------------------------------------------------------

struct SeqWs {
    h: Arc<TransactionWorkspace>,
    ops: Vec<Transaction>,
    has_delta: bool,
    begun_at_change: u64,
    closed: bool,
}

fn seq_case(case_seed: u64, r: &mut Report) {
    let mut rng = Rng::new(case_seed);
    let allow_stale_rollback = rng.bool();
    let allow_bad_append = rng.bool();
    let auto_merge = rng.bool();
    let max_txs = if rng.chance(1, 3) { 3 + rng.below(4) } else { 1000 };
    let dim = *rng.pick(&[4usize, 128]);
    let am = if auto_merge { AutoMergeConfig::default().with_window(u64::MAX) } else { AutoMergeConfig::disabled() };
    let cfg = ChainConfig::new("n").with_auto_merge_config(am).with_max_txs(max_txs);
    let chain = TensorChain::with_config(TensorStore::new(), cfg);
    let id2 = Identity::generate();
    chain.register_validator(&id2);
    let outsider = Identity::generate();
    let replay = json!({"part": "seq", "case_seed": case_seed});
    if let Err(e) = chain.initialize() {
        r.violation("seq:initialize-failed", format!("initialize() on a fresh store: {}", e), replay);
        return;
    }
    let mut g = Gen { rng: rng.fork(7), uniq: 0 };
    let mut model = Model::default();
    let mut blocks: Vec<Vec<Transaction>> = vec![vec![]];
    let mut wss: Vec<SeqWs> = Vec::new();
    let mut changes = 0u64; // accepted blocks so far
    let mut trace: Vec<String> = Vec::new();
    let mut overlapped = false;
    let steps = 12 + rng.below(30);
    let cfg_desc = format!("auto_merge={} max_txs={} dim={}", auto_merge, max_txs, dim);

    macro_rules! fail {
        ($sig:expr, $detail:expr) => {{
            r.violation($sig, format!("{} [{}]; program: {}", $detail, cfg_desc, trace.join(" ; ")), replay.clone());
            return;
        }};
    }

    for _step in 0..steps {
        let open: Vec<usize> = (0..wss.len()).filter(|&i| !wss[i].closed).collect();
        let closed: Vec<usize> = (0..wss.len()).filter(|&i| wss[i].closed).collect();
        let fresh_open: Vec<usize> = open.iter().copied().filter(|&i| allow_stale_rollback || wss[i].begun_at_change == changes).collect();
        let fresh_closed: Vec<usize> = closed.iter().copied().filter(|&i| allow_stale_rollback || wss[i].begun_at_change == changes).collect();
        let w = [
            if open.len() < 4 { 14 } else { 0 },
            if open.is_empty() { 0 } else { 44 },
            if open.iter().any(|&i| !wss[i].has_delta && !wss[i].ops.is_empty()) { 16 } else { 0 },
            if open.is_empty() { 0 } else { 18 },
            if fresh_open.is_empty() { 0 } else { 7 },
            if closed.is_empty() { 0 } else { 2 },
            if fresh_closed.is_empty() { 0 } else { 2 },
            4,
            if allow_bad_append { 4 } else { 0 },
        ];
        let pre_dump = dump(chain.store());
        let pre_height = chain.height();
        let pre_tip = chain.tip_hash();
        let pre_states: Vec<TransactionState> = wss.iter().map(|w| w.h.state()).collect();
        let step_kind;
        let mut bad_kind = "";
        match rng.weighted(&w) {
            0 => {
                match chain.begin() {
                    Ok(h) => {
                        if !open.is_empty() {
                            overlapped = true;
                        }
                        trace.push(format!("w{}=begin", wss.len()));
                        wss.push(SeqWs { h, ops: vec![], has_delta: false, begun_at_change: changes, closed: false });
                        r.count("seq_begin", 1);
                    }
                    Err(e) => fail!("seq:begin-failed", format!("begin(): {}", e)),
                }
                step_kind = "begin";
            }
            1 => {
                let i = *rng.pick(&open);
                let op = g.op(&format!("w{}", i), &model);
                trace.push(format!("w{}.{}", i, tx_short(&op)));
                if let Err(e) = wss[i].h.add_operation(op.clone()) {
                    fail!("seq:add-operation-failed-on-active-workspace", format!("add_operation: {}", e));
                }
                wss[i].ops.push(op);
                r.count("seq_ops", 1);
                step_kind = "add";
            }
            2 => {
                let cands: Vec<usize> = open.iter().copied().filter(|&i| !wss[i].has_delta && !wss[i].ops.is_empty()).collect();
                let i = *rng.pick(&cands);
                let v = match rng.below(4) {
                    0 | 1 => unit(dim, i + 1),
                    2 => unit(dim, 0),
                    _ => {
                        let mut v = unit(dim, 0);
                        v[(i + 1) % dim] += 0.5;
                        v
                    }
                };
                wss[i].h.set_before_embedding(&vec![0.0; dim]);
                wss[i].h.compute_delta(&v);
                wss[i].has_delta = true;
                trace.push(format!("w{}.delta{:?}", i, v.iter().enumerate().filter(|(_, x)| **x != 0.0).map(|(p, x)| (p, *x)).collect::<Vec<_>>()));
                step_kind = "delta";
            }
            3 | 5 => {
                let pool = if !open.is_empty() && (closed.is_empty() || rng.chance(9, 10)) { &open } else { &closed };
                let mut i = *rng.pick(pool);
                if wss[i].ops.is_empty() && rng.chance(4, 5) {
                    // prefer workspaces that have something to commit
                    if let Some(&j) = pool.iter().find(|&&j| !wss[j].ops.is_empty()) {
                        i = j;
                    }
                }
                let was_closed = wss[i].closed;
                // fault: the proposer's key is absent from the validator registry while this commit
                // runs (removed / being rotated), so the block is refused by append AFTER the
                // workspace's writes were applied; the key is registered again right afterwards
                let keyless = !was_closed && !wss[i].ops.is_empty() && rng.chance(1, 5);
                if keyless {
                    let me = chain.node_id().clone();
                    let _ = chain.validator_registry().remove(&me);
                }
                let res = chain.commit(&wss[i].h);
                if keyless {
                    chain.register_validator(chain.identity());
                    r.count("seq_commit_with_proposer_key_absent", 1);
                    if res.is_err() {
                        r.count("seq_commit_failed_after_apply", 1);
                        if wss[i].begun_at_change != changes {
                            r.count("seq_commit_failed_after_apply_with_later_blocks", 1);
                        }
                    }
                }
                let states: Vec<TransactionState> = wss.iter().map(|w| w.h.state()).collect();
                match res {
                    Ok(hash) => {
                        trace.push(format!("commit{}(w{})=Ok", if keyless { "-keyless" } else { "" }, i));
                        if was_closed {
                            fail!("seq:commit-of-finished-workspace-succeeded", format!("commit(w{}) returned Ok although the workspace was {} before", i, state_name(pre_states[i])));
                        }
                        if states[i] != TransactionState::Committed {
                            fail!("seq:commit-ok-but-state-not-committed", format!("commit(w{}) = Ok but state is {}", i, state_name(states[i])));
                        }
                        wss[i].closed = true;
                        let merged: Vec<usize> = (0..wss.len()).filter(|&j| j != i && pre_states[j] == TransactionState::Active && states[j] == TransactionState::Committed).collect();
                        if wss[i].ops.is_empty() {
                            if chain.height() != pre_height || hash != pre_tip || !merged.is_empty() || dump(chain.store()) != pre_dump {
                                fail!("seq:empty-commit-changed-chain-or-store", format!("commit of the empty workspace w{} changed height/tip/store (merged {:?})", i, merged));
                            }
                            r.count("seq_commit_empty", 1);
                        } else {
                            if chain.height() != pre_height + 1 {
                                fail!("seq:commit-ok-height-not-plus-one", format!("commit(w{}) = Ok, height {} -> {}", i, pre_height, chain.height()));
                            }
                            let blk = match chain.get_block(pre_height + 1) {
                                Ok(Some(b)) => b,
                                other => fail!("seq:committed-block-unreadable", format!("get_block({}) after commit: {:?}", pre_height + 1, other.map(|o| o.is_some()))),
                            };
                            if blk.hash() != hash {
                                fail!("seq:commit-returned-hash-differs-from-stored-block", format!("commit returned {} but block {} hashes to {}", short(&hash), pre_height + 1, short(&blk.hash())));
                            }
                            let mops: Vec<Vec<Transaction>> = merged.iter().map(|&j| wss[j].ops.clone()).collect();
                            if !segments_ok(&blk.transactions, &wss[i].ops, &mops) {
                                fail!(
                                    "seq:block-is-not-the-committed-workspaces",
                                    format!("block {} holds {:?}; committed w{} with merged {:?}", pre_height + 1, blk.transactions.iter().map(tx_short).collect::<Vec<_>>(), i, merged)
                                );
                            }
                            for t in &blk.transactions {
                                model_apply(&mut model, t);
                            }
                            blocks.push(blk.transactions.clone());
                            changes += 1;
                            for &j in &merged {
                                wss[j].closed = true;
                            }
                            r.count("seq_commit_ok", 1);
                            r.count("seq_merged_workspaces", merged.len() as u64);
                        }
                        step_kind = "commit-ok";
                    }
                    Err(e) => {
                        let cls = first_line(&e.to_string());
                        trace.push(format!("commit{}(w{})=Err({})", if keyless { "-keyless" } else { "" }, i, cls));
                        if !was_closed && states[i] == TransactionState::Committed {
                            fail!("seq:commit-err-but-state-committed", format!("commit(w{}) = Err({}) but the workspace is Committed", i, e));
                        }
                        for j in 0..wss.len() {
                            if pre_states[j] != TransactionState::Committed && states[j] == TransactionState::Committed {
                                fail!("seq:failed-commit-committed-another-workspace", format!("commit(w{}) failed but w{} became Committed", i, j));
                            }
                            if states[j] != TransactionState::Active {
                                wss[j].closed = true;
                            }
                        }
                        wss[i].closed = true;
                        let post = dump(chain.store());
                        if post != pre_dump || chain.height() != pre_height || chain.tip_hash() != pre_tip {
                            fail!(
                                "seq:failed-commit-changed-chain-or-store",
                                format!("commit(w{}) = Err({}) yet height {}->{} and store diff {:?}", i, e, pre_height, chain.height(), dump_diff(&pre_dump, &post))
                            );
                        }
                        r.count("seq_commit_err", 1);
                        r.count(&format!("seq_commit_err[{}]", cls.split(|c| c == ':' || c == '(').next().unwrap_or("").trim()), 1);
                        step_kind = "commit-err";
                    }
                }
            }
            4 | 6 => {
                let pool = if w[4] > 0 && (fresh_closed.is_empty() || rng.chance(4, 5)) { &fresh_open } else { &fresh_closed };
                let i = *rng.pick(pool);
                let stale = wss[i].begun_at_change != changes;
                let res = chain.rollback(&wss[i].h);
                trace.push(format!("rollback(w{})={}", i, if res.is_ok() { "Ok".into() } else { format!("Err({})", first_line(&res.as_ref().unwrap_err().to_string())) }));
                if res.is_ok() && pre_states[i] == TransactionState::Committed {
                    fail!("seq:rollback-of-committed-workspace-succeeded", format!("rollback(w{}) = Ok on a committed workspace", i));
                }
                wss[i].closed = true;
                let post = dump(chain.store());
                if post != pre_dump || chain.height() != pre_height || chain.tip_hash() != pre_tip {
                    let sig = if stale { "rollback:restores-begin-checkpoint-over-later-commits" } else { "rollback:changed-chain-or-store" };
                    fail!(
                        sig,
                        format!(
                            "rollback(w{}) (begun when {} block(s) existed, now {}) changed the store: {:?}; verify() afterwards = {:?}",
                            i,
                            wss[i].begun_at_change,
                            changes,
                            dump_diff(&pre_dump, &post),
                            chain.verify().map_err(|e| e.to_string())
                        )
                    );
                }
                r.count("seq_rollback", 1);
                if stale {
                    r.count("seq_rollback_after_later_commit", 1);
                }
                step_kind = "rollback";
            }
            7 => {
                // a valid block appended directly (chain-only operation: transactions are not applied)
                let n = 1 + rng.below(4);
                let txs: Vec<Transaction> = (0..n).map(|_| g.op("ab", &model)).collect();
                let blk = if rng.bool() {
                    let mut b = chain.new_block().add_transactions(txs.clone());
                    if rng.bool() {
                        b = b.with_dense_embedding(&unit(dim, rng.below(dim))).with_codes(vec![rng.below(100) as u16]);
                    }
                    b.sign_and_build(chain.identity())
                } else {
                    signed_block(pre_height + 1, pre_tip, txs.clone(), &id2, None, None, &[], vec![])
                };
                let mut blk = blk;
                if rng.chance(1, 3) {
                    endorse(&mut blk, &id2);
                    if rng.bool() {
                        endorse(&mut blk, chain.identity());
                    }
                    r.count("seq_append_with_endorsements", 1);
                }
                match chain.append_block(blk) {
                    Ok(_) => {
                        blocks.push(txs);
                        changes += 1;
                        trace.push("append(valid)=Ok".into());
                        r.count("seq_append_ok", 1);
                    }
                    Err(e) => fail!("seq:valid-append-rejected", format!("append_block of a correctly linked, signed block by a registered validator: {}", e)),
                }
                step_kind = "append";
            }
            _ => {
                let txs: Vec<Transaction> = vec![g.op("bad", &model)];
                let tip_ts = chain.get_block(pre_height).ok().flatten().map(|b| b.header.timestamp).unwrap_or(0);
                let kinds = ["wrong-height", "wrong-prev-hash", "wrong-tx-root", "unsigned", "outsider-signed", "outsider-signed-as-validator", "earlier-timestamp", "tip-again"];
                let kind = *rng.pick(&kinds);
                let blk = match kind {
                    "wrong-height" => signed_block(pre_height + 2, pre_tip, txs.clone(), chain.identity(), None, None, &[], vec![]),
                    "wrong-prev-hash" => {
                        let mut p = pre_tip;
                        p[0] ^= 1;
                        signed_block(pre_height + 1, p, txs.clone(), chain.identity(), None, None, &[], vec![])
                    }
                    "wrong-tx-root" => {
                        let mut b = signed_block(pre_height + 1, pre_tip, txs.clone(), chain.identity(), None, None, &[], vec![]);
                        b.header.tx_root[3] ^= 0x10;
                        b.header.signature = chain.identity().sign(&b.header.signing_bytes());
                        b
                    }
                    "unsigned" => chain.new_block().add_transactions(txs.clone()).build(),
                    "outsider-signed" => signed_block(pre_height + 1, pre_tip, txs.clone(), &outsider, None, None, &[], vec![]),
                    "outsider-signed-as-validator" => signed_block(pre_height + 1, pre_tip, txs.clone(), &outsider, Some(chain.node_id().clone()), None, &[], vec![]),
                    "earlier-timestamp" => signed_block(pre_height + 1, pre_tip, txs.clone(), chain.identity(), None, Some(tip_ts.saturating_sub(1 + rng.below(1000) as u64)), &[], vec![]),
                    _ => match chain.get_block(pre_height) {
                        Ok(Some(b)) => b,
                        _ => continue,
                    },
                };
                let first = pre_height == 0;
                match chain.append_block(blk.clone()) {
                    Ok(_) => {
                        blocks.push(blk.transactions.clone());
                        changes += 1;
                        trace.push(format!("append({})=Ok", kind));
                        r.count("seq_bad_append_accepted", 1);
                    }
                    Err(_) => {
                        trace.push(format!("append({})=Err", kind));
                        r.count("seq_bad_append_rejected", 1);
                    }
                }
                step_kind = "append-bad";
                // unsigned / unknown proposer / invalid signature at height 1 are one class: append()
                // does not look at the signature of the first block after genesis
                bad_kind = match (kind, first) {
                    ("unsigned", true) | ("outsider-signed", true) | ("outsider-signed-as-validator", true) => "signature-not-checked-at-height-1",
                    (k, _) => k,
                };
            }
        }
        // ---- after every call
        r.count("seq_verify_calls", 1);
        if let Err(e) = chain.verify() {
            let sig = if step_kind == "append-bad" { format!("append-accepted-then-verify-fails:{}", bad_kind) } else { format!("seq:verify-fails-after-{}", step_kind) };
            fail!(sig, format!("verify() = Err({}) on a chain built only through the public interface", e));
        }
        if chain.height() as usize + 1 != blocks.len() {
            fail!("seq:height-differs-from-number-of-blocks", format!("height {} after {} accepted blocks", chain.height(), blocks.len() - 1));
        }
        match check_store(chain.store(), &model) {
            Ok(n) => r.count("seq_store_keys_checked", n),
            Err(d) => fail!(format!("seq:store-differs-from-committed-writes-after-{}", step_kind), d),
        }
    }
    // ---- end of program: structure and history
    if let Err((sig, d)) = walk_chain(&chain, &blocks) {
        fail!(format!("seq:{}", sig), d);
    }
    let mut keys: BTreeSet<String> = BTreeSet::new();
    for b in &blocks {
        for t in b {
            keys.insert(t.affected_key().to_string());
        }
    }
    for k in keys.iter().take(6) {
        let want: Vec<(u64, Transaction)> = blocks.iter().enumerate().flat_map(|(h, b)| b.iter().filter(|t| t.affected_key() == k).map(move |t| (h as u64, t.clone()))).collect();
        match chain.history(k) {
            Ok(have) if have == want => r.count("seq_history_checked", 1),
            Ok(have) => fail!("seq:history-differs-from-blocks", format!("history({:?}) has {} entries, blocks hold {}", k, have.len(), want.len())),
            Err(e) => fail!("seq:history-failed", format!("history({:?}): {}", k, e)),
        }
    }
    r.count("seq_programs", 1);
    r.count("seq_blocks", blocks.len() as u64 - 1);
    r.eval(hash_str(&trace.join(";")), overlapped && blocks.len() > 1);
    if r.want_sample() && overlapped && blocks.len() > 2 {
        r.sample(json!({"part": "seq", "config": cfg_desc, "blocks": blocks.len() - 1, "program": trace.iter().take(30).collect::<Vec<_>>()}));
    }
}

// ------------------------------------------------------------------------------------------------
// part: tamper matrix
// ------------------------------------------------------------------------------------------------

fn block_key(h: u64) -> String {
    format!("chain:block:{}", h)
}

fn record_with_block(orig: &TensorData, bytes: Vec<u8>) -> TensorData {
    let mut d = orig.clone();
    d.set("_block", TensorValue::Scalar(ScalarValue::Bytes(bytes)));
    d
}

fn record_block_bytes(d: &TensorData) -> Option<Vec<u8>> {
    match d.get("_block") {
        Some(TensorValue::Scalar(ScalarValue::Bytes(b))) => Some(b.clone()),
        _ => None,
    }
}

fn flip(h: &mut [u8; 32], bit: usize) {
    h[(bit / 8) % 32] ^= 1 << (bit % 8);
}

struct TamperCtx<'a> {
    chain_id: &'a Identity,
    id2: &'a Identity,
    outsider: &'a Identity,
    other_hash: BlockHash,
    /// another stored block of the same chain (source of genuine signed elements to transplant)
    other: &'a Block,
    /// a stored block (not this one) that carries validator endorsements, if any
    endorsed_other: Option<&'a Block>,
}

/// every single-field mutation of `b` (class, variant, mutated block)
fn mutations(b: &Block, cx: &TamperCtx, rng: &mut Rng) -> Vec<(&'static str, String, Block)> {
    let mut out: Vec<(&'static str, String, Block)> = Vec::new();
    let mut add = |class: &'static str, variant: String, f: &dyn Fn(&mut Block)| {
        let mut m = b.clone();
        f(&mut m);
        out.push((class, variant, m));
    };
    let bit = rng.below(256);
    // header.height
    add("height", "+1".into(), &|m| m.header.height += 1);
    if b.header.height > 0 {
        add("height", "-1".into(), &|m| m.header.height -= 1);
    }
    add("height", "far".into(), &|m| m.header.height += 1000);
    // header.prev_hash
    add("prev_hash", "bitflip".into(), &|m| flip(&mut m.header.prev_hash, bit));
    add("prev_hash", "zero".into(), &|m| m.header.prev_hash = [0u8; 32]);
    add("prev_hash", "other-block".into(), &|m| m.header.prev_hash = cx.other_hash);
    // header.tx_root
    add("tx_root", "bitflip".into(), &|m| flip(&mut m.header.tx_root, bit));
    add("tx_root", "zero".into(), &|m| m.header.tx_root = [0u8; 32]);
    // header.state_root
    add("state_root", "bitflip".into(), &|m| flip(&mut m.header.state_root, bit));
    add("state_root", "zero".into(), &|m| m.header.state_root = [0u8; 32]);
    // header.timestamp
    add("timestamp", "+1".into(), &|m| m.header.timestamp = m.header.timestamp.wrapping_add(1));
    add("timestamp", "-1".into(), &|m| m.header.timestamp = m.header.timestamp.wrapping_sub(1));
    add("timestamp", "zero".into(), &|m| m.header.timestamp = 0);
    add("timestamp", "max".into(), &|m| m.header.timestamp = u64::MAX);
    // header.proposer
    add("proposer", "other-validator".into(), &|m| {
        m.header.proposer = if m.header.proposer == cx.id2.node_id() { cx.chain_id.node_id() } else { cx.id2.node_id() }
    });
    add("proposer", "unregistered".into(), &|m| m.header.proposer = cx.outsider.node_id());
    add("proposer", "empty".into(), &|m| m.header.proposer = String::new());
    add("proposer", "suffix".into(), &|m| m.header.proposer.push('x'));
    // header.signature
    if b.header.signature.is_empty() {
        add("signature", "set".into(), &|m| m.header.signature = vec![7u8; 64]);
        add("signature", "signed-by-unregistered".into(), &|m| m.header.signature = cx.outsider.sign(&m.header.signing_bytes()));
    } else {
        let n = b.header.signature.len();
        let pos = rng.below(n * 8);
        add("signature", "bitflip".into(), &|m| m.header.signature[pos / 8] ^= 1 << (pos % 8));
        add("signature", "truncate".into(), &|m| {
            m.header.signature.pop();
        });
        add("signature", "extend".into(), &|m| m.header.signature.push(0));
        add("signature", "empty".into(), &|m| m.header.signature.clear());
        add("signature", "signed-by-unregistered".into(), &|m| m.header.signature = cx.outsider.sign(&m.header.signing_bytes()));
        add("signature", "signed-by-other-validator".into(), &|m| {
            let who = if m.header.proposer == cx.id2.node_id() { cx.chain_id } else { cx.id2 };
            m.header.signature = who.sign(&m.header.signing_bytes())
        });
    }
    // header.delta_embedding
    if b.header.delta_embedding.nnz() > 0 {
        add("embedding", "value".into(), &|m| {
            let e = &m.header.delta_embedding;
            let mut v: Vec<f32> = e.values().to_vec();
            v[0] += 0.25;
            m.header.delta_embedding = SparseVector::from_parts(e.dimension(), e.positions().to_vec(), v);
        });
        add("embedding", "position".into(), &|m| {
            let e = &m.header.delta_embedding;
            let mut p: Vec<u32> = e.positions().to_vec();
            let last = p.len() - 1;
            p[last] += 1;
            m.header.delta_embedding = SparseVector::from_parts(e.dimension().max(p[last] as usize + 1), p, e.values().to_vec());
        });
        add("embedding", "cleared".into(), &|m| m.header.delta_embedding = SparseVector::new(0));
    } else {
        add("embedding", "set".into(), &|m| m.header.delta_embedding = SparseVector::from_dense(&[0.0, 1.0]));
    }
    add("embedding", "dimension".into(), &|m| {
        let e = &m.header.delta_embedding;
        m.header.delta_embedding = SparseVector::from_parts(e.dimension() + 1, e.positions().to_vec(), e.values().to_vec());
    });
    // header.quantized_codes
    add("codes", "push".into(), &|m| m.header.quantized_codes.push(7));
    if !b.header.quantized_codes.is_empty() {
        add("codes", "alter".into(), &|m| m.header.quantized_codes[0] ^= 1);
        add("codes", "clear".into(), &|m| m.header.quantized_codes.clear());
    }
    // transactions
    let n = b.transactions.len();
    for i in 0..n.min(8) {
        add("tx-payload", format!("{}", i), &|m| match &mut m.transactions[i] {
            Transaction::Put { data, .. } => data.push(b'!'),
            Transaction::CompareAndSwap { new_data, .. } => new_data.push(b'!'),
            Transaction::Embed { vector, .. } => vector.push(1.0),
            Transaction::TableInsert { values, .. } | Transaction::TableUpdate { values, .. } => values.push(b'!'),
            Transaction::Delete { key } | Transaction::NodeDelete { key } => key.push('x'),
            Transaction::NodeCreate { label, .. } => label.push('x'),
            Transaction::EdgeCreate { edge_type, .. } => edge_type.push('x'),
            Transaction::TableDelete { row_id, .. } => *row_id += 1,
            _ => {}
        });
        add("tx-key", format!("{}", i), &|m| match &mut m.transactions[i] {
            Transaction::Put { key, .. }
            | Transaction::CompareAndSwap { key, .. }
            | Transaction::Embed { key, .. }
            | Transaction::Delete { key }
            | Transaction::NodeDelete { key }
            | Transaction::NodeCreate { key, .. } => key.push('y'),
            Transaction::EdgeCreate { from, .. } => from.push('y'),
            Transaction::TableInsert { table, .. } | Transaction::TableUpdate { table, .. } | Transaction::TableDelete { table, .. } => table.push('y'),
            _ => {}
        });
        add("tx-kind", format!("{}", i), &|m| {
            let k = m.transactions[i].affected_key().to_string();
            m.transactions[i] = match &m.transactions[i] {
                Transaction::Delete { .. } => Transaction::NodeDelete { key: k },
                _ => Transaction::Delete { key: k },
            }
        });
        add("tx-removed", format!("{}", i), &|m| {
            m.transactions.remove(i);
        });
        if i + 1 < n {
            add("tx-duplicated", format!("{}", i), &|m| {
                let t = m.transactions[i].clone();
                m.transactions.insert(i + 1, t);
            });
            add("tx-reordered", format!("{}<->{}", i, i + 1), &|m| m.transactions.swap(i, i + 1));
        }
    }
    for k in [1usize, 2, 4] {
        if n >= k {
            add("tx-tail-duplicated", format!("last{}of{}", k, n), &|m| {
                let tail: Vec<Transaction> = m.transactions[n - k..].to_vec();
                m.transactions.extend(tail);
            });
        }
    }
    add("tx-added", "append".into(), &|m| m.transactions.push(Transaction::Put { key: "u:forged".into(), data: b"x".to_vec() }));
    if n > 0 {
        add("tx-added", "prepend".into(), &|m| m.transactions.insert(0, Transaction::Delete { key: "u:k0".into() }));
        add("tx-removed", "all".into(), &|m| m.transactions.clear());
    }
    // validator signature list
    add("validator-signatures", "push-garbage".into(), &|m| {
        let h = m.hash();
        m.signatures.push(ValidatorSignature { validator: "v".into(), signature: vec![1, 2, 3], block_hash: h })
    });
    add("validator-signatures", "push-signed-by-unregistered".into(), &|m| {
        let h = m.hash();
        m.signatures.push(ValidatorSignature { validator: cx.outsider.node_id(), signature: cx.outsider.sign(&h), block_hash: h })
    });
    add("validator-signatures", "push-unregistered-key-validator-name".into(), &|m| {
        let h = m.hash();
        m.signatures.push(ValidatorSignature { validator: cx.id2.node_id(), signature: cx.outsider.sign(&h), block_hash: h })
    });
    for i in 0..b.signatures.len().min(3) {
        let pos = rng.below(b.signatures[i].signature.len().max(1) * 8);
        add("validator-signatures", format!("entry{}-signature-bitflip", i), &|m| {
            if !m.signatures[i].signature.is_empty() {
                m.signatures[i].signature[pos / 8] ^= 1 << (pos % 8)
            }
        });
        add("validator-signatures", format!("entry{}-validator-renamed", i), &|m| {
            m.signatures[i].validator = if m.signatures[i].validator == cx.chain_id.node_id() { cx.id2.node_id() } else { cx.chain_id.node_id() }
        });
        add("validator-signatures", format!("entry{}-block-hash-bitflip", i), &|m| flip(&mut m.signatures[i].block_hash, bit));
        add("validator-signatures", format!("entry{}-block-hash-of-other-block", i), &|m| m.signatures[i].block_hash = cx.other_hash);
        // the entries are not committed to by anything the proposer signed: dropping, repeating or
        // reordering genuine entries is judged as its own class
        add("validator-signature-list", format!("entry{}-removed", i), &|m| {
            m.signatures.remove(i);
        });
        add("validator-signature-list", format!("entry{}-repeated", i), &|m| {
            let e = m.signatures[i].clone();
            m.signatures.push(e);
        });
        if i + 1 < b.signatures.len() {
            add("validator-signature-list", format!("entries{}<->{}", i, i + 1), &|m| m.signatures.swap(i, i + 1));
        }
    }
    // ---- genuine signed elements moved in from ANOTHER stored block
    if let Some(src) = cx.endorsed_other {
        for (k, e) in src.signatures.iter().enumerate().take(2) {
            add("transplanted-validator-signature", format!("entry{}-of-block{}-appended", k, src.header.height), &|m| m.signatures.push(e.clone()));
            if !b.signatures.is_empty() {
                add("transplanted-validator-signature", format!("entry{}-of-block{}-replaces-entry0", k, src.header.height), &|m| m.signatures[0] = e.clone());
            }
        }
        add("transplanted-validator-signature", format!("whole-list-of-block{}", src.header.height), &|m| m.signatures = src.signatures.clone());
    }
    if b.header.height > 0 && cx.other.header.height > 0 {
        add("transplanted-proposer-signature", format!("from-block{}", cx.other.header.height), &|m| m.header.signature = cx.other.header.signature.clone());
        add("transplanted-header", format!("from-block{}", cx.other.header.height), &|m| m.header = cx.other.header.clone());
        add("transplanted-header", format!("from-block{}-height-kept", cx.other.header.height), &|m| {
            let hh = m.header.height;
            m.header = cx.other.header.clone();
            m.header.height = hh;
        });
        if !cx.other.transactions.is_empty() {
            add("transplanted-transactions", format!("list-of-block{}", cx.other.header.height), &|m| m.transactions = cx.other.transactions.clone());
            add("transplanted-transactions", format!("first-of-block{}-appended", cx.other.header.height), &|m| m.transactions.push(cx.other.transactions[0].clone()));
        }
    }
    out
}

fn tamper_case(case_seed: u64, r: &mut Report) {
    let mut rng = Rng::new(case_seed);
    let replay = json!({"part": "tamper", "case_seed": case_seed});
    let cfg = ChainConfig::new("n").with_auto_merge_config(AutoMergeConfig::disabled());
    let chain = TensorChain::with_config(TensorStore::new(), cfg);
    let id2 = Identity::generate();
    chain.register_validator(&id2);
    let id3 = Identity::generate();
    chain.register_validator(&id3);
    let outsider = Identity::generate();
    if let Err(e) = chain.initialize() {
        r.violation("tamper:initialize-failed", format!("{}", e), replay);
        return;
    }
    let mut g = Gen { rng: rng.fork(3), uniq: 0 };
    let mut model = Model::default();
    // ---- build the chain through the public interface
    let nblocks = 4 + rng.below(4);
    let mut counts: Vec<usize> = (0..nblocks).map(|_| 1 + rng.below(6)).collect();
    counts[rng.below(2)] = 3;
    counts[2 + rng.below(2)] = *rng.pick(&[5usize, 6, 7]);
    let mut shapes = Vec::new();
    // at least two blocks carry validator endorsements (so that a genuine entry of one block can
    // be moved into another)
    let mut hows: Vec<usize> = (0..nblocks).map(|_| rng.below(6)).collect();
    let e1 = rng.below(nblocks);
    let e2 = (e1 + 1 + rng.below(nblocks - 1)) % nblocks;
    hows[e1] = 5;
    hows[e2] = 5;
    for (bi, &n) in counts.iter().enumerate() {
        let how = hows[bi];
        let h = chain.height();
        let res = if how <= 2 {
            let ws = match chain.begin() {
                Ok(w) => w,
                Err(e) => {
                    r.violation("tamper:begin-failed", format!("{}", e), replay);
                    return;
                }
            };
            let ops: Vec<Transaction> = (0..n).map(|_| g.op(&format!("b{}", bi), &model)).collect();
            for o in &ops {
                let _ = ws.add_operation(o.clone());
                model_apply(&mut model, o);
            }
            if rng.bool() {
                ws.set_before_embedding(&[0.0; 8]);
                ws.compute_delta(&unit(8, bi));
            }
            shapes.push(format!("commit{}", n));
            chain.commit(&ws).map(|_| ())
        } else if how == 3 {
            let txs: Vec<Transaction> = (0..n).map(|_| g.op(&format!("b{}", bi), &model)).collect();
            let b = chain.new_block().add_transactions(txs).with_dense_embedding(&[0.5, 0.0, 2.0]).with_codes(vec![3, 9]).sign_and_build(chain.identity());
            shapes.push(format!("append{}", n));
            chain.append_block(b).map(|_| ())
        } else if how == 5 {
            let txs: Vec<Transaction> = (0..n).map(|_| g.op(&format!("b{}", bi), &model)).collect();
            let mut b = chain.new_block().add_transactions(txs).sign_and_build(chain.identity());
            let who = rng.below(3);
            if who != 1 {
                endorse(&mut b, &id2);
            }
            if who != 0 {
                endorse(&mut b, &id3);
            }
            shapes.push(format!("append{}-endorsed{}", n, b.signatures.len()));
            chain.append_block(b).map(|_| ())
        } else {
            let txs: Vec<Transaction> = (0..n).map(|_| g.op(&format!("b{}", bi), &model)).collect();
            let b = signed_block(h + 1, chain.tip_hash(), txs, &id2, None, None, &[], vec![]);
            shapes.push(format!("append-by-validator2-{}", n));
            chain.append_block(b).map(|_| ())
        };
        if let Err(e) = res {
            r.violation("tamper:building-the-chain-failed", format!("block {} ({}): {}", h + 1, shapes.last().unwrap(), e), replay);
            return;
        }
    }
    if let Err(e) = chain.verify() {
        r.violation("tamper:verify-fails-on-untampered-chain", format!("verify() = Err({}) on chain {:?}", e, shapes), replay);
        return;
    }
    let height = chain.height();
    let store = chain.store().clone();
    let originals: Vec<TensorData> = match (0..=height).map(|h| store.get(&block_key(h))).collect::<Result<Vec<_>, _>>() {
        Ok(v) => v,
        Err(_) => {
            r.inconclusive("tamper: a block record is not readable through the store");
            return;
        }
    };
    let orig_blocks: Vec<Block> = match originals.iter().map(|d| record_block_bytes(d).and_then(|b| bitcode::deserialize::<Block>(&b).ok())).collect::<Option<Vec<_>>>() {
        Some(v) => v,
        None => {
            r.inconclusive("tamper: a block record does not decode");
            return;
        }
    };
    let desc = |h: u64| if h == 0 { "genesis".to_string() } else { shapes[h as usize - 1].clone() };

    // one tamper experiment: write records, verify, restore
    let experiment = |r: &mut Report, scope: &str, class: &str, variant: &str, h: u64, writes: Vec<(u64, Option<TensorData>)>, special: Option<&str>| {
        for (hh, rec) in &writes {
            match rec {
                Some(d) => {
                    let _ = store.put(block_key(*hh), d.clone());
                }
                None => {
                    let _ = store.delete(&block_key(*hh));
                }
            }
        }
        let res = chain.verify();
        for (hh, _) in &writes {
            let _ = store.put(block_key(*hh), originals[*hh as usize].clone());
        }
        r.count("tamper_evals", 1);
        r.count(&format!("tamper[{}]", class), 1);
        r.eval(hash_str(&format!("{}|{}|{}|{}|{}", scope, class, variant, desc(h), if h == height { "tip" } else { "inner" })), true);
        match res {
            Err(_) => r.count("tamper_detected", 1),
            // Dropping, repeating or reordering GENUINE endorsements: nothing the proposer signed
            // commits to the endorsement list (endorsements are added after signing through
            // Block::add_signature), so the resulting block is one the public interface could have
            // produced. Observed and counted; a violation only with --strict-endorsement-list 1.
            Ok(()) if class == "validator-signature-list" && !STRICT_ENDORSEMENT_LIST.load(Ordering::Relaxed) => {
                r.count("tamper_endorsement_list_change_undetected", 1)
            }
            Ok(()) => {
                let sig = match special {
                    Some(sp) => format!("tamper-undetected:{}", sp),
                    None => format!("tamper-undetected:{}:{}", scope, class),
                };
                r.violation(
                    sig,
                    format!(
                        "verify() = Ok after block {} of {} ({}, chain {:?}) was altered in the store: {} / {}",
                        h, height, desc(h), shapes, class, variant
                    ),
                    replay.clone(),
                );
            }
        }
    };

    for h in 0..=height {
        let ob = &orig_blocks[h as usize];
        let obytes = record_block_bytes(&originals[h as usize]).unwrap_or_default();
        let scope = if h == 0 { "genesis" } else { "block" };
        let other = ((h + 1 + rng.below(height as usize) as u64) % (height + 1)) as usize;
        let endorsed: Vec<&Block> = orig_blocks.iter().filter(|b| b.header.height != h && !b.signatures.is_empty()).collect();
        let endorsed_other = if endorsed.is_empty() { None } else { Some(endorsed[rng.below(endorsed.len())]) };
        let cx = TamperCtx { chain_id: chain.identity(), id2: &id2, outsider: &outsider, other_hash: orig_blocks[other].hash(), other: &orig_blocks[other], endorsed_other };
        for (class, variant, m) in mutations(ob, &cx, &mut rng) {
            let bytes = match bitcode::serialize(&m) {
                Ok(b) => b,
                Err(_) => continue,
            };
            if bytes == obytes || m == *ob {
                r.count("tamper_noop_skipped", 1);
                continue;
            }
            // a changed transaction list whose Merkle root is unchanged: the odd-leaf duplication of
            // merkle_root makes [a,b,c] and [a,b,c,c] (and [..,e,f] / [..,e,f,e,f]) collide
            let special = if m.transactions != ob.transactions && m.header == ob.header && m.compute_tx_root() == ob.header.tx_root && !ob.transactions.is_empty() {
                Some("block:merkle-odd-leaf-duplication")
            } else {
                None
            };
            experiment(r, scope, class, &variant, h, vec![(h, Some(record_with_block(&originals[h as usize], bytes)))], special);
        }
        // raw bit flips of the stored bytes
        for _ in 0..6 {
            let mut bytes = obytes.clone();
            if bytes.is_empty() {
                break;
            }
            let pos = rng.below(bytes.len() * 8);
            bytes[pos / 8] ^= 1 << (pos % 8);
            if let Ok(dec) = bitcode::deserialize::<Block>(&bytes) {
                if dec == *ob {
                    r.count("tamper_rawflip_decodes_to_same_block", 1);
                    continue;
                }
            }
            experiment(r, scope, "raw-bitflip", &format!("bit{}", pos), h, vec![(h, Some(record_with_block(&originals[h as usize], bytes)))], None);
        }
        // whole-record tampering
        experiment(r, scope, "record-removed", "", h, vec![(h, None)], None);
        if h < height {
            experiment(r, scope, "records-swapped", &format!("{}<->{}", h, h + 1), h, vec![(h, Some(originals[h as usize + 1].clone())), (h + 1, Some(originals[h as usize].clone()))], None);
        }
        if other as u64 != h {
            experiment(r, scope, "record-replaced-by-other-block", &format!("{}<-{}", h, other), h, vec![(h, Some(originals[other].clone()))], None);
        }
        if h >= 1 {
            let txs = vec![Transaction::Put { key: "u:forged".into(), data: b"f".to_vec() }];
            let prev = ob.header.prev_hash;
            let forged = [
                ("forged:unregistered-key-own-name", signed_block(h, prev, txs.clone(), &outsider, None, Some(ob.header.timestamp), &[], vec![])),
                ("forged:unregistered-key-validator-name", signed_block(h, prev, txs.clone(), &outsider, Some(ob.header.proposer.clone()), Some(ob.header.timestamp), &[], vec![])),
                ("forged:unsigned", {
                    let mut b = signed_block(h, prev, txs.clone(), &outsider, Some(ob.header.proposer.clone()), Some(ob.header.timestamp), &[], vec![]);
                    b.header.signature.clear();
                    b
                }),
                ("forged:old-signature-reused", {
                    let mut b = signed_block(h, prev, txs.clone(), &outsider, Some(ob.header.proposer.clone()), Some(ob.header.timestamp), &[], vec![]);
                    b.header.signature = ob.header.signature.clone();
                    b
                }),
            ];
            for (class, fb) in forged {
                if let Ok(bytes) = bitcode::serialize(&fb) {
                    experiment(r, scope, class, "", h, vec![(h, Some(record_with_block(&originals[h as usize], bytes)))], None);
                }
            }
        }
    }
    // the restored chain must verify again, otherwise the experiments above measured nothing
    if chain.verify().is_err() {
        r.inconclusive("tamper: chain does not verify after the original records were written back");
        return;
    }
    r.count("tamper_chains", 1);
    r.count("tamper_blocks", height + 1);
    if r.want_sample() {
        r.sample(json!({"part": "tamper", "chain": shapes, "height": height}));
    }
}

// ------------------------------------------------------------------------------------------------
// part: concurrent commits
// ------------------------------------------------------------------------------------------------

struct ConcOutcome {
    ok: Option<BlockHash>,
    err: Option<String>,
    inv: u64,
    res: u64,
    hook: Option<u64>,
}

/// one call made by the owner of a workspace on its own workspace while commits are in flight
struct OwnerCall {
    /// "add" | "delta" | "rollback"
    kind: &'static str,
    op: Option<Transaction>,
    ok: bool,
    state_before: TransactionState,
    had_delta: bool,
    inv: u64,
    res: u64,
}

fn owner_add(ws: &TransactionWorkspace, op: Transaction, had_delta: bool, tick: &AtomicU64) -> OwnerCall {
    let state_before = ws.state();
    let inv = tick.fetch_add(1, Ordering::SeqCst);
    let ok = ws.add_operation(op.clone()).is_ok();
    let res = tick.fetch_add(1, Ordering::SeqCst);
    OwnerCall { kind: "add", op: Some(op), ok, state_before, had_delta, inv, res }
}

/// mode 0 = stress (jitter at the hook, all threads released together), 1 = deterministic parking
fn conc_case(case_seed: u64, r: &mut Report, forced_mode: Option<u64>) {
    let mut rng = Rng::new(case_seed);
    let mode = forced_mode.unwrap_or_else(|| rng.below(2) as u64);
    let replay = json!({"part": "concurrent", "case_seed": case_seed, "mode": mode});
    let n = 2 + rng.below(3);
    let auto_merge = rng.bool();
    let key_pattern = rng.below(3); // 0 disjoint keys, 1 all share a key, 2 mixed
    let delta_pattern = rng.below(4); // 0 none, 1 orthogonal, 2 conflicting, 3 mixed
    let prefix = rng.below(3);
    let dim = 8usize;
    let am = if auto_merge { AutoMergeConfig::default().with_window(u64::MAX) } else { AutoMergeConfig::disabled() };
    let chain = Arc::new(TensorChain::with_config(TensorStore::new(), ChainConfig::new("n").with_auto_merge_config(am)));
    if let Err(e) = chain.initialize() {
        r.violation("concurrent-commit:initialize-failed", format!("{}", e), replay);
        return;
    }
    let cfg_desc = format!("threads={} auto_merge={} keys={} deltas={} prefix_blocks={} mode={}", n, auto_merge, ["disjoint", "shared", "mixed"][key_pattern], ["none", "orthogonal", "conflicting", "mixed"][delta_pattern], prefix, if mode == 0 { "stress" } else { "parked" });
    let mut model0 = Model::default();
    let mut blocks: Vec<Vec<Transaction>> = vec![vec![]];
    for p in 0..prefix {
        let ws = match chain.begin() {
            Ok(w) => w,
            Err(_) => return,
        };
        let ops = vec![Transaction::Put { key: format!("u:k{}", p), data: format!("pre{}", p).into_bytes() }, Transaction::Put { key: "u:shared".into(), data: format!("pre{}", p).into_bytes() }];
        for o in &ops {
            let _ = ws.add_operation(o.clone());
            model_apply(&mut model0, o);
        }
        if chain.commit(&ws).is_err() {
            r.inconclusive("concurrent: sequential prefix commit failed");
            return;
        }
        blocks.push(ops);
    }
    // ---- prepared workspaces
    // workspaces 0..n are committed by their owner thread; workspaces n..n+nb stay open: their
    // owners keep working on them (add_operation / set delta / rollback) while the others commit,
    // and with auto-merge they may be taken into another workspace's block at any moment
    let nb = if auto_merge { rng.weighted(&[2, 3, 2]) } else { rng.weighted(&[5, 2, 1]) };
    let total = n + nb;
    let mut wss: Vec<Arc<TransactionWorkspace>> = Vec::new();
    let mut ops_of: Vec<Vec<Transaction>> = Vec::new();
    let mut dirs: Vec<Option<Vec<f32>>> = Vec::new();
    let mut delta_set: Vec<bool> = Vec::new();
    for i in 0..total {
        let ws = match chain.begin() {
            Ok(w) => w,
            Err(_) => return,
        };
        let mut ops = Vec::new();
        let k = 1 + rng.below(3);
        for j in 0..k {
            let shared = match key_pattern {
                0 => false,
                1 => j == 0,
                _ => rng.bool(),
            };
            let key = if shared { "u:shared".to_string() } else { format!("u:w{}k{}", i, j) };
            let op = match rng.below(8) {
                0 if shared => Transaction::Delete { key },
                1 => Transaction::Embed { key: format!("e{}x{}", i, j), vector: vec![i as f32, j as f32] },
                _ => Transaction::Put { key, data: format!("w{}.{}", i, j).into_bytes() },
            };
            ops.push(op);
        }
        if i < n && rng.chance(1, 12) {
            ops.clear(); // an empty workspace among the committers
        }
        for o in &ops {
            let _ = ws.add_operation(o.clone());
        }
        let dir = match delta_pattern {
            0 => None,
            1 => Some(unit(dim, i)),
            2 => Some(unit(dim, 0)),
            _ => match rng.below(3) {
                0 => None,
                1 => Some(unit(dim, i)),
                _ => Some(unit(dim, 0)),
            },
        };
        // an open workspace sometimes gets its delta only while the commits are running
        let later = i >= n && dir.is_some() && rng.chance(1, 3);
        if let (Some(d), false) = (&dir, later) {
            ws.set_before_embedding(&vec![0.0; dim]);
            ws.compute_delta(d);
        }
        delta_set.push(dir.is_some() && !later);
        dirs.push(dir);
        wss.push(ws);
        ops_of.push(ops);
    }
    // operations the owner of a committing workspace still adds before it calls commit
    let pre_adds: Vec<usize> = (0..n).map(|_| rng.weighted(&[3, 2, 1])).collect();
    let prefix_height = chain.height();
    // some committers fail late: when they reach the hook (pre-image taken, nothing applied yet) the
    // proposer key disappears from the validator registry, so append refuses their block after
    // their writes were applied; the key is registered again when their commit call has returned
    let fail_late: Vec<bool> = (0..n).map(|_| rng.chance(1, 4)).collect();

    // ---- run
    let tick = AtomicU64::new(1);
    let done: Vec<AtomicBool> = (0..n).map(|_| AtomicBool::new(false)).collect();
    let gates: Vec<Arc<Gate>> = (0..n).map(|_| Gate::new()).collect();
    let hook_ticks: Vec<Arc<AtomicU64>> = (0..n).map(|_| Arc::new(AtomicU64::new(0))).collect();
    let start_flags: Vec<AtomicBool> = (0..n).map(|_| AtomicBool::new(false)).collect();
    // owners of the open workspaces: free-running in stress mode, one action per controller
    // "phase" in parked mode (so that they act while a committer sits at the hook)
    let go = AtomicBool::new(false);
    // set by a committer right before it calls commit (its earlier add_operation calls are done)
    let invoked: Vec<AtomicBool> = (0..n).map(|_| AtomicBool::new(false)).collect();
    // stress mode: a second thread of the same owner keeps adding while the owner's commit call is
    // in flight (queued behind another commit, or running)
    let co_owner: Vec<bool> = (0..n).map(|_| mode == 0 && rng.chance(3, 5)).collect();
    let mut ctrl_calls: Vec<(usize, OwnerCall)> = Vec::new();
    let all_done = AtomicBool::new(false);
    let phase = AtomicU64::new(0);
    let acks = AtomicU64::new(0);
    let mut schedule: Vec<String> = Vec::new();
    let mut harness_timeout = false;
    let (outcomes, mut calls): (Vec<ConcOutcome>, Vec<Vec<OwnerCall>>) = std::thread::scope(|sc| {
        let mut hs = Vec::new();
        for i in 0..n {
            let chain = &chain;
            let ws = wss[i].clone();
            let tick = &tick;
            let done = &done[i];
            let start = &start_flags[i];
            let gate = gates[i].clone();
            let ht = hook_ticks[i].clone();
            let jseed = case_seed ^ (i as u64 + 1).wrapping_mul(0x9E37_79B9);
            let fl = fail_late[i];
            let chain_h = Arc::clone(chain);
            let npre = pre_adds[i];
            let had_delta = delta_set[i];
            let invoked_i = &invoked[i];
            hs.push(sc.spawn(move || {
                let at_hook = move |ht2: &AtomicU64| {
                    ht2.store(1, Ordering::SeqCst);
                    if fl {
                        let me = chain_h.node_id().clone();
                        let _ = chain_h.validator_registry().remove(&me);
                    }
                };
                let handler: sched::Handler = if mode == 0 {
                    let j = sched::jitter(jseed);
                    let ht2 = ht.clone();
                    Arc::new(move |name: &'static str| {
                        if name == HOOK {
                            at_hook(&ht2);
                        }
                        j(name)
                    })
                } else {
                    let p = sched::park_at(HOOK, 0, gate);
                    let ht2 = ht.clone();
                    Arc::new(move |name: &'static str| {
                        if name == HOOK {
                            at_hook(&ht2);
                        }
                        p(name)
                    })
                };
                sched::set_thread_handler(Some(handler));
                let t0 = Instant::now();
                while !start.load(Ordering::SeqCst) {
                    if t0.elapsed() > Duration::from_secs(60) {
                        break;
                    }
                    std::thread::sleep(Duration::from_micros(30));
                }
                // the owner still adds operations, then commits (another commit may have merged
                // this workspace meanwhile: then these calls and the commit must fail)
                let mut mine = Vec::new();
                for k in 0..npre {
                    let op = Transaction::Put { key: format!("u:w{}late{}", i, k), data: format!("w{}.late{}", i, k).into_bytes() };
                    mine.push(owner_add(&ws, op, had_delta, tick));
                }
                let inv = tick.fetch_add(1, Ordering::SeqCst);
                invoked_i.store(true, Ordering::SeqCst);
                let res = chain.commit(&ws);
                let rt = tick.fetch_add(1, Ordering::SeqCst);
                sched::set_thread_handler(None);
                if fl {
                    chain.register_validator(chain.identity());
                }
                done.store(true, Ordering::SeqCst);
                let hook = if ht.load(Ordering::SeqCst) != 0 { Some(1) } else { None };
                let o = match res {
                    Ok(h) => ConcOutcome { ok: Some(h), err: None, inv, res: rt, hook },
                    Err(e) => ConcOutcome { ok: None, err: Some(e.to_string()), inv, res: rt, hook },
                };
                (Some(o), i, mine)
            }));
            if co_owner[i] {
                let ws = wss[i].clone();
                let invoked_i = &invoked[i];
                let mut orng = Rng::new(case_seed ^ (i as u64 + 91).wrapping_mul(0xD1B5_4A32_D192_ED03));
                let had_delta = delta_set[i];
                hs.push(sc.spawn(move || {
                    let mut mine: Vec<OwnerCall> = Vec::new();
                    let t0 = Instant::now();
                    while !invoked_i.load(Ordering::SeqCst) && t0.elapsed() < Duration::from_secs(60) {
                        std::hint::spin_loop();
                    }
                    for k in 0..3 {
                        if done.load(Ordering::SeqCst) {
                            break;
                        }
                        let op = Transaction::Put { key: format!("u:w{}co{}", i, k), data: format!("w{}.co{}", i, k).into_bytes() };
                        mine.push(owner_add(&ws, op, had_delta, tick));
                        match orng.below(3) {
                            0 => std::thread::yield_now(),
                            1 => std::thread::sleep(Duration::from_micros(5 + orng.below(60) as u64)),
                            _ => {}
                        }
                    }
                    (None, i, mine)
                }));
            }
        }
        for bi in n..total {
            let chain = &chain;
            let ws = wss[bi].clone();
            let tick = &tick;
            let (go, all_done, phase, acks) = (&go, &all_done, &phase, &acks);
            let mut orng = Rng::new(case_seed ^ (bi as u64 + 17).wrapping_mul(0xA24B_AED4_963E_E407));
            let dir = dirs[bi].clone();
            let mut has_delta = delta_set[bi];
            hs.push(sc.spawn(move || {
                let mut mine: Vec<OwnerCall> = Vec::new();
                let t0 = Instant::now();
                while !go.load(Ordering::SeqCst) && t0.elapsed() < Duration::from_secs(60) {
                    std::thread::sleep(Duration::from_micros(30));
                }
                let mut seen = 0u64;
                let mut k = 0usize;
                let mut finished = false;
                loop {
                    if all_done.load(Ordering::SeqCst) {
                        break;
                    }
                    if mode == 1 {
                        // one action per phase announced by the controller
                        let p = phase.load(Ordering::SeqCst);
                        if p == seen {
                            std::thread::sleep(Duration::from_micros(20));
                            continue;
                        }
                        seen += 1;
                    } else {
                        if k >= 40 || finished {
                            std::thread::sleep(Duration::from_micros(50));
                            continue;
                        }
                        match orng.below(4) {
                            0 => std::thread::yield_now(),
                            1 => std::thread::sleep(Duration::from_micros(10 + orng.below(150) as u64)),
                            _ => {}
                        }
                    }
                    if !finished {
                        match orng.below(20) {
                            0 => {
                                // the owner gives up: rollback of its own workspace
                                let state_before = ws.state();
                                let inv = tick.fetch_add(1, Ordering::SeqCst);
                                let ok = chain.rollback(&ws).is_ok();
                                let res = tick.fetch_add(1, Ordering::SeqCst);
                                mine.push(OwnerCall { kind: "rollback", op: None, ok, state_before, had_delta: has_delta, inv, res });
                                finished = true;
                            }
                            1 | 2 | 3 if !has_delta && dir.is_some() => {
                                let state_before = ws.state();
                                let inv = tick.fetch_add(1, Ordering::SeqCst);
                                ws.set_before_embedding(&vec![0.0; dim]);
                                ws.compute_delta(dir.as_ref().unwrap());
                                let res = tick.fetch_add(1, Ordering::SeqCst);
                                has_delta = true;
                                mine.push(OwnerCall { kind: "delta", op: None, ok: true, state_before, had_delta: false, inv, res });
                            }
                            _ => {
                                let key = if orng.chance(1, 5) { "u:shared".to_string() } else { format!("u:w{}late{}", bi, k) };
                                let op = Transaction::Put { key, data: format!("w{}.late{}", bi, k).into_bytes() };
                                mine.push(owner_add(&ws, op, has_delta, tick));
                                k += 1;
                            }
                        }
                    }
                    if mode == 1 {
                        acks.fetch_add(1, Ordering::SeqCst);
                    }
                }
                (None, bi, mine)
            }));
        }
        go.store(true, Ordering::SeqCst);
        // parked mode: let every owner of an open workspace act once, and wait for it (bounded)
        let mut phases = 0u64;
        let bump = |phases: &mut u64| {
            if nb == 0 {
                return;
            }
            *phases += 1;
            phase.store(*phases, Ordering::SeqCst);
            let t0 = Instant::now();
            while acks.load(Ordering::SeqCst) < *phases * nb as u64 && t0.elapsed() < Duration::from_millis(100) {
                std::thread::sleep(Duration::from_micros(20));
            }
        };
        if mode == 0 {
            for f in &start_flags {
                f.store(true, Ordering::SeqCst);
            }
            // stress mode: the owners run freely until every committer has returned
            let t0 = Instant::now();
            while !done.iter().all(|d| d.load(Ordering::SeqCst)) {
                if t0.elapsed() > Duration::from_secs(60) {
                    harness_timeout = true;
                    break;
                }
                std::thread::sleep(Duration::from_micros(50));
            }
        } else {
            // random valid interleaving of start_i / release_i events
            let mut pending_start: Vec<usize> = (0..n).collect();
            rng.shuffle(&mut pending_start);
            let mut started: Vec<usize> = Vec::new();
            let grouped = rng.chance(1, 2);
            let all_first = rng.chance(1, 2); // every committer takes its pre-image before anyone continues
            let wait_settled = |i: usize, limit: Duration| -> bool {
                let t0 = Instant::now();
                loop {
                    if gates[i].is_parked() || done[i].load(Ordering::SeqCst) {
                        return true;
                    }
                    if t0.elapsed() > limit {
                        return false;
                    }
                    std::thread::sleep(Duration::from_micros(50));
                }
            };
            if rng.bool() {
                bump(&mut phases);
            }
            while !pending_start.is_empty() || !started.is_empty() {
                let do_start = !pending_start.is_empty() && (started.is_empty() || all_first || rng.bool());
                if do_start {
                    let i = pending_start.remove(0);
                    start_flags[i].store(true, Ordering::SeqCst);
                    // a committer that neither parks nor finishes is blocked inside commit (e.g. on
                    // a lock held by a parked one): go on, it only changes the schedule
                    let settled = wait_settled(i, Duration::from_millis(150));
                    schedule.push(format!("start{}{}", i, if done[i].load(Ordering::SeqCst) { "(finished)" } else if settled { "(parked)" } else { "(blocked)" }));
                    started.push(i);
                    // a second thread of the same owner (played by the controller) adds to the
                    // workspace whose commit call is now parked at the hook, queued behind a
                    // parked commit ("blocked"), or already back
                    if rng.chance(2, 3) {
                        for k in 0..1 + rng.below(2) {
                            let op = Transaction::Put { key: format!("u:w{}co{}", i, k), data: format!("w{}.co{}", i, k).into_bytes() };
                            ctrl_calls.push((i, owner_add(&wss[i], op, delta_set[i], &tick)));
                        }
                        schedule.push(format!("co-owner-adds{}", i));
                    }
                    // the committer sits at the hook (its merge set is fixed, nothing applied yet):
                    // the owners of the open workspaces act now
                    if nb > 0 {
                        bump(&mut phases);
                        schedule.push("owners-act".into());
                    }
                } else {
                    // release one committer, or a group at the same instant (they then race through
                    // apply / build / append, the window the hook itself cannot pin down)
                    let group = if grouped && started.len() >= 2 { 2 + rng.below(started.len() - 1) } else { 1 };
                    let mut rel: Vec<usize> = Vec::new();
                    for _ in 0..group {
                        let k = rng.below(started.len());
                        rel.push(started.remove(k));
                    }
                    for &i in &rel {
                        gates[i].release();
                    }
                    // owners also act while the released committers apply / append
                    if nb > 0 && rng.bool() {
                        bump(&mut phases);
                    }
                    for &i in &rel {
                        let t0 = Instant::now();
                        while !done[i].load(Ordering::SeqCst) {
                            if gates[i].is_parked() && t0.elapsed() > Duration::from_secs(30) {
                                harness_timeout = true;
                                break;
                            }
                            if !gates[i].is_parked() && t0.elapsed() > Duration::from_millis(150) {
                                // still blocked before the hook behind another committer: release
                                // order is then decided by the code under test
                                break;
                            }
                            std::thread::sleep(Duration::from_micros(50));
                        }
                    }
                    schedule.push(format!("release{:?}", rel));
                }
            }
            for g in &gates {
                g.release();
            }
            let t0 = Instant::now();
            while !done.iter().all(|d| d.load(Ordering::SeqCst)) {
                if t0.elapsed() > Duration::from_secs(60) {
                    harness_timeout = true;
                    break;
                }
                std::thread::sleep(Duration::from_micros(50));
            }
        }
        all_done.store(true, Ordering::SeqCst);
        let mut outs = Vec::new();
        let mut calls: Vec<Vec<OwnerCall>> = (0..total).map(|_| Vec::new()).collect();
        for h in hs {
            match h.join() {
                Ok((o, idx, c)) => {
                    if let Some(o) = o {
                        outs.push(o);
                    }
                    calls[idx].extend(c);
                }
                Err(_) => outs.push(ConcOutcome { ok: None, err: Some("<commit panicked>".into()), inv: 0, res: 0, hook: None }),
            }
        }
        (outs, calls)
    });
    for (idx, c) in ctrl_calls {
        calls[idx].push(c);
    }
    chain.register_validator(chain.identity());
    if harness_timeout || gates.iter().any(|g| g.timed_out()) {
        r.inconclusive("concurrent: a parked committer was not released in time (harness watchdog)");
        return;
    }
    if outcomes.len() != n || calls.len() != total || outcomes.iter().any(|o| o.err.as_deref() == Some("<commit panicked>")) {
        r.violation("concurrent-commit:panic", format!("a commit() call panicked [{}]", cfg_desc), replay);
        return;
    }

    // ---- judge at quiescence
    let states: Vec<TransactionState> = wss.iter().map(|w| w.state()).collect();
    // what each workspace consists of = every operation its owner was told was accepted, in order
    let initial_len: Vec<usize> = ops_of.iter().map(|o| o.len()).collect();
    for (idx, cs) in calls.iter_mut().enumerate() {
        cs.sort_by_key(|c| c.inv);
        for c in cs.iter() {
            if c.kind == "add" && c.ok {
                if let Some(op) = &c.op {
                    ops_of[idx].push(op.clone());
                }
            }
        }
    }
    let ok_of = |i: usize| -> Option<BlockHash> { if i < n { outcomes[i].ok } else { None } };
    // non-vacuity: owner calls that overlapped another workspace's commit call in real time
    {
        let cos_orth = |a: &Option<Vec<f32>>, b: &Option<Vec<f32>>| match (a, b) {
            (Some(x), Some(y)) => x.iter().zip(y).map(|(p, q)| p * q).sum::<f32>().abs() < 0.1,
            _ => false,
        };
        for (idx, cs) in calls.iter().enumerate() {
            for c in cs {
                if idx < n && c.kind == "add" && c.inv > outcomes[idx].inv && c.inv < outcomes[idx].res {
                    // the add began while the same workspace's own commit call was in flight
                    r.count("conc_add_during_own_commit_call", 1);
                    r.count(if c.ok { "conc_add_during_own_commit_call_accepted" } else { "conc_add_during_own_commit_call_refused" }, 1);
                }
                let over: Vec<usize> = (0..n).filter(|&j| j != idx && c.inv < outcomes[j].res && outcomes[j].inv < c.res).collect();
                if over.is_empty() {
                    continue;
                }
                r.count(&format!("conc_owner_{}_overlapping_commit", c.kind), 1);
                if c.kind == "add" && auto_merge && c.had_delta && over.iter().any(|&j| delta_set[j] && cos_orth(&dirs[idx], &dirs[j])) {
                    r.count("conc_owner_add_on_merge_candidate_overlapping_commit", 1);
                    if c.ok {
                        r.count("conc_owner_add_on_merge_candidate_accepted", 1);
                    } else {
                        r.count("conc_owner_add_on_merge_candidate_refused", 1);
                    }
                }
            }
        }
        r.count("conc_open_workspaces", nb as u64);
    }
    let overlapping = (0..n).any(|i| (0..n).any(|j| i != j && outcomes[i].inv < outcomes[j].res && outcomes[j].inv < outcomes[i].res));
    let hooks = outcomes.iter().filter(|o| o.hook.is_some()).count() as u64;
    r.count("conc_cases", 1);
    r.count("conc_commit_calls", n as u64);
    r.count("conc_hook_hits", hooks);
    r.count("conc_commit_ok", outcomes.iter().filter(|o| o.ok.is_some()).count() as u64);
    r.count("conc_commit_err", outcomes.iter().filter(|o| o.err.is_some()).count() as u64);
    if overlapping {
        r.count("conc_cases_with_overlapping_calls", 1);
    }
    let late = outcomes.iter().filter(|o| o.err.as_deref().map_or(false, |e| e.contains("unknown proposer"))).count() as u64;
    r.count("conc_commit_failed_after_apply", late);
    if late > 0 && outcomes.iter().any(|o| o.ok.is_some()) {
        r.count("conc_cases_with_late_failure_and_success", 1);
    }
    if mode == 1 {
        r.count("conc_parked_cases", 1);
        r.count("conc_parks", schedule.iter().filter(|s| s.ends_with("(parked)")).count() as u64);
    }
    let summary = || {
        (0..total)
            .map(|i| {
                let own: Vec<String> = calls[i]
                    .iter()
                    .map(|c| format!("{}{}@{}..{}={}", c.kind, c.op.as_ref().map(|o| format!(" {}", tx_short(o))).unwrap_or_default(), c.inv, c.res, if c.ok { "Ok" } else { "Err" }))
                    .collect();
                format!(
                    "w{}{} initial {:?} owner calls {:?} -> {} [state {}]",
                    i,
                    if i < n && fail_late[i] { "(proposer key removed at its hook)" } else { "" },
                    ops_of[i][..initial_len[i]].iter().map(tx_short).collect::<Vec<_>>(),
                    own,
                    if i >= n {
                        "stays open (no commit call)".to_string()
                    } else {
                        match (&outcomes[i].ok, &outcomes[i].err) {
                            (Some(h), _) => format!("commit@{}..{}=Ok({})", outcomes[i].inv, outcomes[i].res, short(h)),
                            (_, Some(e)) => format!("commit@{}..{}=Err({})", outcomes[i].inv, outcomes[i].res, e),
                            _ => "?".into(),
                        }
                    },
                    state_name(states[i])
                )
            })
            .collect::<Vec<_>>()
            .join("; ")
    };
    macro_rules! fail {
        ($sig:expr, $detail:expr) => {{
            r.violation($sig, format!("{} [{}] schedule {:?}; {}", $detail, cfg_desc, schedule, summary()), replay.clone());
            return;
        }};
    }
    if let Err(e) = chain.verify() {
        fail!("concurrent-commit:verify-fails", format!("verify() = Err({}) after {} concurrent commits (height {})", e, n, chain.height()));
    }
    let height = chain.height();
    // every block after the prefix must be readable and be whole committed workspaces
    let committed: Vec<usize> = (0..total).filter(|&i| states[i] == TransactionState::Committed).collect();
    for i in 0..n {
        if outcomes[i].ok.is_some() && states[i] != TransactionState::Committed {
            fail!("concurrent-commit:ok-but-not-committed", format!("commit(w{}) returned Ok but its state is {}", i, state_name(states[i])));
        }
    }
    // an operation must not be accepted on a workspace that was no longer Active when the call began
    // (states never return to Active)
    for i in 0..total {
        for c in &calls[i] {
            if c.kind == "add" && c.ok && c.state_before != TransactionState::Active {
                fail!("concurrent-commit:operation-accepted-on-workspace-not-active", format!("add_operation on w{} returned Ok although the workspace was {} before the call", i, state_name(c.state_before)));
            }
        }
    }
    let rolled_back_ok: Vec<usize> = (0..total).filter(|&i| calls[i].iter().any(|c| c.kind == "rollback" && c.ok)).collect();
    let mut used: BTreeSet<usize> = BTreeSet::new();
    let mut new_blocks: Vec<Vec<Transaction>> = Vec::new();
    for h in prefix_height + 1..=height {
        let b = match chain.get_block(h) {
            Ok(Some(b)) => b,
            _ => fail!("concurrent-commit:block-missing", format!("get_block({}) unreadable with height {}", h, height)),
        };
        // primary = the workspace whose commit returned this block's hash
        let prim = (0..n).find(|&i| outcomes[i].ok == Some(b.hash()) && !ops_of[i].is_empty());
        let Some(pi) = prim else {
            fail!("concurrent-commit:block-without-successful-commit", format!("block {} ({:?}) was returned by no successful commit", h, b.transactions.iter().map(tx_short).collect::<Vec<_>>()));
        };
        // the rest must be whole merged workspaces (committed, their own call did not return Ok)
        let mut cands: Vec<usize> = committed.iter().copied().filter(|&j| j != pi && !used.contains(&j) && ok_of(j).is_none()).collect();
        for &j in &rolled_back_ok {
            if j != pi && !used.contains(&j) && !cands.contains(&j) {
                cands.push(j);
            }
        }
        let mut found: Option<Vec<usize>> = None;
        for mask in 0u32..(1 << cands.len()) {
            let sel: Vec<usize> = cands.iter().enumerate().filter(|(k, _)| mask & (1 << k) != 0).map(|(_, &j)| j).collect();
            let mops: Vec<Vec<Transaction>> = sel.iter().map(|&j| ops_of[j].clone()).collect();
            if segments_ok(&b.transactions, &ops_of[pi], &mops) {
                found = Some(sel);
                break;
            }
        }
        match found {
            Some(sel) => {
                if !used.insert(pi) {
                    fail!("concurrent-commit:workspace-in-two-blocks", format!("w{} appears in a second block ({})", pi, h));
                }
                r.count("conc_merged_workspaces", sel.len() as u64);
                used.extend(sel);
            }
            None => {
                // is the block made of the workspaces as they were at some EARLIER moment, i.e. did an
                // operation that was accepted later get lost?
                let mut lost: Option<String> = None;
                'outer: for mask in 0u32..(1 << cands.len()) {
                    let sel: Vec<usize> = cands.iter().enumerate().filter(|(k, _)| mask & (1 << k) != 0).map(|(_, &j)| j).collect();
                    // every member (primary first) may be cut back to any length >= its initial one
                    let members: Vec<usize> = std::iter::once(pi).chain(sel.iter().copied()).collect();
                    let mut cuts: Vec<usize> = members.iter().map(|&j| initial_len[j]).collect();
                    loop {
                        let prim_ops = ops_of[pi][..cuts[0]].to_vec();
                        let mops: Vec<Vec<Transaction>> = members[1..].iter().zip(&cuts[1..]).map(|(&j, &c)| ops_of[j][..c].to_vec()).collect();
                        if segments_ok(&b.transactions, &prim_ops, &mops) {
                            let which: Vec<String> = members.iter().zip(&cuts).filter(|(&j, &c)| c < ops_of[j].len()).map(|(&j, &c)| format!("w{}: {:?}", j, ops_of[j][c..].iter().map(tx_short).collect::<Vec<_>>())).collect();
                            lost = Some(which.join(", "));
                            break 'outer;
                        }
                        // next combination of cut points
                        let mut k = 0;
                        loop {
                            if k == cuts.len() {
                                break;
                            }
                            if cuts[k] < ops_of[members[k]].len() {
                                cuts[k] += 1;
                                break;
                            }
                            cuts[k] = initial_len[members[k]];
                            k += 1;
                        }
                        if k == cuts.len() {
                            break;
                        }
                    }
                }
                match lost {
                    Some(which) => fail!(
                        "concurrent-commit:accepted-operation-missing-from-committed-workspace",
                        format!("block {} holds {:?}: operations whose add_operation returned Ok are in no block although their workspace is committed: {}", h, b.transactions.iter().map(tx_short).collect::<Vec<_>>(), which)
                    ),
                    None => fail!("concurrent-commit:block-is-not-whole-workspaces", format!("block {} holds {:?}", h, b.transactions.iter().map(tx_short).collect::<Vec<_>>())),
                }
            }
        }
        new_blocks.push(b.transactions.clone());
    }
    for &i in &rolled_back_ok {
        if used.contains(&i) {
            fail!("concurrent-commit:rolled-back-workspace-in-a-block", format!("rollback(w{}) returned Ok to its owner, yet a block holds the workspace's transactions (final state {})", i, state_name(states[i])));
        }
    }
    for &i in &committed {
        if !ops_of[i].is_empty() && !used.contains(&i) {
            fail!("concurrent-commit:committed-workspace-in-no-block", format!("w{} is Committed but no block holds its transactions (height {})", i, height));
        }
    }
    let ok_nonempty = (0..n).filter(|&i| outcomes[i].ok.is_some() && !ops_of[i].is_empty()).count() as u64;
    if height - prefix_height != ok_nonempty {
        fail!("concurrent-commit:height-differs-from-successful-commits", format!("height grew by {} with {} successful non-empty commits", height - prefix_height, ok_nonempty));
    }
    let mut all = blocks.clone();
    all.extend(new_blocks.iter().cloned());
    if let Err((sig, d)) = walk_chain(&chain, &all) {
        fail!(format!("concurrent-commit:{}", sig), d);
    }
    // store: (a) single-writer keys, (b) writes of uncommitted workspaces, (c) block-order replay
    let mut writers: BTreeMap<String, Vec<usize>> = BTreeMap::new();
    for i in 0..total {
        for t in &ops_of[i] {
            let e = writers.entry(t.storage_key()).or_default();
            if !e.contains(&i) {
                e.push(i);
            }
        }
    }
    let mut expect = model0.clone();
    for b in &new_blocks {
        for t in b {
            model_apply(&mut expect, t);
        }
    }
    for (k, ws_) in &writers {
        let have = chain.store().get(k).ok().map(|d| fields_of(&d));
        if ws_.len() == 1 {
            let i = ws_[0];
            let mut solo = model0.clone();
            for t in &ops_of[i] {
                model_apply(&mut solo, t);
            }
            if states[i] == TransactionState::Committed {
                if have.as_ref() != solo.kv.get(k) {
                    fail!("concurrent-commit:committed-write-missing", format!("key {:?} written only by committed w{} reads {:?}, expected {:?}", k, i, have, solo.kv.get(k)));
                }
            } else if have.as_ref() != model0.kv.get(k) {
                fail!("concurrent-commit:write-of-failed-commit-visible", format!("key {:?} written only by w{} ({}) reads {:?}", k, i, state_name(states[i]), have));
            }
        }
    }
    if let Err(d) = check_store(chain.store(), &expect) {
        fail!("concurrent-commit:store-differs-from-block-order", d);
    }
    r.count("conc_store_checks", 1);
    let oc: Vec<String> = (0..total).map(|i| format!("{}{}", if ok_of(i).is_some() { "O" } else { "E" }, state_name(states[i]))).collect();
    // event order: invocation / response ticks
    let mut ev: Vec<(u64, String)> = Vec::new();
    for i in 0..n {
        ev.push((outcomes[i].inv, format!("i{}", i)));
        ev.push((outcomes[i].res, format!("r{}", i)));
    }
    for i in 0..total {
        for c in &calls[i] {
            ev.push((c.inv, format!("{}{}{}", &c.kind[..1], i, if c.ok { "+" } else { "-" })));
        }
    }
    ev.sort();
    let order: Vec<String> = ev.into_iter().map(|e| e.1).collect();
    r.eval(hash_str(&format!("{}|{:?}|{:?}|{:?}", cfg_desc, schedule, oc, order)), overlapping);
    if r.want_sample() && overlapping && (mode == 1 || r.samples.len() < 2) {
        r.sample(json!({"part": "concurrent", "config": cfg_desc, "schedule": schedule, "event_order": order, "outcomes": summary(), "height": height}));
    }
}

// ------------------------------------------------------------------------------------------------
// part: replica replay
// ------------------------------------------------------------------------------------------------

struct Replica {
    store: TensorStore,
    chain: Arc<Chain>,
    raft: Arc<RaftNode>,
    sm: TensorStateMachine,
}

/// layout 0: state store separate from the chain's store; 1: one shared store (as
/// `ClusterOrchestrator` and the crate's own tests set it up)
fn make_replica(name: &str, layout: u64, registry: &Arc<ValidatorRegistry>, genesis: Option<&(TensorData, TensorData)>) -> Result<Replica, String> {
    let store = TensorStore::new();
    let chain_store = if layout == 1 { store.clone() } else { TensorStore::new() };
    if let Some((g, meta)) = genesis {
        chain_store.put("chain:block:0", g.clone()).map_err(|e| e.to_string())?;
        chain_store.put("chain:meta", meta.clone()).map_err(|e| e.to_string())?;
    }
    let graph = Arc::new(GraphEngine::with_store(chain_store));
    let chain = Arc::new(Chain::with_registry(graph, name.to_string(), registry.clone()));
    if genesis.is_some() {
        chain.initialize().map_err(|e| e.to_string())?;
    }
    let peers = vec!["leader".to_string()];
    let transport = h_chain::CaptureTransport::new(name, &peers);
    let raft = Arc::new(RaftNode::new(name.to_string(), peers, transport, RaftConfig::default()));
    let sm = TensorStateMachine::new(chain.clone(), raft.clone(), store.clone());
    Ok(Replica { store, chain, raft, sm })
}

fn replay_case(case_seed: u64, r: &mut Report) {
    let mut rng = Rng::new(case_seed);
    let replay = json!({"part": "replay", "case_seed": case_seed});
    // source of blocks: 0 = proposer-built blocks for replicas with a separate state store,
    //                   1 = proposer-built blocks for shared-store replicas (proposer = a third replica),
    //                   2 = blocks committed by a real TensorChain leader, shared-store replicas with
    //                       the leader's genesis
    let source = rng.weighted(&[5, 2, 2]) as u64;
    let via_raft = rng.bool();
    let hostile = rng.chance(1, 2);
    let nblocks = 2 + rng.below(5);
    let mut key = [0u8; 32];
    key.copy_from_slice(&rng.bytes(32));
    let (leader_id, leader_id_copy) = match (Identity::from_bytes(&key), Identity::from_bytes(&key)) {
        (Ok(a), Ok(b)) => (a, b),
        _ => return,
    };
    let mut leader_id_copy = Some(leader_id_copy);
    let outsider = Identity::generate();
    let registry = Arc::new(ValidatorRegistry::new());
    registry.register(&leader_id);
    let mut g = Gen { rng: rng.fork(11), uniq: 0 };
    let mut model = Model::default();
    let src_name = ["separate-state-store", "shared-store", "tensorchain-leader+shared-store"][source as usize];
    let cfg_desc = format!("source={} via={} hostile={} blocks={}", src_name, if via_raft { "apply_committed" } else { "apply_block" }, hostile, nblocks);

    // ---- produce the block sequence (entries: block + whether a correct replica must accept it)
    let mut seq: Vec<(Block, &'static str)> = Vec::new();
    let mut genesis: Option<(TensorData, TensorData)> = None;
    let mut leader_roots: Vec<BlockHash> = Vec::new();
    if source == 2 {
        let leader = TensorChain::with_identity(TensorStore::new(), ChainConfig::new("leader").with_auto_merge_config(AutoMergeConfig::disabled()), match leader_id_copy.take() { Some(x) => x, None => return });
        if leader.initialize().is_err() {
            r.inconclusive("replay: leader initialize failed");
            return;
        }
        match (leader.store().get("chain:block:0"), leader.store().get("chain:meta")) {
            (Ok(a), Ok(b)) => genesis = Some((a, b)),
            _ => {
                r.inconclusive("replay: leader genesis record unreadable");
                return;
            }
        }
        for bi in 0..nblocks {
            let ws = match leader.begin() {
                Ok(w) => w,
                Err(_) => return,
            };
            for _ in 0..1 + g.rng.below(4) {
                let op = g.op(&format!("b{}", bi), &model);
                let _ = ws.add_operation(op.clone());
                model_apply(&mut model, &op);
            }
            if leader.commit(&ws).is_err() {
                r.inconclusive("replay: leader commit failed");
                return;
            }
            match leader.get_block(leader.height()) {
                Ok(Some(b)) => {
                    leader_roots.push(b.header.state_root);
                    seq.push((b, "leader"))
                }
                _ => {
                    r.inconclusive("replay: leader block unreadable");
                    return;
                }
            }
        }
    } else {
        // the proposer keeps its own replica and derives each state root with the real functions
        let layout = source; // 0 separate, 1 shared
        let prop = match make_replica("proposer", layout, &registry, None) {
            Ok(p) => p,
            Err(e) => {
                r.inconclusive(&format!("replay: proposer setup: {}", first_line(&e)));
                return;
            }
        };
        let mut height = 0u64;
        let mut tip = [0u8; 32];
        for bi in 0..nblocks {
            let txs: Vec<Transaction> = (0..1 + g.rng.below(4)).map(|_| g.op(&format!("b{}", bi), &model)).collect();
            // state root the way the crate's tests derive it: copy of the state store + transactions
            let snap = match prop.store.snapshot_bytes() {
                Ok(s) => s,
                Err(_) => return,
            };
            let tmp = TensorStore::new();
            if tmp.restore_from_bytes(&snap).is_err() {
                return;
            }
            for t in &txs {
                let _ = apply_transaction_to_store(&tmp, t);
            }
            let root = match compute_state_root(&tmp) {
                Ok(x) => x,
                Err(_) => return,
            };
            let emb = if g.rng.bool() { unit(8, g.rng.below(2)) } else { vec![] };
            let mut b = signed_block(height + 1, tip, txs.clone(), &leader_id, None, None, &emb, vec![]);
            b.header.state_root = root;
            b.header.signature = leader_id.sign(&b.header.signing_bytes());
            if hostile && g.rng.chance(1, 3) {
                // a hostile variant of the same block is offered first; every replica must treat it alike
                let mut bad = b.clone();
                let kind = match g.rng.below(5) {
                    0 => {
                        bad.header.state_root[0] ^= 1;
                        bad.header.signature = leader_id.sign(&bad.header.signing_bytes());
                        "bad-state-root"
                    }
                    1 => {
                        bad.header.height += 1;
                        bad.header.signature = leader_id.sign(&bad.header.signing_bytes());
                        "bad-height"
                    }
                    2 => {
                        bad.header.prev_hash[5] ^= 4;
                        bad.header.signature = leader_id.sign(&bad.header.signing_bytes());
                        "bad-prev-hash"
                    }
                    3 => {
                        bad.header.signature = outsider.sign(&bad.header.signing_bytes());
                        "bad-signature"
                    }
                    _ => {
                        bad.transactions.push(Transaction::Put { key: "u:extra".into(), data: b"x".to_vec() });
                        "bad-tx-root"
                    }
                };
                seq.push((bad, kind));
            }
            // the proposer applies its own block (keeps its replica in step)
            if prop.sm.apply_block(&b).is_err() {
                // the proposer itself cannot apply what it derived: nothing to replay from here on
                r.count("replay_proposer_rejected_own_block", 1);
                break;
            }
            for t in &txs {
                model_apply(&mut model, t);
            }
            height += 1;
            tip = b.hash();
            seq.push((b, "good"));
        }
    }
    if seq.is_empty() {
        r.inconclusive("replay: no blocks produced");
        return;
    }

    // ---- replay on two fresh replicas, one after the other
    let layout = if source == 0 { 0 } else { 1 };
    let mut reps = Vec::new();
    for name in ["replica-a", "replica-b"] {
        match make_replica(name, layout, &registry, genesis.as_ref()) {
            Ok(x) => reps.push(x),
            Err(e) => {
                r.inconclusive(&format!("replay: replica setup: {}", first_line(&e)));
                return;
            }
        }
    }
    let mut results: Vec<Vec<Result<(), String>>> = vec![Vec::new(), Vec::new()];
    let mut roots: Vec<Vec<BlockHash>> = vec![Vec::new(), Vec::new()];
    for (ri, rep) in reps.iter().enumerate() {
        let mut log_index = 0u64;
        for (b, _) in &seq {
            let res = if via_raft {
                // the replica is a Raft follower: the entry arrives in AppendEntries with leader_commit
                // covering it, then the state machine applies what is committed
                log_index += 1;
                let ae = AppendEntries {
                    term: 1,
                    leader_id: "leader".into(),
                    prev_log_index: log_index - 1,
                    prev_log_term: if log_index == 1 { 0 } else { 1 },
                    entries: vec![LogEntry::new(1, log_index, b.clone())],
                    leader_commit: log_index,
                    block_embedding: None,
                };
                match rep.raft.handle_message(&"leader".to_string(), &Message::AppendEntries(ae)) {
                    Some(Message::AppendEntriesResponse(x)) if x.success => {}
                    _ => {
                        r.inconclusive("replay: follower did not accept AppendEntries");
                        return;
                    }
                }
                match rep.sm.apply_committed() {
                    Ok(_) => Ok(()),
                    Err(e) => {
                        // a rejected entry would be retried forever; acknowledge it so that the
                        // next entry can be judged on its own
                        rep.raft.mark_applied(log_index);
                        Err(e.to_string())
                    }
                }
            } else {
                rep.sm.apply_block(b).map_err(|e| e.to_string())
            };
            results[ri].push(res);
            match compute_state_root(&rep.store) {
                Ok(x) => roots[ri].push(x),
                Err(_) => {
                    r.inconclusive("replay: compute_state_root failed");
                    return;
                }
            }
        }
    }
    // ---- judge
    let applied = results[0].iter().filter(|x| x.is_ok()).count() as u64;
    r.count("replay_cases", 1);
    r.count("replay_blocks_offered", 2 * seq.len() as u64);
    r.count("replay_blocks_applied", applied + results[1].iter().filter(|x| x.is_ok()).count() as u64);
    r.count("replay_blocks_rejected", results.iter().flatten().filter(|x| x.is_err()).count() as u64);
    if via_raft {
        r.count("replay_apply_committed_calls", 2 * seq.len() as u64);
    }
    let outcome_str = |ri: usize| results[ri].iter().zip(&seq).map(|(x, (_, k))| format!("{}:{}", k, if x.is_ok() { "ok".to_string() } else { format!("Err({})", first_line(x.as_ref().unwrap_err())) })).collect::<Vec<_>>();
    for i in 0..seq.len() {
        if results[0][i].is_ok() != results[1][i].is_ok() {
            r.violation(
                "replay:replicas-disagree-on-accepting-a-block",
                format!("entry {} ({}): replica a {:?}, replica b {:?} [{}]", i, seq[i].1, results[0][i], results[1][i], cfg_desc),
                replay,
            );
            return;
        }
        if roots[0][i] != roots[1][i] {
            let da = dump(&reps[0].store);
            let db = dump(&reps[1].store);
            let diff = dump_diff(&da, &db);
            let only_local = !diff.is_empty()
                && diff.iter().all(|k| {
                    let k = &k[1..];
                    (k.starts_with("node:") || k.starts_with("edge:")) && !is_user_key(k)
                });
            // which fields differ on the first differing key
            let mut fields = Vec::new();
            if let Some(k) = diff.first() {
                if let (Some(x), Some(y)) = (da.get(&k[1..]), db.get(&k[1..])) {
                    for (f, v) in x {
                        if y.get(f) != Some(v) {
                            fields.push(f.clone());
                        }
                    }
                }
            }
            let sig = if only_local { "replay:state-root-covers-replica-local-chain-link-records" } else { "replay:state-roots-differ" };
            r.violation(
                sig,
                format!(
                    "after entry {} of the same sequence replica a has state root {} and replica b {} (final stores differ in {:?}, fields {:?}); outcomes a {:?} b {:?} [{}]",
                    i, short(&roots[0][i]), short(&roots[1][i]), diff, fields, outcome_str(0), outcome_str(1), cfg_desc
                ),
                replay,
            );
            return;
        }
    }
    // with a separate state store nothing but the block's transactions touches it, so the root a
    // replica holds after accepting a block must be the one recorded in that block (the root its
    // producer had): otherwise producer and replica differ on the same blocks
    if layout == 0 {
        for i in 0..seq.len() {
            if results[0][i].is_ok() && roots[0][i] != seq[i].0.header.state_root {
                r.violation(
                    "replay:replica-accepted-block-with-different-state-root",
                    format!("entry {} ({}) accepted; block records state root {}, replica holds {}; outcomes {:?} [{}]", i, seq[i].1, short(&seq[i].0.header.state_root), short(&roots[0][i]), outcome_str(0), cfg_desc),
                    replay,
                );
                return;
            }
        }
    }
    // replicas agree with each other; do they agree with whoever derived the blocks? (Only the
    // well-formed blocks are judged: the statement says nothing about which malformed blocks a
    // replica has to refuse, so their acceptance is only counted.)
    let mut hostile_accepted = false;
    let mut applied_model = Model::default();
    for (i, (b, kind)) in seq.iter().enumerate() {
        let ok = results[0][i].is_ok();
        if ok {
            for t in &b.transactions {
                model_apply(&mut applied_model, t);
            }
        }
        match *kind {
            "good" | "leader" => {
                if !ok && !hostile_accepted {
                    let sig = if *kind == "leader" { "replay:block-committed-by-tensorchain-rejected-by-replicas" } else { "replay:proposer-block-rejected-by-replicas" };
                    r.violation(sig, format!("entry {}: {:?}; outcomes {:?} [{}]", i, results[0][i], outcome_str(0), cfg_desc), replay);
                    return;
                }
            }
            k => {
                if ok {
                    hostile_accepted = true;
                    r.count(&format!("replay_malformed_accepted[{}]", k), 1);
                } else {
                    r.count("replay_malformed_rejected", 1);
                }
            }
        }
    }
    // user-visible state of the replicas = block-order application of the accepted blocks
    if let Err(d) = check_store(&reps[0].store, &applied_model) {
        r.violation("replay:replica-store-differs-from-applied-blocks", format!("{} [{}]", d, cfg_desc), replay);
        return;
    }
    if reps[0].chain.height() != applied || reps[1].chain.height() != applied {
        r.violation("replay:replica-height-differs-from-applied-blocks", format!("heights {} / {} after {} applied blocks [{}]", reps[0].chain.height(), reps[1].chain.height(), applied, cfg_desc), replay);
        return;
    }
    let _ = &leader_roots;
    r.eval(hash_str(&format!("{}|{:?}", cfg_desc, seq.iter().map(|(b, k)| format!("{}{}", k, b.transactions.len())).collect::<Vec<_>>())), applied >= 2);
    if r.want_sample() && applied >= 2 {
        r.sample(json!({"part": "replay", "config": cfg_desc, "outcomes": outcome_str(0), "final_state_root": hex(roots[0].last().unwrap())}));
    }
}

// @@PARTS@@

/// Re-opening a chain on its store (restart) - also on the images a crash inside `append`
/// leaves behind, where the persisted height is behind the stored blocks (block written, height
/// not yet) - and continuing to commit must still yield one sequence in which every block names
/// the hash of its predecessor.
fn reopen_case(case_seed: u64, r: &mut Report) {
    let mut rng = Rng::new(case_seed);
    let replay = json!({"part": "reopen", "case_seed": case_seed});
    let key = [(case_seed % 250) as u8 + 1; 32];
    let mk = |store: TensorStore| {
        let cfg = ChainConfig::new("n").with_auto_merge_config(AutoMergeConfig::disabled());
        TensorChain::with_identity(store, cfg, Identity::from_bytes(&key).expect("identity"))
    };
    let chain = mk(TensorStore::new());
    if let Err(e) = chain.initialize() {
        r.violation("reopen:initialize-failed", format!("{}", e), replay);
        return;
    }
    let mut g = Gen { rng: rng.fork(5), uniq: 0 };
    let mut model = Model::default();
    let mut blocks: Vec<Vec<Transaction>> = vec![vec![]];
    let mut commit_some = |chain: &TensorChain, n: usize, tag: &str, blocks: &mut Vec<Vec<Transaction>>, model: &mut Model, g: &mut Gen| -> Result<(), String> {
        for bi in 0..n {
            let ws = chain.begin().map_err(|e| format!("begin: {}", e))?;
            let ops: Vec<Transaction> = (0..1 + g.rng.below(4)).map(|_| g.op(&format!("{}{}", tag, bi), model)).collect();
            for o in &ops {
                ws.add_operation(o.clone()).map_err(|e| format!("add_operation: {}", e))?;
                model_apply(model, o);
            }
            chain.commit(&ws).map_err(|e| format!("commit of block {}: {}", chain.height() + 1, e))?;
            blocks.push(ops);
        }
        Ok(())
    };
    let n1 = 1 + rng.below(5);
    if let Err(e) = commit_some(&chain, n1, "a", &mut blocks, &mut model, &mut g) {
        r.violation("reopen:building-the-chain-failed", e, replay);
        return;
    }
    let rounds = 1 + rng.below(3);
    let mut cur = chain;
    let mut shape = Vec::new();
    for round in 0..rounds {
        // the image a restart finds: the store as it is, with the persisted height exact, behind
        // the stored blocks (crash between writing block N and writing height N) or ahead of them
        let bytes = match cur.store().snapshot_bytes() {
            Ok(b) => b,
            Err(e) => {
                r.inconclusive(&format!("snapshot_bytes failed: {}", e));
                return;
            }
        };
        let store = TensorStore::new();
        if let Err(e) = store.restore_from_bytes(&bytes) {
            r.inconclusive(&format!("restore_from_bytes failed: {}", e));
            return;
        }
        let h = cur.height();
        let skew: i64 = match rng.below(5) {
            0 => 0,
            1 | 2 => -1 - rng.below(2.min(h as usize).max(1)) as i64,
            3 => 1 + rng.below(2) as i64,
            _ => -(h as i64),
        };
        let persisted = (h as i64 + skew).max(0) as u64;
        let mut meta = TensorData::new();
        meta.set("height", TensorValue::Scalar(ScalarValue::Int(persisted as i64)));
        let _ = store.put("chain:meta", meta);
        shape.push(format!("reopen(height {} persisted as {})", h, persisted));
        r.count(if persisted < h { "reopen_height_behind" } else if persisted > h { "reopen_height_ahead" } else { "reopen_height_exact" }, 1);
        drop(cur);
        cur = mk(store);
        if let Err(e) = cur.initialize() {
            r.violation("reopen:initialize-failed-on-existing-chain", format!("{} after {:?}", e, shape), replay);
            return;
        }
        if let Err((sig, d)) = walk_chain(&cur, &blocks) {
            r.violation(format!("reopen:after-initialize:{}", sig), format!("{} after {:?}", d, shape), replay);
            return;
        }
        let n = 1 + rng.below(3);
        if let Err(e) = commit_some(&cur, n, &format!("r{}", round), &mut blocks, &mut model, &mut g) {
            r.violation("reopen:commit-refused-after-reopen", format!("{} after {:?}", e, shape), replay);
            return;
        }
        shape.push(format!("commit x{}", n));
        if let Err(e) = cur.verify() {
            r.violation("reopen:verify-fails-after-commits-on-reopened-chain", format!("verify() = Err({}) after {:?}", e, shape), replay);
            return;
        }
        if let Err((sig, d)) = walk_chain(&cur, &blocks) {
            r.violation(format!("reopen:after-commits:{}", sig), format!("{} after {:?}", d, shape), replay);
            return;
        }
        if let Err(e) = check_store(cur.store(), &model) {
            r.violation("reopen:store-differs-from-block-order-application", format!("{} after {:?}", e, shape), replay);
            return;
        }
        r.count("reopen_rounds", 1);
    }
    r.count("reopen_cases", 1);
    r.eval(hash_str(&shape.join(";")), true);
    if r.want_sample() {
        r.sample(json!({"part": "reopen", "shape": shape, "height": cur.height()}));
    }
}

fn main() {
    let args = Args::parse();
    let started = Instant::now();
    quiet_panics();
    h_chain::install_hooks();
    let mut total = Report::new();
    total.max_samples = 10;
    let part = args.extra.get("part").cloned().unwrap_or_else(|| "all".into());
    let on = |p: &str| part == "all" || part == p;
    STRICT_ENDORSEMENT_LIST.store(args.extra_u64("strict-endorsement-list", 0) != 0, Ordering::Relaxed);
    // optional: --conc-mode stress|parked restricts the concurrent part to one mode
    let conc_mode: Option<u64> = match args.extra.get("conc-mode").map(|s| s.as_str()) {
        Some("stress") => Some(0),
        Some("parked") => Some(1),
        _ => None,
    };

    if let Some(p) = &args.replay {
        let v: Value = serde_json::from_str(&std::fs::read_to_string(p).expect("replay file")).expect("json");
        let rp = if v.get("replay").is_some() { v["replay"].clone() } else { v.clone() };
        let cs = rp["case_seed"].as_u64().unwrap_or(0);
        match rp["part"].as_str().unwrap_or("") {
            "seq" => seq_case(cs, &mut total),
            "tamper" => tamper_case(cs, &mut total),
            "replay" => replay_case(cs, &mut total),
            "reopen" => reopen_case(cs, &mut total),
            "concurrent" => {
                // the configuration and the hook-level schedule are replayed exactly; what happens
                // between the hook and the append is decided by the OS scheduler, so the case is
                // repeated until it shows a violation again (bounded)
                let attempts = args.extra_u64("replay-attempts", 400);
                for k in 0..attempts {
                    conc_case(cs, &mut total, rp["mode"].as_u64());
                    if total.violations_total > 0 {
                        total.count("replay_attempts_needed", k + 1);
                        break;
                    }
                }
            }
            other => eprintln!("unknown part {:?} in replay file", other),
        }
    } else {
        if on("seq") {
            let rep = par_cases(args.threads, args.seed ^ 0x5E, args.by_tier(1_500, 60_000), args.budget(20, 240), |_i, s, r| seq_case(s, r));
            total.merge(rep);
        }
        if on("concurrent") {
            let rep = par_cases(args.threads, args.seed ^ 0xC0, args.by_tier(1_200, 40_000), args.budget(25, 300), |_i, s, r| conc_case(s, r, conc_mode));
            total.merge(rep);
        }
        if on("replay") {
            let rep = par_cases(args.threads.min(8), args.seed ^ 0x4E, args.by_tier(500, 20_000), args.budget(20, 200), |_i, s, r| replay_case(s, r));
            total.merge(rep);
        }
        if on("reopen") {
            let rep = par_cases(args.threads, args.seed ^ 0x0E, args.by_tier(1_500, 40_000), args.budget(8, 90), |_i, s, r| reopen_case(s, r));
            total.merge(rep);
        }
        if on("tamper") {
            let rep = par_cases(args.threads, args.seed ^ 0x7A, args.by_tier(48, 2_000), args.budget(15, 150), |_i, s, r| tamper_case(s, r));
            total.merge(rep);
        }
    }

    let mut floors: Vec<(&'static str, u64)> = Vec::new();
    if args.replay.is_none() {
        if on("seq") {
            floors.extend([("seq_programs", 60), ("seq_commit_ok", 150), ("seq_verify_calls", 1500), ("seq_commit_failed_after_apply_with_later_blocks", 15)]);
        }
        if on("concurrent") {
            floors.extend([("conc_cases", 100), ("conc_cases_with_overlapping_calls", 50), ("conc_hook_hits", 100), ("conc_parked_cases", 20), ("conc_cases_with_late_failure_and_success", 15), ("conc_owner_add_overlapping_commit", 300), ("conc_owner_add_on_merge_candidate_overlapping_commit", 50), ("conc_add_during_own_commit_call_accepted", 100), ("conc_add_during_own_commit_call_refused", 100)]);
        }
        if on("replay") {
            floors.extend([("replay_cases", 40), ("replay_blocks_applied", 100), ("replay_apply_committed_calls", 40)]);
        }
        if on("reopen") {
            floors.extend([("reopen_cases", 100), ("reopen_height_behind", 50), ("reopen_height_ahead", 20)]);
        }
        if on("tamper") {
            floors.extend([("tamper_chains", 8), ("tamper_evals", 4000), ("tamper_detected", 3000), ("tamper[transplanted-validator-signature]", 50), ("tamper[validator-signatures]", 200)]);
        }
    }
    let meta = Meta {
        property: "C16",
        rule: "seq: one evaluation = one random program (12-41 calls of begin/add_operation/set delta/commit/rollback/append_block over <=4 open workspaces, auto-merge on/off, block size limit; one commit in five runs while the proposer's key is absent from the validator registry, so it is refused by append AFTER its writes were applied, often with blocks of other workspaces committed since its begin; appended blocks may carry validator endorsements) judged after EVERY call (verify() passes, height = accepted blocks, user keys of the store = block-order application of committed transactions, failed commit / rollback leave the full store dump and height/tip identical) and at the end (stored blocks walked through get_block, history()); distinct by the hash of the call/outcome trace, non-trivial if workspaces overlapped and at least one block was committed. tamper: one evaluation = one (stored block, mutation) pair on a 4-7 block chain built by commit/append_block with three registered validators, at least two blocks carrying validator endorsements (add_signature); mutations include every single field of header, transactions and endorsement entries, and every signed element (endorsement entry, endorsement list, proposer signature, header, transactions) moved in from ANOTHER stored block; the altered record is written through the underlying store and verify() must fail; distinct by (scope, field class, variant, how the block was produced, tip/inner); every evaluated mutation changes the stored bytes and the decoded block. concurrent: one evaluation = 2-4 prepared workspaces committed from as many threads (keys disjoint/shared/mixed, deltas none/orthogonal/conflicting/mixed, auto-merge on/off, 0-2 prior blocks; the owner of a committing workspace still adds 0-2 operations right before its commit call, and 0-2 further workspaces stay open while their owners keep calling add_operation / set delta / rollback on them (free-running in stress mode, once per controller step while a committer sits at the hook in parked mode); a second thread of the same owner (stress mode) or the controller (parked mode, right after the commit call parked at the hook / queued behind a parked commit / returned) adds operations to a workspace while its OWN commit call is in flight; a workspace consists of every operation whose add_operation returned Ok: if it ends up Committed (own commit or merged) all of them must be in exactly one block and in the store, an operation accepted on a workspace that was not Active before the call is a violation, and a workspace whose rollback returned Ok must be in no block; each committer with probability 1/4 fails late: the proposer key is removed from the registry when it reaches the hook and registered again when its call has returned), either started together with jitter at the hook or parked at chain_commit:after_preimage and released singly / in groups in a seeded order; judged at quiescence (verify(), every block after the prefix = whole committed workspaces, each committed workspace in exactly one block, height = successful non-empty commits, stored chain walk, store = block-order application, single-writer keys present, failed writers invisible); distinct by configuration + schedule + outcomes + invocation/response order, non-trivial if at least two commit calls overlapped in real time. reopen: one evaluation = a chain of 1-5 committed blocks whose store image is re-opened 1-3 times by a new TensorChain with the same identity (persisted height exact / 1-2 behind the stored blocks, as after a crash between writing a block and writing the height / 0 / ahead), walked, extended by 1-3 commits, then verify(), the stored-chain walk (each prev_hash = hash of predecessor, tip hash) and store = block-order application are judged. replay: one evaluation = one block sequence (2-6 blocks, optionally preceded by malformed variants) applied to two fresh replicas through TensorStateMachine::apply_block or a Raft follower + apply_committed; accept/reject decisions and compute_state_root after every entry must agree between replicas, well-formed blocks must be accepted, replica user keys = block-order application; non-trivial if >= 2 blocks were applied.",
        assumptions: vec![
            "auto-merge uses an unbounded merge window (u64::MAX) or is disabled, so no verdict depends on the 100 ms wall-clock default".into(),
            "compare-and-swap transactions are generated with a non-empty expectation only (the behaviour for an absent key and an empty expectation is not specified)".into(),
            "tampering is judged on the live chain instance (in-memory height and tip are the trust anchor); auxiliary record fields (_hash, _height, _timestamp) and chain:meta are not blocks and are not tampered with".into(),
            "forgery = a block signed with a key that is not registered (under its own or a validator's name), unsigned, or carrying the old signature; equivocation by a registered validator at the tip is not detectable by design and not tested".into(),
            "replicas of one replay run start from an empty store and, where a genesis exists, from the same genesis record; which malformed blocks a replica must refuse is not judged (only counted)".into(),
            "late commit failures are injected through the public interface only (ValidatorRegistry::remove / register_validator around the call)".into(),
            "dropping, repeating or reordering genuine endorsement entries of a stored block is counted (tamper_endorsement_list_change_undetected) but not a violation unless --strict-endorsement-list 1: nothing the proposer signed commits to that list, entries are added after signing through Block::add_signature".into(),
            "whether a workspace was committed is read from the result of commit() and, for workspaces merged into another commit, from TransactionWorkspace::state()".into(),
        ],
        floors,
        exhaustive: false,
    };
    write_result(&args, &meta, &total, started);
}
